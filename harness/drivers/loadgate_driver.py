"""Implementation driver for C20: the real exception_to_python / TaskiqResult validation on crafted payloads,
with recording trap objects registered in sys.modules.

A case is {"env": ENV, "entry": "direct"|"validate"|"json", "raw": RAW} (formats: harness/props/C20.py), optionally with
"lazy": [[package, segment] ...]: sub-modules `package.segment` that exist on disk and must NOT be loaded (nor bound as an
attribute of the loaded package) while the payload is loaded - the driver removes them for the duration of the case if some
earlier work of this process loaded them, and says so ("lazy_pre").
Observation: {"res": canonical outcome, "eff": ordered list of observed effects, "newmods": new sys.modules keys,
              "executed": modules whose code ran during the load (audit hook: a module body executed - also one whose
              module object had been sitting in sys.modules unexecuted), "asked": what the import system was asked for,
              "nested": [[path, res, newmods + executed] ...]  (every nested sub-payload loaded on its own, same entry)}.

A case with "fresh": {"imports": [taskiq modules], "prelude": ...} is loaded in a FRESH interpreter (PYTHONPATH = the repo
only) that has imported nothing but those modules (section "fresh processes" below); {"fresh":…, "cases": [...]} runs a
batch of cases in one such process, in order; {"fresh_views": [{"imports":…}, …]} lists what such processes have loaded.

Nothing of taskiq is re-implemented here: the driver builds Python objects, calls the entry point inside an
observation window and canonicalises what came out."""
import abc
import ast
import builtins
import gc
import importlib
import json
import os
import pkgutil
import random
import subprocess
import sys
import types

import pydantic

from taskiq.exceptions import SecurityError
from taskiq.result import TaskiqResult
from taskiq.serialization import ExceptionRepr, _UnpickleableExceptionWrapper, exception_to_python

LOG = []            # (kind, id, number of classes synthesised so far)
BASE_SUB = [set()]  # ids of Exception.__subclasses__() at window start
UNLOADED = ["lg_unloaded_0", "lg_unloaded_1", "lg_unloaded_pkg", "lg_unloaded_pkg.inner", "colorsys"]
LOADED_PKG = "lg_loaded_pkg"
REAL_EVAL, REAL_EXEC = builtins.eval, builtins.exec


def new_subclasses():
    return [c for c in Exception.__subclasses__() if id(c) not in BASE_SUB[0]]


def log(kind, oid):
    LOG.append((kind, oid, len(new_subclasses())))


# --------------------------------------------------------------------------- module code run during a load
WATCH = {"on": False, "installed": False, "exec": [], "asked": []}


def _audit(event, args):
    if not WATCH["on"]:
        return
    if event == "import":
        WATCH["asked"].append(str(args[0]))
    elif event == "exec":
        code = args[0]
        if getattr(code, "co_name", None) == "<module>":
            WATCH["exec"].append(str(code.co_filename))


def install_watch():
    """audit hook (cannot be removed again, idle outside a window): 'exec' of a module-level code object = the body of a
    module is run - also when the module object was in sys.modules already (an unexecuted stand-in registered by
    importlib.util.LazyLoader and the like), in which case sys.modules need not grow at all"""
    if not WATCH["installed"]:
        sys.addaudithook(_audit)
        WATCH["installed"] = True


def raw_vars(m):
    """the namespace of a module object without going through its (possibly overridden) attribute lookup"""
    try:
        return types.ModuleType.__getattribute__(m, "__dict__") if issubclass(type(m), types.ModuleType) else {}
    except Exception:  # noqa: BLE001
        return {}


def executed_modules(files):
    """module bodies run during the window -> the sys.modules keys they belong to (a file no module owns: 'file:<name>');
    code compiled from a string (dataclass / namedtuple helpers) is nobody's module body"""
    files = [f for f in dict.fromkeys(files) if not f.startswith("<") or f.startswith("<frozen ")]
    if not files:
        return []
    owner = {}
    for k, m in list(sys.modules.items()):
        d = raw_vars(m)
        for f in (d.get("__file__"), getattr(d.get("__spec__"), "origin", None)):
            if isinstance(f, str):
                owner.setdefault(f, k)
    return sorted({owner.get(f, "file:" + os.path.basename(f)) for f in files})


# --------------------------------------------------------------------------- what an object IS
TYPE_MRO = type.__dict__["__mro__"]


def true_class(o):
    """(is a class, is an exception class) as the interpreter's type machinery has it - the type of the object and the MRO
    slot of a real class - without asking the object anything (`isinstance(o, type)` falls back to `o.__class__`,
    `issubclass(o, B)` walks `o.__bases__` of a non-class: both can be answered by the object) and without taskiq"""
    is_type = issubclass(type(o), type)
    return is_type, is_type and BaseException in TYPE_MRO.__get__(o)


# --------------------------------------------------------------------------- trap objects
def make_func(oid, passthrough=None):
    def trap(*a, **k):
        if passthrough is not None and not sys._getframe(1).f_globals.get("__name__", "").startswith("taskiq"):
            return passthrough(*a, **k)       # somebody else's legitimate eval/exec: not ours to record
        log("call", oid)
        return "pwned"
    trap.__name__ = trap.__qualname__ = "trap_%d" % oid
    return trap


def make_class(oid, hook, bases=(object,), ctor="any", look=None):
    """a class recording its own instantiation through exactly one hook: __new__, __init__ or the metaclass.
    look: a REAL class whose metaclass answers the class protocol oddly (what it is stays what Python's type machinery says:
    `issubclass(cls, BaseException)` is decided by BaseException's metaclass, not by the one of cls):
    "checks-true" / "checks-false" - __subclasscheck__ / __instancecheck__ of the metaclass always answer that;
    "abc-registered" - abc.ABCMeta with exception classes registered as virtual subclasses;
    "checks-raise" - the metaclass checks raise"""
    is_exc = bases != (object,)

    def behave():
        if ctor == "never":
            raise ValueError("constructor of %d always fails" % oid)
        if ctor == "base":
            raise KeyboardInterrupt("lg-propagate", oid)

    ns = {}
    if isinstance(ctor, list):                       # ["arity", n]: a fixed positional signature
        base0 = bases[0]
        ns["__init__"] = [lambda self: base0.__init__(self),
                          lambda self, a0: base0.__init__(self, a0),
                          lambda self, a0, a1: base0.__init__(self, a0, a1),
                          lambda self, a0, a1, a2: base0.__init__(self, a0, a1, a2)][ctor[1]]
        assert hook in ("new", "meta")               # the TypeError of a wrong arity is raised before any __init__ body
    if hook == "new":
        def __new__(cls, *a, **k):
            log("inst", oid)
            behave()
            return bases[0].__new__(cls, *a) if is_exc else object.__new__(cls)
        ns["__new__"] = __new__
        if not is_exc and "__init__" not in ns:
            ns["__init__"] = lambda self, *a, **k: None
    elif hook == "init":
        def __init__(self, *a, **k):
            log("inst", oid)
            behave()
            if is_exc:
                bases[0].__init__(self, *a)
        ns["__init__"] = __init__
    meta = type
    if look is not None:
        mns = {}
        if look in ("checks-true", "checks-false"):
            mns["__subclasscheck__"] = mns["__instancecheck__"] = lambda cls, other, _v=(look == "checks-true"): _v
        elif look == "checks-raise":
            def _raise(cls, other):
                raise RuntimeError("metaclass check of %d" % oid)
            mns["__subclasscheck__"] = mns["__instancecheck__"] = _raise
        elif look != "abc-registered":
            raise ValueError(look)
        meta = type("LookMeta_%d" % oid, (abc.ABCMeta if look == "abc-registered" else type,), mns)
    if hook == "meta":
        class Meta(meta):
            def __call__(cls, *a, **k):
                log("inst", oid)
                behave()
                return super().__call__(*a, **k)
        meta = Meta
        if not is_exc and "__init__" not in ns:
            ns["__init__"] = lambda self, *a, **k: None
    cls = meta("Trap_%d" % oid, bases, ns)
    if look == "abc-registered":
        for e in (ValueError, KeyError, SystemExit):
            if not issubclass(cls, e):               # (abc refuses an inheritance cycle)
                cls.register(e)
    return cls


EXC_BASES = {"Exception": Exception, "BaseException": BaseException, "ValueError": ValueError, "KeyError": KeyError,
             "SystemExit": SystemExit}


CLASS_DUNDERS = ("__bases__", "__mro__", "__name__", "__qualname__", "__module__", "__base__", "__subclasses__", "__flags__",
                 "__basicsize__", "__dictoffset__", "__itemsize__", "__weakrefoffset__", "__subclasshook__",
                 "__init_subclass__", "__abstractmethods__", "__text_signature__", "__doc__", "__dict__", "__wrapped__")


def make_lookalike(oid, look, wraps):
    """an object that is NOT a class (its type is an ordinary class, so no type() / type.__mro__ based test calls it one)
    but answers part of the class protocol as if it were: what `issubclass` / `isinstance` / hand-written class tests ask
    a non-class first argument.  Callable; being called is recorded.  `wraps`: the exception class (or, for the variants
    that also answer `__class__` with `type`, the non-exception class) it stands in front of."""
    def __call__(self, *a, **k):
        log("call", oid)
        try:
            return wraps(*a)
        except Exception:  # noqa: BLE001
            return "pwned"
    ns = {"__call__": __call__, "__slots__": ()}
    spoof = property(lambda self: type)

    def forward(self, name):
        if name == "__wrapped__":
            return wraps
        return getattr(wraps, name)
    if look in ("bases", "bases-and-mro"):                 # class attributes
        ns["__bases__"] = (wraps,)
        if look == "bases-and-mro":
            ns["__mro__"] = (wraps,) + wraps.__mro__
            ns["__name__"] = ns["__qualname__"] = "Claims_%d" % oid
    elif look == "bases-instance-attr":                    # set on the instance after construction
        del ns["__slots__"]
    elif look == "bases-deep":                             # reaches the exception class in two steps, through another look-alike
        ns["__bases__"] = (type("Step_%d" % oid, (), {"__bases__": (wraps,), "__slots__": ()})(),)
    elif look == "bases-empty":
        ns["__bases__"] = ()
    elif look == "bases-property":
        ns["__bases__"] = property(lambda self: (wraps,))
    elif look in ("bases-raise-attributeerror", "bases-raise"):
        def _bases(self):
            raise (AttributeError if look == "bases-raise-attributeerror" else RuntimeError)("__bases__ of %d" % oid)
        ns["__bases__"] = property(_bases)
    elif look == "mro-only":
        ns["__mro__"] = (wraps,) + wraps.__mro__
    elif look == "proxy":                                  # transparent: everything it has not is the wrapped class'
        ns["__getattr__"] = forward
    elif look == "answers-class-dunders":                  # __getattribute__ itself answers every dunder of the class protocol
        def __getattribute__(self, name):
            if name in CLASS_DUNDERS:
                return forward(self, name)
            return object.__getattribute__(self, name)
        ns["__getattribute__"] = __getattribute__
    elif look == "class-spoof":                            # says its __class__ is `type`; no exception anywhere near
        ns["__class__"] = spoof
        ns["__bases__"] = (wraps,) if wraps is not object else ()
    elif look == "class-spoof-no-bases":                   # NOT generated (corpus/C20/known): issubclass() itself raises TypeError
        ns["__class__"] = spoof
    elif look == "proxy-class-spoof":                      # wrapt-style: __class__ forwarded too (around a NON-exception class)
        ns["__class__"] = spoof
        ns["__getattr__"] = forward
    else:
        raise ValueError(look)
    o = type("Look_%d" % oid, (), ns)()
    if look == "bases-instance-attr":
        o.__bases__ = (wraps,)
    return o


def make_inst(spec, build_child):
    of, oid = spec.get("of", "plain"), spec["id"]
    if of == "look":
        wraps = EXC_BASES[spec["wraps"]] if spec["wraps"] in EXC_BASES else {"object": object, "dict": dict}[spec["wraps"]]
        return make_lookalike(oid, spec["look"], wraps)
    if of == "plain":
        return type("Plain_%d" % oid, (), {})()
    if of == "callable":
        def __call__(self, *a, **k):
            log("call", oid)
            return "pwned"
        return type("CallableInst_%d" % oid, (), {"__call__": __call__})()
    if of == "exc":                                   # an instance of a planted exception class (its __class__ child)
        csp = [c for s, c in spec["attrs"] if s == "__class__"]
        cls = build_child(csp[0]) if csp else ValueError
        return cls("planted")
    if of == "method":                                # a bound method
        class Holder:
            def meth(self, *a, **k):
                log("call", oid)
                return "pwned"
        return Holder().meth
    if of == "property":
        return property(lambda self: log("call", oid))
    return {"str": "text", "int": 7, "none": None, "tuple": (1, 2), "dict": {"a": 1}}[of]


class Env:
    def __init__(self, spec):
        self.argconst = spec.get("argconst", [])
        self.by_id = {}
        self.kinds = {}
        self.patches = []       # (parent, seg, trap)
        self.setattrs = []
        self.roots = []         # (name, module object or None for real modules)
        self.problems = []
        for m in spec["mods"]:
            if m.get("real_module"):
                root = sys.modules.get(m["name"]) or importlib.import_module(m["name"])
                self.build(m["obj"], None, None, given=root)
                self.roots.append((m["name"], None))
            else:
                self.roots.append((m["name"], self.build(m["obj"], None, None)))

    def make(self, sp):
        k = sp["kind"]
        if k == "module":
            return types.ModuleType("lg_obj_%d" % sp["id"])
        if k in ("func", "builtin"):
            return make_func(sp["id"])
        if k == "class":
            return make_class(sp["id"], sp.get("hook", "init"), look=sp.get("look"))
        if k == "exc":
            return make_class(sp["id"], sp.get("hook", "init"), (EXC_BASES[sp.get("base", "Exception")],),
                              sp.get("ctor", "any"), look=sp.get("look"))
        if k == "inst":
            return make_inst(sp, lambda csp: self.build(csp, None, None, premade=True))
        raise ValueError(k)

    def build(self, sp, parent, seg, given=None, premade=False):
        oid = sp["id"]
        if given is None and not sp.get("auto") and not premade and oid in self.by_id:
            return self.by_id[oid]                      # one object reachable through two paths
        if given is not None:
            o = given
        elif premade:
            o = self.make(sp)
        elif sp.get("patch"):
            orig = getattr(parent, seg)
            passthrough = orig if parent is builtins else None
            o = make_func(oid, passthrough) if sp["kind"] in ("func", "builtin") else make_class(oid, sp.get("hook", "new"))
            self.patches.append((parent, seg, o, orig))
        elif sp.get("auto"):
            o = getattr(parent, seg)
            if oid in self.by_id:                       # e.g. the class made together with its instance
                if self.by_id[oid] is not o:
                    self.problems.append("id %d denotes two objects" % oid)
                return o
        else:
            o = self.make(sp)
        if oid in self.by_id and self.by_id[oid] is not o:
            self.problems.append("id %d denotes two objects" % oid)
        self.by_id[oid] = o
        self.kinds[oid] = sp
        self.check_kind(sp, o)
        for s, c in sp.get("attrs", []):
            co = self.build(c, o, s)
            if c.get("patch"):
                continue
            if c.get("auto"):
                try:
                    if getattr(o, s) is not co and not c.get("fresh"):
                        self.problems.append("auto attribute %r of %d is not stable" % (s, oid))
                except AttributeError:
                    self.problems.append("auto attribute %r of %d missing" % (s, oid))
            else:
                setattr(o, s, co)
                if getattr(o, s) is not co:
                    self.problems.append("attribute %r of %d does not read back" % (s, oid))
        return o

    def check_kind(self, sp, o):
        """the declared kind must be what Python itself says about the object"""
        k = sp["kind"]
        is_mod = issubclass(type(o), types.ModuleType)
        # a module object is not asked anything (a failing isinstance looks `__class__` up ON the object, and a module that
        # was registered without having been executed - importlib.util.LazyLoader - runs its code on the first lookup)
        is_type, is_exc = (False, False) if is_mod else true_class(o)
        if not is_mod and not sp.get("look") and (is_type, is_exc) != (isinstance(o, type), is_type and issubclass(o, BaseException)):
            self.problems.append("object %d: isinstance/issubclass disagree with its type" % sp["id"])
        want = {"exc": (True, True), "class": (True, False)}.get(k, (False, False))
        if (is_type, is_exc) != want:
            self.problems.append("object %d declared %s but its type / MRO say %r" % (sp["id"], k, (is_type, is_exc)))
        if k == "module" and not is_mod:
            self.problems.append("object %d is not a module" % sp["id"])
        if k in ("func", "builtin") and not callable(o):
            self.problems.append("object %d not callable" % sp["id"])
        if k == "inst" and bool(sp.get("callable")) != callable(o):
            self.problems.append("object %d callable flag wrong" % sp["id"])

    def install(self):
        for name, mod in self.roots:
            if mod is not None:
                sys.modules[name] = mod
        for parent, seg, o, _orig in self.patches:
            setattr(parent, seg, o)

    def uninstall(self):
        for parent, seg, _o, orig in self.patches:
            setattr(parent, seg, orig)
        for name, mod in self.roots:
            if mod is not None:
                sys.modules.pop(name, None)


# --------------------------------------------------------------------------- payload materialisation
ARG_TAB, ARG_CONST = 1000, 5000


class Args:
    """argument numbers <-> Python values: n < 1000 is the string "echo n"; 1000 + i is entry i of the case's own table
    (JSON values that mention trap objects: module names, attribute names, nested lists, ExceptionRepr-shaped dicts);
    5000 + i is entry i of the environment's constant table (values a real constructor adds to .args by itself)"""

    def __init__(self, argtab=(), argconst=()):
        self.tab, self.const = list(argtab), list(argconst)
        self.codes = {}
        for base, vals in ((ARG_CONST, self.const), (ARG_TAB, self.tab)):
            for i, v in enumerate(vals):
                self.codes.setdefault(json.dumps(v, sort_keys=True), base + i)

    def value(self, n):
        if n < ARG_TAB:
            return "echo %d" % n
        v = self.const[n - ARG_CONST] if n >= ARG_CONST else self.tab[n - ARG_TAB]
        return json.loads(json.dumps(v))          # a fresh copy: the load may keep (or mutate) what it is given

    def known(self, v):
        try:
            return json.dumps(v, sort_keys=True) in self.codes
        except (TypeError, ValueError):
            return False

    def back(self, v):
        if isinstance(v, str) and v.startswith("echo ") and v[5:].isdigit():
            return int(v[5:])
        try:
            return self.codes[json.dumps(v, sort_keys=True)]
        except (TypeError, ValueError, KeyError):
            raise ValueError("foreign argument %r" % (v,)) from None


MISSING = "__missing__"


def field(f, ok):
    """f = {"ok": value, ...} or {"bad": json value or MISSING}"""
    if "bad" in f:
        return f["bad"]
    return ok(f)


class Mat:
    def __init__(self, env, entry, args):
        self.env, self.entry, self.args = env, entry, args
        self.instances = {}      # id(obj) -> plain-instance id

    def raw(self, r):
        arg_value = self.args.value
        k = r["k"]
        if k == "none":
            return None
        if k == "junk":
            return r["v"]
        if k == "inst":
            i = r["i"]
            if "wrapper" in i:
                nm, md, args = i["wrapper"]
                return _UnpickleableExceptionWrapper(md, nm, tuple(arg_value(a) for a in args), "stored text")
            cls = {"ValueError": ValueError, "KeyError": KeyError, "KeyboardInterrupt": KeyboardInterrupt,
                   "Exception": Exception}[i.get("cls", "ValueError")]
            o = cls("stored instance %d" % i["plain"])
            if i.get("chain"):
                o.__cause__ = KeyError("older")
            self.instances[id(o)] = (i["plain"], o)
            return o
        d = {}

        def put(key, f, ok):
            v = field(f, ok)
            if not (isinstance(v, str) and v == MISSING):
                d[key] = v
        put("exc_type", r["ty"], lambda f: f["ok"].encode() if f.get("bytes") else f["ok"])
        put("exc_module", r["md"], lambda f: f["ok"].encode() if f.get("bytes") and f["ok"] is not None else f["ok"])
        put("exc_message", r["args"], lambda f: (tuple if f.get("tuple") else list)(arg_value(a) for a in f["ok"]))
        put("exc_suppress_context", r["sup"], lambda f: f.get("as", f["ok"]))
        for key, sub in (("exc_cause", r["cause"]), ("exc_context", r["ctx"])):
            if sub["k"] == "none" and sub.get("omit", True):
                continue
            d[key] = self.raw(sub)
        d.update(r.get("extra", {}))
        if r.get("as_obj"):
            return ExceptionRepr(**{k: v for k, v in d.items() if k in ExceptionRepr.model_fields})
        return d


# --------------------------------------------------------------------------- canonical observation
def smod(m):
    return {"taskiq.serialization": "ser", "taskiq.exceptions": "exc"}.get(m, ["named", m])


class Canon:
    def __init__(self, env, mat, synth):
        self.cls_ids = {}
        for oid, o in env.by_id.items():
            if not issubclass(type(o), types.ModuleType) and true_class(o)[0]:
                self.cls_ids[id(o)] = oid
        self.mat, self.synth = mat, {id(c) for c in synth}

    def exn(self, x, depth=0):
        arg_back = self.mat.args.back
        if x is None:
            return None
        if depth > 12 or not isinstance(x, BaseException):
            return ["foreign", repr(type(x))]
        if id(x) in self.mat.instances:
            return ["old", self.mat.instances[id(x)][0]]
        cls = type(x)
        if id(cls) in self.synth:
            if cls.__bases__ != (Exception,):
                return ["foreign", "synthetic class with bases %r" % (cls.__bases__,)]
            ref, args = ["synth", cls.__name__, smod(cls.__module__)], [arg_back(a) for a in x.args]
        elif cls is Exception and len(x.args) == 1 and isinstance(x.args[0], str) \
                and not x.args[0].startswith("echo ") and not self.mat.args.known(x.args[0]):
            ref, args = ["fallback"], []               # Exception(f"{cls}({exc_msg})")
        elif id(cls) in self.cls_ids:
            ref, args = ["env", self.cls_ids[id(cls)]], [arg_back(a) for a in x.args]
        else:
            return ["foreign", repr(cls)]
        sup = x.__suppress_context__
        if not isinstance(sup, bool):
            return ["foreign", "suppress flag %r" % (sup,)]
        return ["new", ref, args, self.exn(x.__cause__, depth + 1), self.exn(x.__context__, depth + 1), sup]


WRAP = {"is_err": True, "return_value": None, "execution_time": 0.5}


def call_entry(entry, value):
    if entry == "direct":
        return exception_to_python(value)
    if entry == "validate":
        return TaskiqResult.model_validate(dict(WRAP, error=value)).error
    if entry == "json":
        return TaskiqResult.model_validate_json(json.dumps(dict(WRAP, error=value))).error
    raise ValueError(entry)


def window(env, entry, raw, argtab=()):
    """one load of `raw` inside an observation window; returns (res, eff, newmods, [executed, asked])"""
    mat = Mat(env, entry, Args(argtab, env.argconst))
    env.install()
    gc.disable()
    try:
        value = mat.raw(raw)
        before = set(sys.modules)
        BASE_SUB[0] = {id(c) for c in Exception.__subclasses__()}
        del LOG[:]
        del WATCH["exec"][:], WATCH["asked"][:]
        out = exc = None
        WATCH["on"] = True
        try:
            out = call_entry(entry, value)
        except BaseException as e:  # noqa: B036 - the outcome is the observation
            exc = e
        finally:
            WATCH["on"] = False
        trap_log = list(LOG)
        synth = new_subclasses()
        newmods = sorted(set(sys.modules) - before)
        ran = [executed_modules(WATCH["exec"]), sorted(set(WATCH["asked"]))[:12]]
        forget(newmods)
        for m in UNLOADED:
            sys.modules.pop(m, None)
    finally:
        env.uninstall()
        gc.enable()
    # merge trap hooks and synthesised classes into one ordered list
    eff, done = [], 0
    for kind, oid, k in trap_log:
        for c in synth[done:k]:
            eff.append(["synth", c.__name__, smod(c.__module__)])
        done = max(done, k)
        eff.append([kind, oid])
    for c in synth[done:]:
        eff.append(["synth", c.__name__, smod(c.__module__)])
    if exc is None:
        try:
            res = ["ok", Canon(env, mat, synth).exn(out)] if out is None or isinstance(out, BaseException) \
                else ["other", "returned %r" % type(out)]
        except ValueError as e:
            res = ["other", str(e)]
        if res[0] == "ok" and "foreign" in json.dumps(res[1]):
            res = ["other", json.dumps(res[1])[:300]]
    elif isinstance(exc, SecurityError):
        res = ["security"]
    elif isinstance(exc, pydantic.ValidationError):
        res = ["validation"]
    elif isinstance(exc, KeyboardInterrupt) and len(exc.args) == 2 and exc.args[0] == "lg-propagate":
        res = ["propagated", exc.args[1]]
    elif isinstance(exc, ValueError):
        res = ["valueerror", type(exc).__name__]
    else:
        res = ["other", "raised %s: %s" % (type(exc).__name__, str(exc)[:200])]
    return res, eff, newmods, ran


def forget(names):
    """undo imports: drop the modules from sys.modules and unbind them from their (still loaded) parent packages, so
    that the next load starts from the same state"""
    gone = {m: sys.modules.pop(m) for m in names if m in sys.modules}
    for m, o in gone.items():
        parent, _, child = m.rpartition(".")
        p = sys.modules.get(parent)
        if isinstance(p, types.ModuleType) and vars(p).get(child) is o:
            delattr(p, child)
    return gone


class Unloaded:
    """for the duration of a case the sub-modules `package.segment` are not loaded and `segment` is not bound on the
    package (remove and restore; normally there is nothing to remove: this process never imports them itself)"""

    def __init__(self, targets):
        self.targets = [(p, s_) for p, s_ in targets]
        self.mods, self.attrs, self.pre, self.problems = {}, [], [], []

    def __enter__(self):
        for pkg, seg in self.targets:
            full = pkg + "." + seg
            for k in sorted(k for k in sys.modules if k == full or k.startswith(full + ".")):
                self.mods[k] = sys.modules.pop(k)
            if full in self.mods:
                self.pre.append(full)
            p = sys.modules.get(pkg)
            if isinstance(p, types.ModuleType) and seg in vars(p):
                if full in self.mods and vars(p)[seg] is self.mods[full]:
                    self.attrs.append((p, seg, vars(p)[seg]))
                    delattr(p, seg)
                else:
                    self.problems.append("%s has an attribute %r that is not the sub-module" % (pkg, seg))
        return self

    def __exit__(self, *a):
        for p, seg, o in self.attrs:
            setattr(p, seg, o)
        sys.modules.update(self.mods)
        return False


def subtrees(raw, path=()):
    if raw["k"] == "dict":
        for d, key in ((0, "cause"), (1, "ctx")):
            sub = raw[key]
            yield path + (d,), sub
            yield from subtrees(sub, path + (d,))


ENV_CACHE = {}


def get_env(spec):
    key = json.dumps(spec, sort_keys=True)
    if key not in ENV_CACHE:
        if len(ENV_CACHE) > 40:
            ENV_CACHE.clear()
        ENV_CACHE[key] = Env(spec)
    return ENV_CACHE[key]


def setup(opts):
    # importable modules that are NOT loaded (a gate that imported would make them appear in sys.modules)
    d = os.path.join(os.getcwd(), "lg_unloaded_%d" % os.getpid())
    os.makedirs(os.path.join(d, "lg_unloaded_pkg"), exist_ok=True)
    body = ("class Boom(Exception):\n    pass\n\n\nclass Thing:\n    pass\n\n\ndef fn(*a):\n    return 'imported'\n")
    for rel in ("lg_unloaded_0.py", "lg_unloaded_1.py", "lg_unloaded_pkg/__init__.py", "lg_unloaded_pkg/inner.py"):
        with open(os.path.join(d, rel), "w") as f:
            f.write(body)
    # a package that IS loaded whose sub-modules (files next to it) are NOT: a walk `lg_loaded_pkg` -> `inner` -> ... must
    # stop at the first segment; `LazyThing` is exported through __all__ but bound nowhere
    for rel in ("lg_loaded_pkg/deep",):
        os.makedirs(os.path.join(d, rel), exist_ok=True)
    for rel in ("lg_loaded_pkg/__init__.py", "lg_loaded_pkg/inner.py", "lg_loaded_pkg/other.py",
                "lg_loaded_pkg/deep/__init__.py", "lg_loaded_pkg/deep/leaf.py"):
        with open(os.path.join(d, rel), "w") as f:
            f.write(body + ('\n__all__ = ["Boom", "Thing", "fn", "LazyThing"]\n' if rel == "lg_loaded_pkg/__init__.py" else ""))
    sys.path.insert(0, d)
    importlib.invalidate_caches()
    for m in UNLOADED:
        sys.modules.pop(m, None)
    importlib.import_module(LOADED_PKG)
    install_watch()
    warm_up()


def warm_up():
    """let pydantic / taskiq do their lazy work outside any observation window (payloads that name builtins / os only)"""
    warm = [{"exc_type": "ValueError", "exc_module": "builtins", "exc_message": ["w"],
             "exc_cause": {"exc_type": "X", "exc_module": None, "exc_message": []}},
            {"exc_type": "system", "exc_module": "os", "exc_message": []}, {"exc_type": 5}, 0, None, ValueError("w"),
            {"exc_type": "a\0", "exc_module": None, "exc_message": []}]
    for e in ("direct", "validate", "json"):
        for w in warm:
            try:
                call_entry(e, w)
            except Exception:  # noqa: S110
                pass


def special(case):
    """observations outside the property's scope decision (DESIGN.md section 4 C20, 'Scope'): recorded, not judged"""
    what = case["special"]
    seen = []
    if what == "lazy_getattr":
        m = types.ModuleType("lg_lazy")

        def __getattr__(name):
            seen.append(name)
            raise AttributeError(name)
        m.__getattr__ = __getattr__
        sys.modules["lg_lazy"] = m
        try:
            r = exception_to_python({"exc_type": "Foo.Bar", "exc_module": "lg_lazy", "exc_message": []})
            return {"special": what, "module_getattr_called_with": seen, "result_class": type(r).__name__,
                    "result_module": type(r).__module__}
        finally:
            sys.modules.pop("lg_lazy", None)
    if what == "foreign_lazy_package":
        # loaded packages that are not taskiq's and resolve missing attributes themselves (PEP 562 __getattr__ or a module
        # subclass): does a stored name walking into one of their unloaded sub-modules make *them* import it?
        out = []
        for t in lazy_view():
            if t["owner"] != "other" or not t["hook"] or len(out) >= 4:
                continue
            for u in t["unloaded"][:8]:
                before = set(sys.modules)
                try:
                    r = exception_to_python({"exc_type": u["name"] + ".NoSuchError", "exc_module": t["pkg"], "exc_message": []})
                    how = type(r).__name__
                except Exception as e:
                    how = "raised " + type(e).__name__
                new = sorted(forget(sorted(set(sys.modules) - before)))
                if new:
                    out.append({"stored": "%s:%s.NoSuchError" % (t["pkg"], u["name"]), "outcome": how,
                                "imported_by_the_package_hook": new[:6], "imported_count": len(new)})
                    break
        return {"special": what, "packages_with_their_own_attribute_hook": [t["pkg"] for t in lazy_view() if t["hook"]],
                "observed": out, "note": "attribute lookup on somebody else's module is Python's getattr (scope decision); "
                                         "such packages are not used as lazy-walk targets unless they are taskiq's own"}
    if what == "forged_class":
        class Forged:
            __bases__ = (BaseException,)

            @property
            def __class__(self):
                return type

            def __call__(self, *a):
                seen.append(list(a))
                return ValueError("returned by the forged object")
        m = types.ModuleType("lg_forged")
        m.forged = Forged()
        sys.modules["lg_forged"] = m
        try:
            says = [isinstance(m.forged, type), issubclass(m.forged, BaseException)]
            try:
                r = exception_to_python({"exc_type": "forged", "exc_module": "lg_forged", "exc_message": ["x"]})
                out = type(r).__name__
            except Exception as e:
                out = "raised " + type(e).__name__
            return {"special": what, "python_isinstance_issubclass_say": says, "called_with": seen, "outcome": out}
        finally:
            sys.modules.pop("lg_forged", None)
    if what == "pickle_path":
        import pickle

        class Unpicklable(Exception):
            def __init__(self, a, b):
                super().__init__(a)
                self.b = b
        res = TaskiqResult(is_err=True, return_value=None, execution_time=0.1, error=Unpicklable(1, lambda: 0))
        back = pickle.loads(pickle.dumps(res))  # noqa: S301 - our own bytes
        return {"special": what, "error_type_after_pickle_round_trip": type(back.error).__name__,
                "note": "BaseModel.__setstate__ runs no validator: exception_to_python is not on the pickle load path"}
    raise ValueError(what)


# --------------------------------------------------------------------------- what taskiq itself ships
FULL_VIEW = ["taskiq.serialization", "taskiq.exceptions", "taskiq.result.v2", "taskiq.compat"]
PROBE_SHAPES = [lambda i: "echo %d" % i, lambda i: [["m%d" % i, "n", ["a"], ""], {"k": None}, "s", 3, None][i % 5]]
MAX_PROBE = 6


def classify(o):
    if issubclass(type(o), types.ModuleType):       # by its type: a module object is not asked anything
        return "module"
    if isinstance(o, type):
        return "exc" if issubclass(o, BaseException) else "class"
    if isinstance(o, types.FunctionType):
        return "func"
    if isinstance(o, types.BuiltinFunctionType):
        return "builtin"
    return "inst"


def probe_ctor(cls):
    """what the plain Python call cls(*args) does, per argument count - the reference for 'load instantiates the named
    exception class with the stored arguments and does nothing else'.  rows[n] = ["ok", extra] (an instance of exactly
    cls whose .args are the given ones followed by the JSON values `extra`) | ["raises"] (an Exception) | ["skip", why]"""
    rows = []
    for n in range(MAX_PROBE + 1):
        seen = []
        for shape in PROBE_SHAPES:
            args = [shape(i) for i in range(n)]
            try:
                x = cls(*json.loads(json.dumps(args)))
            except Exception:
                seen.append(["raises"])
                continue
            except BaseException as e:  # noqa: B036
                seen.append(["skip", "raises %s" % type(e).__name__])
                continue
            try:
                got = json.loads(json.dumps(list(x.args)))
            except (TypeError, ValueError, AttributeError):
                seen.append(["skip", "args not JSON"])
                continue
            if type(x) is not cls or got[:n] != args or not isinstance(x.__suppress_context__, bool):
                seen.append(["skip", "returned %s with other args" % type(x).__name__])
            else:
                seen.append(["ok", got[n:]])
        rows.append(seen[0] if all(s_ == seen[0] for s_ in seen) else ["skip", "depends on the argument types"])
    return rows


def discover(case):
    """the exception classes (and, for the modules the load path lives in, every other attribute) that are reachable
    through sys.modules keys taskiq / taskiq.* in this process, with object identities and constructor behaviour.
    case["known"] = [[module, [attribute path], id] ...]: objects the harness has already given an identity"""
    import taskiq  # noqa: F401 - the whole package, as a worker has it
    ids, out = {}, []
    for mn, path, i in case.get("known", []):
        o = sys.modules.get(mn) or importlib.import_module(mn)
        for seg in path:
            o = getattr(o, seg)
        ids.setdefault(id(o), i)
    fresh = [case.get("base", 3000)]

    def oid(o):
        if id(o) not in ids:
            ids[id(o)] = fresh[0]
            fresh[0] += 1
        return ids[id(o)]

    def entry(name, o, children=()):
        k = classify(o)
        d = dict(seg=name, obj=oid(o), kind=k, children=list(children))
        if k == "exc":
            d["rows"] = probe_ctor(o)
            d["label"] = "%s:%s" % (o.__module__, o.__qualname__)
        elif k == "inst":
            d["callable"] = callable(o)
        return d

    def stable(parent, name, o):
        try:
            return getattr(parent, name) is o and getattr(parent, name) is o
        except Exception:
            return False

    def attrs(m):
        return [(a, o) for a, o in sorted(vars(m).items()) if isinstance(a, str) and stable(m, a, o)]
    for mn in sorted(sys.modules):
        m = sys.modules[mn]
        if not (mn == "taskiq" or mn.startswith("taskiq.")) or not isinstance(m, types.ModuleType):
            continue
        full = mn in FULL_VIEW
        kids = []
        for a, o in attrs(m):
            k = classify(o)
            if k == "exc":
                kids.append(entry(a, o))
            elif k == "module" and (full or mn == "taskiq"):
                sub = [entry(b, c) for b, c in attrs(o) if classify(c) == "exc"]
                sub = [e for e in sub if all(x[0] != "skip" for x in e["rows"])][:12]   # the harness would drop the others
                if full or sub:
                    kids.append(entry(a, o, sub))
            elif full and not (a.startswith("__") and a.endswith("__")):
                if k != "inst" or sum(c["kind"] == "inst" for c in kids) < 4:   # a few typing aliases / constants are enough
                    kids.append(entry(a, o))
        if kids:
            out.append(dict(name=mn, obj=oid(m), children=kids))
    return {"special": "discover", "modules": out}


# --------------------------------------------------------------------------- loaded packages, unloaded sub-modules
def top_names(origin, limit=5):
    """names a module file binds at top level, read from the source (nothing is imported)"""
    try:
        with open(origin, "rb") as f:
            tree = ast.parse(f.read())
    except Exception:  # noqa: BLE001 - no source, no names
        return []
    out = []
    for n in tree.body:
        if isinstance(n, (ast.ClassDef, ast.FunctionDef, ast.AsyncFunctionDef)):
            out.append(n.name)
        elif isinstance(n, ast.Assign):
            out += [t.id for t in n.targets if isinstance(t, ast.Name)]
    return [x for x in out if not x.startswith("__")][:limit]


def disk_children(fullname, search, depth, keep=None):
    """sub-modules of a package as the files on its search path say (pkgutil.iter_modules: no import)"""
    out = []
    for info in sorted(pkgutil.iter_modules(list(search)), key=lambda i: i.name):
        if keep is not None and not keep(info.name):
            continue
        full = fullname + "." + info.name
        try:
            spec = info.module_finder.find_spec(full)
        except Exception:  # noqa: BLE001
            spec = None
        locs = list(getattr(spec, "submodule_search_locations", None) or [])
        out.append(dict(name=info.name, ispkg=bool(info.ispkg), names=top_names(getattr(spec, "origin", None)),
                        children=disk_children(full, locs, depth - 1) if info.ispkg and depth > 0 and locs else []))
    return out


def reach(mn, m):
    """[module key, attribute walk] pairs that arrive at the loaded package m: itself, and every loaded ancestor whose
    attributes lead to it"""
    parts, out = mn.split("."), [[mn, []]]
    for i in range(len(parts) - 1, 0, -1):
        cur = sys.modules.get(".".join(parts[:i]))
        for seg in parts[i:]:
            cur = vars(cur).get(seg) if isinstance(cur, types.ModuleType) else None
        if cur is m:
            out.append([".".join(parts[:i]), parts[i:]])
    return out


def lazy_view(cap_other=4):
    """for every package in sys.modules: the sub-modules that exist on disk, are not in sys.modules and are not bound on
    the package, and the names its __all__ promises but its namespace does not bind"""
    out = []
    for mn in sorted(sys.modules):
        m = sys.modules[mn]
        path = getattr(m, "__path__", None) if isinstance(m, types.ModuleType) else None
        if path is None or mn == "__main__":
            continue
        owner = "taskiq" if mn == "taskiq" or mn.startswith("taskiq.") else "planted" if mn.startswith("lg_") else "other"
        budget = [cap_other if owner == "other" else 40]

        def keep(name, mn=mn, m=m, budget=budget):
            if mn + "." + name in sys.modules or name in vars(m) or budget[0] <= 0:
                return False
            budget[0] -= 1
            return True
        try:
            unl = disk_children(mn, list(path), 1, keep)
        except Exception:  # noqa: BLE001 - a path entry that cannot be listed
            continue
        allv = vars(m).get("__all__")
        decl = [n for n in allv if isinstance(n, str) and n not in vars(m)][:6] if isinstance(allv, (list, tuple)) else []
        if unl or decl:
            out.append(dict(pkg=mn, owner=owner, hook="__getattr__" in vars(m) or type(m) is not types.ModuleType,
                            roots=reach(mn, m), unloaded=unl, declared=decl))
    return out


# --------------------------------------------------------------------------- fresh processes
# What is "already loaded" depends on the process: an application that embeds the receiver has imported taskiq.api and never
# touched the scheduler's dependencies, a worker has imported taskiq.cli.worker.run, ...  A driver process has everything a
# test needs fully imported, so a module OBJECT that sits in sys.modules without having been executed (importlib.util.
# LazyLoader, a stand-in module type) never exists there.  A fresh interpreter imports a chosen list of taskiq modules
# (nothing else: no harness module before the snapshot of sys.modules is taken), optionally does what an application does
# first (prelude), and then loads the cases it is given, in order, with the same window as above.
FRESH_BOOT = r"""
import sys


def lg_setup(names, prelude):
    errors = []
    for n in names.split(","):
        if n:
            try:
                __import__(n)
            except BaseException as e:
                errors.append([n, type(e).__name__])
    if prelude == "inmemory":
        try:
            import asyncio
            from taskiq import InMemoryBroker
            lg_broker = InMemoryBroker()

            @lg_broker.task
            async def lg_task(x):
                raise ValueError(x)

            async def lg_go():
                await lg_broker.startup()
                t = await lg_task.kiq(1)
                r = await t.wait_result(timeout=5)
                await lg_broker.shutdown()
                return r.is_err
            asyncio.run(lg_go())
        except BaseException as e:
            errors.append(["prelude", type(e).__name__])
    return errors


if sys.argv[1] == "run":
    names, prelude, drivers, job, out = sys.argv[2:7]
    errors = lg_setup(names, prelude)
    snapshot = list(sys.modules)
    sys.path.append(drivers)
    import loadgate_driver
    loadgate_driver.fresh_child(snapshot, errors, job, out)
else:
    # views only say what a process that imports a list HAS in sys.modules (to choose the processes worth running): every
    # import of a taskiq module starts with the package itself, so that part is done once and the rest in a forked copy
    plans, drivers, out = sys.argv[2:5]
    import os
    __import__("taskiq")
    for i, plan in enumerate(plans.split(";")):
        names, prelude, seed, walks = plan.split("|")
        pid = os.fork()
        if pid == 0:
            code = 1
            try:
                errors = lg_setup(names, prelude)
                snapshot = list(sys.modules)
                sys.path.append(drivers)
                import loadgate_driver
                loadgate_driver.fresh_child_view(snapshot, errors, int(seed), int(walks), out + "." + str(i))
                code = 0
            finally:
                os._exit(code)
        os.waitpid(pid, 0)
"""
FRESH_N = [0]


def repo_root():
    import taskiq
    return os.path.dirname(os.path.dirname(os.path.abspath(taskiq.__file__)))


def fresh_python(args):
    env = {k: v for k, v in os.environ.items() if k not in ("PYTHONSTARTUP", "PYTHONINSPECT")}
    env.update(PYTHONPATH=repo_root(), PYTHONDONTWRITEBYTECODE="1", PYTHONHASHSEED="0")
    try:
        p = subprocess.run([sys.executable, "-c", FRESH_BOOT] + args, env=env, stdin=subprocess.DEVNULL,
                           stdout=subprocess.PIPE, stderr=subprocess.STDOUT, timeout=900)
    except subprocess.TimeoutExpired:
        return "fresh interpreter timed out"
    return None if p.returncode == 0 else "fresh interpreter rc=%s: %s" % (p.returncode, p.stdout.decode("utf-8", "replace")[-1500:])


def slurp(path):
    try:
        with open(path) as f:
            return json.load(f)
    except (OSError, ValueError):
        return None
    finally:
        if os.path.exists(path):
            os.remove(path)


def run_fresh_views(case):
    """what a process has in sys.modules after importing each of the lists (one interpreter, one forked copy per list)"""
    FRESH_N[0] += 1
    base = os.path.join(os.getcwd(), "lg_fresh_%d_%d" % (os.getpid(), FRESH_N[0]))
    plans = case["fresh_views"]
    arg = ";".join("%s|%s|%d|%d" % (",".join(pl["imports"]), pl.get("prelude") or "none", pl.get("seed", 0), pl.get("walks", 0))
                   for pl in plans)
    err = fresh_python(["views", arg, os.path.dirname(os.path.abspath(__file__)), base])
    views = [slurp("%s.%d" % (base, i)) or {"_crash": err or "the forked copy wrote no view"} for i in range(len(plans))]
    return {"views": views}


def run_fresh(case):
    """parent side: one fresh interpreter for a batch of cases (or for a single case: a replay)"""
    fr = case["fresh"]
    FRESH_N[0] += 1
    base = os.path.join(os.getcwd(), "lg_fresh_%d_%d" % (os.getpid(), FRESH_N[0]))
    single = "cases" not in case
    job = {"cases": [{k: v for k, v in case.items() if k != "fresh"}] if single else case["cases"]}
    with open(base + ".in", "w") as f:
        json.dump(job, f)
    err = fresh_python(["run", ",".join(fr["imports"]), fr.get("prelude") or "none",
                        os.path.dirname(os.path.abspath(__file__)), base + ".in", base + ".out"])
    os.remove(base + ".in")
    out = slurp(base + ".out")
    if err or out is None:
        return {"_crash": err or "fresh interpreter wrote no result"}
    if single:
        o = out["batch"][0]
        if isinstance(o, dict) and "_crash" not in o:
            o["fresh_process"] = {k: out[k] for k in ("errors", "warm_imported")}
        return o
    return out


def where(name, m):
    """taskiq's own / third-party / standard library, by where the module's file is (namespace read directly)"""
    if name == "taskiq" or name.startswith("taskiq."):
        return "taskiq"
    f = raw_vars(m).get("__file__")
    return "third-party" if isinstance(f, str) and ("site-packages" in f or "dist-packages" in f) else "stdlib"


def type_name(o):
    t = type(o)
    return "module" if t is types.ModuleType else "%s.%s" % (t.__module__, t.__qualname__)


def fresh_start():
    for m in UNLOADED:
        sys.modules.pop(m, None)
    install_watch()
    before = set(sys.modules)
    warm_up()
    return sorted(set(sys.modules) - before)


def fresh_child(snapshot, errors, job_path, out_path):
    """child side (called by FRESH_BOOT after the imports, the prelude and the snapshot): the cases, in order"""
    import traceback
    with open(job_path) as f:
        job = json.load(f)
    out = {"errors": errors, "warm_imported": fresh_start(), "batch": []}
    for c in job["cases"]:
        try:
            out["batch"].append(run_case(c, {}))
        except BaseException:  # noqa: B036 - a crash is an observation
            out["batch"].append({"_crash": traceback.format_exc()[-2000:]})
    with open(out_path, "w") as f:
        json.dump(out, f, default=str)


def fresh_child_view(snapshot, errors, seed, walks, out_path):
    out = {"errors": errors, "warm_imported": fresh_start()}
    out.update(fresh_view(snapshot, {"seed": seed, "walks": walks}))
    with open(out_path, "w") as f:
        json.dump(out, f, default=str)


PROBE_NAME = "LgNoSuchError"


def fresh_view(snapshot, job):
    """what this process had in sys.modules when the application code was done (name, Python's own classification, type of
    the module object, owner), and - for taskiq's own modules - attributes one can walk THROUGH: `module:attr.<made-up>`
    is a name Python's getattr cannot resolve (checked here, in a process that loads nothing afterwards)"""
    mods, walks = [], []
    r = random.Random(job.get("seed", 0))
    for name in snapshot:
        m = sys.modules.get(name)
        if m is None or not isinstance(name, str):
            continue
        k = classify(m)
        d = {"name": name, "kind": k, "type": type_name(m), "owner": where(name, m)}
        if k == "inst":
            d["callable"] = callable(m)
        mods.append(d)
    own = [d["name"] for d in mods if d["owner"] == "taskiq" and d["kind"] == "module"]
    for name in sorted(r.sample(own, min(len(own), job.get("walks", 0)))):
        m = sys.modules[name]
        attrs = [(a, o) for a, o in sorted(raw_vars(m).items()) if isinstance(a, str) and a.isidentifier()]
        modv = [x for x in attrs if isinstance(x[1], types.ModuleType)]
        rest = [x for x in attrs if not isinstance(x[1], types.ModuleType) and not x[0].startswith("__")] or attrs
        for a, o in r.sample(modv, min(len(modv), 2)) + r.sample(rest, min(len(rest), 2)):
            try:
                if getattr(m, a) is not o or getattr(m, a) is not o:
                    continue
                k = classify(o)
                try:
                    getattr(o, PROBE_NAME)
                    continue                      # an object that answers every name: nothing to say about it
                except AttributeError:
                    pass
                w = {"module": name, "attr": a, "kind": k, "type": type_name(o) if k == "module" else k}
                if k == "inst":
                    w["callable"] = callable(o)
                walks.append(w)
            except Exception:  # noqa: BLE001,S112 - an attribute that cannot be looked at is not offered
                continue
    return {"snapshot": mods, "walks": walks}


def fresh_entries():
    """every module file of the taskiq package, read off the package's directories (nothing imported)"""
    import taskiq
    out = set()
    for root in taskiq.__path__:
        for d, dirs, files in os.walk(root):
            dirs[:] = sorted(x for x in dirs if x.isidentifier())
            rel = os.path.relpath(d, root)
            prefix = ["taskiq"] + ([] if rel == "." else rel.split(os.sep))
            for f in files:
                if f.endswith(".py") and f[:-3].isidentifier():
                    out.add(".".join(prefix if f == "__init__.py" else prefix + [f[:-3]]))
    return sorted(out)


def run_case(case, opts):
    if "fresh" in case:
        return run_fresh(case)
    if "fresh_views" in case:
        return run_fresh_views(case)
    if case.get("special") == "fresh_entries":
        return {"special": "fresh_entries", "modules": fresh_entries()}
    if case.get("special") == "lazy_view":
        return {"special": "lazy_view", "packages": lazy_view()}
    if case.get("special") == "discover":
        return discover(case)
    if "special" in case:
        return special(case)
    env = get_env(case["env"])
    if env.problems:
        return {"_crash": "environment self-check failed: %r" % env.problems[:5]}
    with Unloaded(case.get("lazy", ())) as un:
        if un.problems:
            return {"_crash": "a sub-module that must not be loaded cannot be unloaded: %r" % un.problems[:3]}
        res, eff, newmods, ran = window(env, case["entry"], case["raw"], case.get("argtab", ()))
        nested = []
        if case.get("nested", True):
            for path, sub in list(subtrees(case["raw"]))[:14]:
                r2, _e2, m2, ran2 = window(env, case["entry"], sub, case.get("argtab", ()))
                nested.append([list(path), r2, m2 + [x for x in ran2[0] if x not in m2]])
    obs = {"res": res, "eff": eff, "newmods": newmods, "executed": ran[0], "asked": ran[1], "nested": nested}
    if un.pre:
        obs["lazy_pre"] = un.pre
    return obs
