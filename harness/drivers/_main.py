"""Child-process entry: runs one implementation driver over a list of cases.

usage: _main.py <driver> <in.json> <out.json>     (PYTHONPATH=/repo:/verif/harness)
A driver module defines run_case(case, opts) and optionally setup(opts)."""
import importlib
import json
import logging
import os
import sys
import traceback

sys.path.insert(0, os.path.dirname(os.path.abspath(__file__)))
logging.disable(logging.CRITICAL)


def main():
    name, fin, fout = sys.argv[1:4]
    job = json.load(open(fin))
    mod = importlib.import_module(name)
    opts = job.get("opts", {})
    if hasattr(mod, "setup"):
        mod.setup(opts)
    out = []
    for c in job["cases"]:
        try:
            out.append(mod.run_case(c, opts))
        except BaseException:  # a driver crash is an observation, never a silent pass
            out.append({"_crash": traceback.format_exc()[-2000:]})
    json.dump(out, open(fout, "w"), default=str)


if __name__ == "__main__":
    main()
