"""Source tie: regenerate the Gallina reading of selected /repo functions from their source text on every run
(harness/pygal.py), compile it, and re-check the committed proofs of coq/srcproofs/<proofs>.v against it.

obligations(ctx, key, pid) -> (list of obligation dicts (name, ok, axioms, detail), to be added to a Report:
   translate:<file>            the function is still inside the translatable subset (the translator is fail-closed; a
                               function outside the subset makes the unit SKIPPED - one obligation marked skipped, a
                               NOTE line on stdout - not broken: see the comment in obligations())
   gen-compiles:<module>       the generated definitions type-check against PyPrelude.v
   <theorem>                   one per `Print Assumptions` of the proof file: generated = model, and the property
                               theorems over the generated definition
Nothing generated is ever committed: the files live in the check's scratch directory (build/<ID>/src)."""
import os
import re
import shutil

import common as C
import pygal
import pygal_specs

SRCPROOFS = os.path.join(C.COQ, "srcproofs")


def _hygiene(text, rel):
    txt = re.sub(r"\(\*.*?\*\)", "", text, flags=re.S)
    bad = ["%s: %s" % (rel, m.group(0)) for m in C.FORBIDDEN.finditer(txt)]
    depth = 0
    for line in txt.splitlines():
        if re.match(r"\s*Section\s+\w+\s*\.", line):
            depth += 1
        elif re.match(r"\s*End\s+\w+\s*\.", line) and depth > 0:
            depth -= 1
        elif re.match(r"\s*(Variable|Variables|Hypothesis|Hypotheses|Context)\b", line) and depth == 0:
            bad.append("%s: %s outside a Section" % (rel, line.strip()))
    return bad


def obligations(ctx, key, pid):
    spec = dict(pygal_specs.SPECS[key])
    spec["proofs"] = spec["proofs"][pid]
    d = os.path.join(ctx.dir, "src")
    os.makedirs(d, exist_ok=True)
    obs = []
    tname = "translate:%s[%s]" % (spec["file"], ",".join(f["name"] for f in spec["functions"]))
    try:
        text, info = spec.get("translate", pygal.translate)(C.REPO, spec)     # pygal_m.translate for monadic units
    except pygal.Unsupported as e:
        # The translator is fail-closed: it never guesses a meaning for a construct outside its subset.  A function that
        # has left the subset (an extracted helper, a new optional hook, ...) says nothing about the property either way,
        # so this is not a broken obligation: the *_src theorems of the unit are NOT re-checked on this tree (said on
        # stdout and in the evidence), and what ties the model to this source is the correspondence check alone - as for
        # every function that has no translation unit.  A function that still translates but no longer equals the model
        # does break the obligations below.
        why = "source left the translatable subset: %s" % e
        print("NOTE: property=%s source tie of unit '%s' skipped (%s); model tied to this tree by the correspondence "
              "check only" % (pid, key, why))
        return [dict(name=tname + " (skipped)", ok=True, skipped=True, axioms=[],
                     detail="SKIPPED - %s; the theorems of srcproofs/%s.v are not re-checked against this tree" % (
                         why, spec["proofs"]))], dict(skipped=True, reason=why, file=spec["file"])
    except (OSError, SyntaxError) as e:
        return [dict(name=tname, ok=False, axioms=[], detail="cannot read / parse source: %r" % e)], None
    obs.append(dict(name=tname, ok=True, axioms=[], detail="sha256 %s; %s" % (
        info["sha256"][:16], "; ".join("%s lines %d-%d" % (n, f["lines"][0], f["lines"][1])
                                       for n, f in info["functions"].items()))))
    gen = os.path.join(d, spec["module"] + ".v")
    open(gen, "w").write(text)
    # proof files: the ones shared by all properties of the unit (spec["proof_deps"]) first, then the property's own
    files = list(spec.get("proof_deps", [])) + [spec["proofs"]]
    texts = {}
    for name in files:
        shutil.copy(os.path.join(SRCPROOFS, name + ".v"), os.path.join(d, name + ".v"))
        texts[name] = open(os.path.join(d, name + ".v")).read()
    bad = _hygiene(text, spec["module"] + ".v")
    for name in files:
        bad += _hygiene(texts[name], "srcproofs/" + name + ".v")
    obs.append(dict(name="hygiene(srcproofs/%s.v + generated)" % ".v, ".join(files), ok=not bad, axioms=[],
                    detail="; ".join(bad)[:400] if bad else "clean"))
    args = ["coqc", "-R", C.COQ, "TQ", "-Q", d, "Src", "-w", "-all"]
    rc, out = C.sh(args + [gen], 600, cwd=d)
    obs.append(dict(name="gen-compiles:%s" % spec["module"], ok=rc == 0, axioms=[],
                    detail="ok" if rc == 0 else out.strip()[-600:]))
    if rc != 0:
        return obs, info
    broken = None
    for name in files:
        ptext = texts[name]
        wanted = re.findall(r"Print Assumptions\s+([\w.']+)\s*\.", ptext)
        theorems = re.findall(r"^\s*(?:Theorem|Corollary)\s+([\w']+)", ptext, re.M)
        if broken is not None:
            for t in theorems:
                obs.append(dict(name=t, ok=False, axioms=[], detail="not re-checked (srcproofs/%s.v failed)" % broken))
            continue
        rc, out = C.sh(args + [os.path.join(d, name + ".v")], 900, cwd=d)
        if rc != 0:
            m = re.search(r"line (\d+), characters", out)
            line = int(m.group(1)) if m else 0
            failing = None
            for mm in re.finditer(r"^\s*(?:Theorem|Lemma|Corollary|Example)\s+([\w']+)", ptext, re.M):
                if ptext.count("\n", 0, mm.start()) + 1 <= line:
                    failing = mm.group(1)
            obs.append(dict(name="%s (srcproofs/%s.v)" % (failing or "?", name), ok=False, axioms=[],
                            detail="no longer checks against the generated definitions: " + " ".join(out.split())[-500:]))
            for t in theorems:
                if t != failing:
                    obs.append(dict(name=t, ok=False, axioms=[], detail="not re-checked (file failed at %s)" % failing))
            broken = name
            continue
        blocks = [b for b in re.split(r"(?=Closed under the global context|Axioms:)", out)
                  if b.startswith("Closed") or b.startswith("Axioms:")]
        for i, tname in enumerate(wanted):
            if i >= len(blocks):
                obs.append(dict(name=tname, ok=False, axioms=[], detail="no Print Assumptions output"))
            elif blocks[i].startswith("Closed"):
                obs.append(dict(name=tname, ok=True, axioms=[], detail="Closed under the global context (re-checked "
                                "against the definitions generated from the current source)"))
            else:
                ax = [a for a in re.findall(r"^([\w.']+)\s*:", blocks[i], re.M) if a != "Axioms"]
                badax = [a for a in ax if a not in C.ALLOWED_AXIOMS]
                obs.append(dict(name=tname, ok=not badax, axioms=ax,
                                detail=("axioms: " + ", ".join(ax)) if not badax else ("disallowed: " + ", ".join(badax))))
        for t in theorems:
            if t not in wanted:
                obs.append(dict(name=t, ok=False, axioms=[], detail="theorem without Print Assumptions"))
    return obs, info
