"""argv of a worker command line for a scenario (no taskiq import: used by the generators)."""
import random

BROKER_PATH = "verif_glue:broker"
RECEIVER_PATH = "verif_glue:receiver"


def cli_argv(opts):
    """opts: dict with optional keys ack_type (str, spelled as given), A (int | None), P (int), N (int | None),
    wtt (float seconds | None), no_parse (bool), no_propagate (bool), a_spelling (how an unlimited A is spelled),
    more (list of option groups - each a list of argv tokens, see harmless_options - for worker options that do not
    configure the Receiver), more_modules (positional module names, placed right after the broker path), more_order
    (int | None: seed of the shuffle that mixes all option groups; None = the old fixed order, `more` appended).
    Returns the argv list (the case keeps it, so a replay is self-contained)."""
    groups = [["--receiver", RECEIVER_PATH]]
    if opts.get("ack_type") is not None:
        groups.append(["--ack-type", opts["ack_type"]])
    if "A" in opts:
        a = opts["A"]
        groups.append(["--max-async-tasks", str(opts.get("a_spelling", 0) if a is None else a)])
    if "P" in opts:
        groups.append(["--max-prefetch", str(opts["P"])])
    if opts.get("N") is not None:
        groups.append(["--max-tasks-per-child", str(opts["N"])])
    if opts.get("wtt") is not None:
        groups.append(["--wait-tasks-timeout", repr(float(opts["wtt"]))])
    if opts.get("no_parse"):
        groups.append(["--no-parse"])
    if opts.get("no_propagate"):
        groups.append(["--no-propagate-errors"])
    groups += [list(g) for g in opts.get("more") or []]
    if opts.get("more_order") is not None:
        random.Random(opts["more_order"]).shuffle(groups)
    return [BROKER_PATH] + list(opts.get("more_modules") or []) + [t for g in groups for t in g]


# ---------------------------------------------------------------------------------------------------------------------
# Worker options of taskiq/cli/worker/args.py that configure something else than the Receiver (the pool that runs sync
# functions, the process manager, logging, task discovery, broker shutdown): whatever their value, the Receiver that
# start_listen builds must be the one the Receiver-options alone describe.
LOG_LEVELS = ["INFO", "WARNING", "DEBUG", "ERROR", "FATAL"]
POOL_SIZES = [1, 2, 3, 3, 4, 5, 8, 16]


def _spell(r, opt, value):
    """`--opt value` | `--opt=value`"""
    return [opt, str(value)] if r.random() < .7 else ["%s=%s" % (opt, value)]


def harmless_options(r, pool_p=.55):
    """Draw worker options that must not change how the Receiver behaves.  Returns (groups, modules, facts) where groups
    is a list of token groups for cli_argv(more=...), modules the positional module names, facts what the evidence counts:
    a dict(threads, procs, process_pool, n) - `threads` / `procs` = the explicitly given size of the sync pool."""
    groups, facts = [], dict(threads=None, procs=None, process_pool=False)
    if r.random() < pool_p:
        k = r.random()
        if k < .6:
            facts["threads"] = r.choice(POOL_SIZES)
        elif k < .8:
            facts["procs"] = r.choice(POOL_SIZES)             # without --use-process-pool: ignored altogether
        elif k < .9:
            facts["threads"], facts["procs"] = r.choice(POOL_SIZES), r.choice(POOL_SIZES)
        else:
            facts["procs"], facts["process_pool"] = r.choice(POOL_SIZES[:6]), True
            if r.random() < .4:
                facts["threads"] = r.choice(POOL_SIZES)
        if facts["threads"] is not None:
            groups.append(_spell(r, "--max-threadpool-threads", facts["threads"]))
        if facts["procs"] is not None:
            groups.append(_spell(r, "--max-process-pool-processes", facts["procs"]))
        if facts["process_pool"]:
            groups.append(["--use-process-pool"])
    elif r.random() < .1:
        facts["process_pool"] = True
        groups.append(["--use-process-pool"])                  # pool size left to the default
    for p, make in ((.35, lambda: _spell(r, r.choice(["--workers", "-w"]), r.choice([1, 2, 3, 4, 8]))),
                    (.25, lambda: _spell(r, "--shutdown-timeout", r.choice([1, 5, 5.0, 0.5, 30, 2.5]))),
                    (.2, lambda: _spell(r, "--hardkill-count", r.choice([0, 1, 3, 10]))),
                    (.2, lambda: _spell(r, "--max-fails", r.choice([-1, 0, 1, 3, 100]))),
                    (.3, lambda: _spell(r, "--log-level", r.choice(LOG_LEVELS))),
                    (.1, lambda: _spell(r, "--log-format", r.choice(["%(message)s", "[%(levelname)s] %(name)s: %(message)s"]))),
                    (.15, lambda: ["--no-configure-logging"]),
                    (.1, lambda: _spell(r, r.choice(["--tasks-pattern", "-tp"]), r.choice(["**/tasks.py", "jobs/*.py"]))),
                    (.1, lambda: [r.choice(["--fs-discover", "-fsd"])]),
                    (.08, lambda: [r.choice(["--reload", "-r"])]),
                    (.08, lambda: ["--do-not-use-gitignore"])):
        if r.random() < p:
            groups.append(make())
    modules = r.choice([[], [], [], ["verif_glue.tasks"], ["verif_glue.tasks", "verif_glue.more_tasks"]])
    r.shuffle(groups)
    facts["n"] = len(groups) + (1 if modules else 0)
    return groups, modules, facts


def pool_facts(argv):
    """the explicitly given sync-pool size of an argv (evidence only): dict(threads, procs, process_pool)"""
    out = dict(threads=None, procs=None, process_pool=False)
    names = {"--max-threadpool-threads": "threads", "--max-process-pool-processes": "procs"}
    for k, t in enumerate(argv):
        head, _, val = t.partition("=")
        if head in names:
            out[names[head]] = int(val) if val else int(argv[k + 1])
        elif t == "--use-process-pool":
            out["process_pool"] = True
    return out


def add_harmless(argv, r):
    """an existing argv (list produced by cli_argv) with harmless options mixed in; returns (argv, facts)"""
    groups, modules, facts = harmless_options(r)
    head, rest = list(argv[:1]), list(argv[1:])
    # split the old tail into option groups: a token that starts with `-` (and is not a negative number) opens a group
    old = []
    for t in rest:
        if t.startswith("-") and not t.lstrip("-").replace(".", "", 1).isdigit() or not old:
            old.append([t])
        else:
            old[-1].append(t)
    allg = old + groups
    if r.random() < .6:
        r.shuffle(allg)
    return head + modules + [t for g in allg for t in g], facts
