"""argv of a worker command line for a scenario (no taskiq import: used by the generators)."""
BROKER_PATH = "verif_glue:broker"
RECEIVER_PATH = "verif_glue:receiver"


def cli_argv(opts):
    """opts: dict with optional keys ack_type (str, spelled as given), A (int | None), P (int), N (int | None),
    wtt (float seconds | None), no_parse (bool), no_propagate (bool), a_spelling (how an unlimited A is spelled).
    Returns the argv list (the case keeps it, so a replay is self-contained)."""
    argv = [BROKER_PATH, "--receiver", RECEIVER_PATH]
    if opts.get("ack_type") is not None:
        argv += ["--ack-type", opts["ack_type"]]
    if "A" in opts:
        a = opts["A"]
        argv += ["--max-async-tasks", str(opts.get("a_spelling", 0) if a is None else a)]
    if "P" in opts:
        argv += ["--max-prefetch", str(opts["P"])]
    if opts.get("N") is not None:
        argv += ["--max-tasks-per-child", str(opts["N"])]
    if opts.get("wtt") is not None:
        argv += ["--wait-tasks-timeout", repr(float(opts["wtt"]))]
    if opts.get("no_parse"):
        argv += ["--no-parse"]
    if opts.get("no_propagate"):
        argv += ["--no-propagate-errors"]
    return argv
