"""pygal_m - a monadic statement backend for pygal (the fail-closed Python-ast -> Gallina translator).

pygal.py translates pure decision functions (statements by continuation passing, the value of the function is the value
of the Gallina term).  This backend translates the body of an `async def` METHOD WHOSE POINT IS ITS EFFECTS into the
statement monad of coq/theories/PyPreludePipeline.v (`stm A` = Pipeline.v's writer + exception monad `M` carrying
`Normal a` / `Return`):

  statement                                   Gallina
  x = <pure expression>                       let x_n := e in ...
  x = [await] <primitive>(...)                x_n <~ lift (prim ...) ;; ...
  [await] <primitive>(...)                    _ <~ lift (prim ...) ;; ...      (a primitive that mutates an argument
                                              object re-binds that variable to the object's new content)
  if t: A [else: B]                           outs <~ (if t then A; next outs else B; next outs) ;; ...
                                              (tests by pygal.tr_test: decision trees with narrowing; `outs` = the
                                              variables re-bound in an arm and read later)
  if t: ...return / raise                     the rest of the block goes into the other arm (so that what the test
                                              narrowed - `if task is None: return` - stays narrowed), when the test is atomic
  return                                      return_
  return e   (function with a declared        return_v e      (e pure; every path of such a function must end in
              result type, spec "ret")                         `return e` or `raise`: the fall-through type is empty)
  try: A except Exception [as e]: H           outs <~ try_except (A; next outs) (fun e => H; next outs) ;; ...
     [else: E]                                try_else (A; next mid) (fun e => H; next outs) (fun mid => E; next outs)
  try: A except C [as e]: H [else: E]         try_except_on P / try_else_on P, P = the unit's predicate for class C
                                              (Ext.except_classes; `Exception` keeps the two forms above)
  raise / raise e   (inside the handler)      raise_ e
  raise C / raise C() [from <pure expr>]      raise_ x, x = the unit's reading of a fresh exception of class C
                                              (Ext.exc_new); the cause does not influence control flow
  for x in <list>: B                          state <~ for_ l (fun x state => B; next state) state0 ;; ...
                                              (`state` = the variables B re-binds that exist before the loop)
  logging calls, docstrings, pass             nothing
  [srcloop] additions:
  for a, b in <list of pairs>: B              for_ l (fun '(a, b) state => ...)
  continue                                    continue_ state      and the loop it belongs to becomes `for_c l body state0`
                                              (the unit's prelude defines both; a `return` inside such a loop is rejected)
  return [await] <primitive>(...)             v <~ lift (prim ...) ;; return_v v
  a statement on which no path falls          is the last of its block (bind_outs: nothing is bound after it)
  through (try/if whose arms all return), at the end of a function with a declared result
  spec key "scope" (text after the imports, e.g. "Open Scope Z_scope."); function spec key "body_of":
  f(function node) -> (statements to translate, extra (name, Ty) parameters) - e.g. the body of one iteration of a
  function that is `<set-up>; while True: <body>` (the hook itself must be fail-closed about the shape it accepts)
Everything else raises Unsupported: `finally`, `while`, `with`, `break`, `return <value>` in a function
without declared result, several `except` clauses, tuples of exception classes, loop `else`, awaits that are not
primitives of the unit, nested functions, ...

Fail-closed rules that matter for soundness of the reading:
  * a variable (re-)bound in a try-suite is not visible in the handler, nor after the statement unless every path
    re-binds it (the monadic `catch` would hand the handler the OLD binding);
  * a variable first bound inside a loop body or an `if` arm cannot be read after it;
  * expressions are pygal's typed, pure expressions: an `await` or a primitive inside an expression is rejected;
  * a Boolean local that holds the result of an isinstance test narrows the tested variable where it is tested, as
    long as neither has been re-bound in between (hook `fact_test`, see rebind()).

Unit-specific hooks (attributes of pygal.Ext, on top of the ones pygal.py documents):
  prim(fn, node, env)      -> None | (gallina term of type M T, result Ty, name of the mutated variable or None)
                              node is the value of an assignment / expression statement (Await included)
  mutates(stmt)            -> set of local names whose object the expression statement mutates (syntactic)
  fact_test(fn, g, t, env, kt, kf)   the truthiness test of a Boolean carrying a `fact` (see pygal.tr_test)
  except_classes           {python class name: Gallina predicate on exceptions}   (default: only `Exception`)
  exc_new(fn, node, env)   -> None | Gallina text of a freshly constructed exception (node = the operand of `raise`)
  [srclabels] stmt_m(fn, stmt, env, cont) -> text | None   a statement only the unit can read (item assignment
                              `obj.attr[k] = v`, ...); cont(env') is the translation of what follows
  [srclabels] mutates_target(stmt)  -> set of local names whose object an assignment to a subscript / attribute mutates
  [srclabels] `for a, b in <list of pairs>` (element Ty of kind "pair" with .fst / .snd): tr_for_pair
  [srclabels] spec key "state_var": the function is translated for the final content of that local (a mutated object);
                              a bare `return` is `return_v <its current content>` (the caller supplies the same at the
                              fall-through end and lists the name as live)
  multi_except             [srcrun] True: a try statement may have several except clauses (every class of
                              except_classes then needs a predicate; "Exception" defaults to `is_exception`); translated
                              to try_except_on / try_else_on with the disjunction of the predicates and an if-chain
                              over the handlers (first matching clause wins)
  expr(fn, node, env)      [srcrun] see pygal.Ext
[srcrun] A variable whose only assignment in a try-suite is the suite's last statement keeps its old binding in the
handlers (an exception means that assignment did not happen).  A local that holds None on one path and a T on another
where the paths meet (`x = None ... if c: x = f()`) is an Optional[T]: the translator notices the clash, records
x : Optional[T] and translates the function again with None / a T coerced to `None` / `Some v` at every assignment of x
(by name-independent inference; the function spec key "locals": {name: Ty} can declare such types up front).
  stmt_blk(fn, s, rest, env, k, live, live_rest) -> None | Gallina text of the block `s; rest`      [srcpm]
                              consulted first for every statement: statement forms only that unit translates (`while`,
                              `continue`, other loops, subscripted stores, tests / arguments that call primitives - see
                              pygal_procman.py); None = the statement is translated as usual
  live_in(stmts, live)     -> the names that may be read by `stmts` or after them (`live`): a sharper liveness analysis
                              than the default "every name that occurs"                            [srcpm]
Function spec keys on top of pygal's: "ret" (Ty: the function returns a value), "vararg" / "kwarg" ((name, Ty): the
function has *name / **name, handed to the Gallina function as ordinary parameters of that opaque type; only the
unit's primitives can look at them), "gparams" (text of extra implicit binders, e.g. "{pval : Type}").

Trusted: pygal.py, this file, the unit's primitive tables, PyPreludePipeline.v, Python's `ast`."""
import ast
import hashlib
import os

import pygal
from pygal import NONE, Ty, Unsupported, _bad, forget, gty, is_logging, path_of, tr_expr, tr_test  # noqa: F401


def List(t):
    return Ty("list", arg=t, g="list %s" % gty(t))


class _Dup(Exception):
    pass


class _OffEnd(Unsupported):     # [srcloop] the fall-through end of a function that has a declared result was reached
    pass


class _Retype(Exception):
    """[srcrun] a local variable holds None on one path and a T (or an Optional[T]) on another: its type is
    Optional[T]; translate() records that and translates the function again"""

    def __init__(self, types):
        Exception.__init__(self, "retype %r" % (types,))
        self.types = types


def _join(a, b):
    """[srcrun] the Optional type two differently typed bindings of one variable share, or None"""
    if a == b:
        return a
    for x, y in ((a, b), (b, a)):
        if x == NONE:
            return y if y.kind == "opt" else pygal.Opt(y)
        if x.kind == "opt" and x.arg == y:
            return x
    return None


def names_used(stmts):
    return {n.id for s in stmts for n in ast.walk(s) if isinstance(n, ast.Name)}


def assigned(fn, stmts):
    """local names (re-)bound by the statements: assignment targets and objects mutated by primitives"""
    out = set()
    for s in stmts:
        if isinstance(s, ast.Assign):
            out |= {t.id for t in s.targets if isinstance(t, ast.Name)}
            if getattr(fn.ext, "setattr_", None) is not None:      # [srcgate] `x.attr = v` re-binds x to the object's new content
                out |= {t.value.id for t in s.targets if isinstance(t, ast.Attribute) and isinstance(t.value, ast.Name)}
            # [srclabels] `obj.attr[k] = v` / `obj.attr = v`: the unit says which local's object is mutated
            if getattr(fn.ext, "mutates_target", None) is not None and any(not isinstance(t, ast.Name) for t in s.targets):
                out |= set(fn.ext.mutates_target(s))
        elif isinstance(s, (ast.AugAssign, ast.AnnAssign)):
            if isinstance(s.target, ast.Name):
                out.add(s.target.id)
        elif isinstance(s, ast.If):
            out |= assigned(fn, s.body) | assigned(fn, s.orelse)
        elif isinstance(s, ast.Try):
            out |= assigned(fn, s.body) | assigned(fn, s.orelse) | assigned(fn, s.finalbody)
            for h in s.handlers:
                out |= assigned(fn, h.body)
        elif isinstance(s, ast.For):
            out |= assigned(fn, s.body) | assigned(fn, s.orelse)
            if isinstance(s.target, ast.Name):
                out.add(s.target.id)
            elif isinstance(s.target, ast.Tuple):                       # [srcloop]
                out |= {e.id for e in s.target.elts if isinstance(e, ast.Name)}
        elif isinstance(s, ast.While):       # [srcpm] `while` is translated by a unit hook (Ext.stmt_blk); its body re-binds
            out |= assigned(fn, s.body) | assigned(fn, s.orelse)
        elif isinstance(s, ast.Expr) and getattr(fn.ext, "mutates", None) is not None:
            out |= set(fn.ext.mutates(s))
    return out


def rebind(env, name, g, t):
    """env with local `name` bound to (g, t): what was narrowed below it is forgotten, and so is every isinstance
    fact about it (held by a Boolean local)"""
    e = forget(env, name)
    for p, (pg, pt) in list(e.items()):
        f = getattr(pt, "fact", None)
        if f is not None and (f[0] == name or f[0].startswith(name + ".")):
            e[p] = (pg, Ty(pt.kind))
    e[name] = (g, t)
    return e


def tup(gs):
    return "tt" if not gs else gs[0] if len(gs) == 1 else "(%s)" % ", ".join(gs)


def next_of(outs, box, node):
    """the continuation at the fall-through end of a sub-block: hand the re-bound variables on"""
    def k(env):
        vals = []
        for v in outs:
            if v not in env:
                _bad("variable %s may be unbound after this statement" % v, node)
            vals.append(env[v])
        canon = getattr(pygal._CUR["ext"], "join_type", None) or (lambda t: t)     # [srcgate] Ext.join_type: at a join, a
        box.append([canon(t) for _, t in vals])          # narrowed view of a value is handed on as its un-narrowed type
        return "next %s" % tup([g for g, _ in vals])
    return k


def out_types(outs, box, node, want=None):
    """all fall-through ends agree on the types of the variables they hand on"""
    ts = want
    for b in box:
        if ts is None:
            ts = b
        if b != ts:
            # [srcrun] None on one path, a T on another: the variable is an Optional[T] (see _Retype)
            joined = {}
            for v, t1, t2 in zip(outs, ts, b):
                if t1 != t2:
                    j = _join(t1, t2)
                    if j is None or j.kind != "opt":
                        joined = None
                        break
                    joined[v] = j
            if joined:
                raise _Retype(joined)
            _bad("variables %r are re-bound with different types on different paths: %r / %r" % (outs, ts, b), node)
    return ts          # None: no path falls through


def bind_outs(fn, text, outs, types, env, cont):
    """`outs <~ text ;; cont(env with outs re-bound)`"""
    dead = types is None                  # nothing falls through: what follows is dead, but must still translate
    if dead:
        types = []
        for v in outs:
            if v not in env:
                _bad("variable %s may be unbound after this statement" % v)
            types.append(env[v][1])
    e2, names = env, []
    for v, t in zip(outs, types):
        nv = fn.fresh(v)
        e2 = rebind(e2, v, nv, t)
        names.append(nv)
    try:
        c = cont(e2)
    except _OffEnd:                       # [srcloop] no path falls through this statement and nothing follows it
        if not dead:
            raise
        return text
    if c == "next %s" % tup(names):       # `outs <~ a ;; next outs` is `a` (right identity); keeps the text readable
        return text
    if len(names) <= 1:
        return "%s <~ %s ;;\n%s" % (names[0] if names else "_", text, c)
    return "sbind (%s) (fun '(%s) =>\n%s)" % (text, ", ".join(names), c)


def paren(text):
    """text in parentheses, unless it already is"""
    if text.startswith("("):
        d = 0
        for i, ch in enumerate(text):
            d += (ch == "(") - (ch == ")")
            if d == 0:
                break
        if i == len(text) - 1:
            return text
    return "(%s)" % text


def ends(block):
    """the block never falls through (syntactically)"""
    if not block:
        return False
    s = block[-1]
    if isinstance(s, (ast.Return, ast.Raise, ast.Continue)):       # [srcloop] continue
        return True
    if isinstance(s, ast.If):
        return ends(s.body) and ends(s.orelse)
    return False


def pure(fn, node, env):
    g, t = tr_expr(fn, node, env)
    if fn.pending:
        _bad("a partial primitive inside an expression (not supported by the monadic backend)", node)
    return g, t


def test(fn, node, env, kt, kf):
    text = tr_test(fn, node, env, kt, kf)
    if fn.pending:
        _bad("a partial primitive inside a test (not supported by the monadic backend)", node)
    return text


def tr_block(fn, stmts, env, k, live):
    """stmts -> Gallina text of type stm _ ; k(env) is the text at the fall-through end of the block; `live` = the
    names read by whatever follows the block"""
    if not stmts:
        return k(env)
    s, rest = stmts[0], stmts[1:]
    live_rest = names_used(rest) | live
    if getattr(fn.ext, "live_in", None) is not None:     # [srcpm] a unit may supply a sharper liveness analysis
        live_rest = fn.ext.live_in(rest, live)
    cont = lambda e: tr_block(fn, rest, e, k, live)      # noqa: E731
    if isinstance(s, ast.Expr) and isinstance(s.value, ast.Constant) and isinstance(s.value.value, str):
        return cont(env)                                 # docstring
    # [srcpm] unit-specific statement forms (Ext.stmt_blk(fn, s, rest, env, k, live, live_rest) -> text | None): `while`,
    # `continue`, loops over other iterables, subscripted stores, tests / arguments that call primitives
    # (named stmt_blk since the merge: [srclabels]' hook further down is Ext.stmt_m, with another signature)
    hook = getattr(fn.ext, "stmt_blk", None)
    if hook is not None:
        r = hook(fn, s, rest, env, k, live, live_rest)
        if r is not None:
            return r
    if is_logging(s) or isinstance(s, ast.Pass):
        return cont(env)                                 # logging does not influence the effects
    if isinstance(s, ast.Continue):                      # [srcloop]
        if rest:
            _bad("statements after continue", rest[0])
        if "__loop" not in env:
            _bad("continue outside a translated loop", s)
        state, box = env["__loop"]
        vals = []
        for v in state:
            if v not in env:
                _bad("variable %s may be unbound at this continue" % v, s)
            vals.append(env[v])
        box.append([t for _, t in vals])
        return "continue_ %s" % tup([g for g, _ in vals])
    if isinstance(s, ast.Return):
        if rest:
            _bad("statements after return", rest[0])
        if "__noreturn" in env:                          # [srcloop]
            _bad("return inside a loop that uses continue", s)
        rt = fn.spec.get("ret")
        if rt is not None:
            if s.value is None:
                _bad("bare return in a function with a declared result", s)
            prim = getattr(fn.ext, "prim", None)         # [srcloop] return [await] <primitive>(...)
            r = prim(fn, s.value, env) if prim else None
            if r is not None:
                g, t, mut = r
                if mut is not None:
                    _bad("the result of a mutating primitive is returned", s)
                if t != rt:
                    _bad("return of %r where %r is declared" % (t, rt), s)
                v = fn.fresh("ret")
                return "%s <~ lift %s ;;\nreturn_v %s" % (v, g, v)
            g, t = pure(fn, s.value, env)
            if t != rt and getattr(fn.ext, "coerce", None) is not None:     # [srcgate] unit coercion into the declared result
                g2 = fn.ext.coerce(fn, g, t, rt)
                if g2 is not None:
                    g, t = g2, rt
            if t != rt:
                _bad("return of %r where %r is declared" % (t, rt), s)
            return "return_v %s" % g
        if s.value is not None and not (isinstance(s.value, ast.Constant) and s.value.value is None):
            _bad("return of a value (the function is translated for its effects)", s)
        # [srclabels] a method translated for the final content of an object it mutates (spec "state_var": the local
        # that holds it): `return` hands the object's current content out
        if fn.spec.get("state_var") is not None:
            return "return_v %s" % env[fn.spec["state_var"]][0]
        return "return_"
    if isinstance(s, ast.Raise):
        if rest:
            _bad("statements after raise", rest[0])
        new = getattr(fn.ext, "exc_new", None)
        gx = new(fn, s.exc, env) if (new is not None and s.exc is not None) else None
        if gx is not None:
            if s.cause is not None:          # `from <cause>`: evaluated, stored in __cause__, no influence on control
                cg, ct = pure(fn, s.cause, env)
                if ct != fn.ext.exc_type and ct != NONE:
                    _bad("raise ... from %r" % ct, s)
            return "raise_ %s" % gx
        if "__exc" not in env or s.cause is not None:
            _bad("raise outside an except clause / raise ... from", s)
        g, name = env["__exc"]
        if s.exc is not None and not (isinstance(s.exc, ast.Name) and s.exc.id == name and env.get(name, (None,))[0] == g):
            _bad("raise of something other than the caught exception", s)
        return "raise_ %s" % g
    if isinstance(s, ast.If):
        return tr_if(fn, s, rest, env, k, live, live_rest)
    if isinstance(s, ast.Try):
        return tr_try(fn, s, env, cont, live_rest)
    if isinstance(s, ast.For):
        return tr_for(fn, s, env, cont, live_rest)
    # [srclabels] unit-specific statements (Ext.stmt_m(fn, stmt, env, cont) -> text | None), e.g. an item assignment
    # `obj.attr[k] = <call>`: the hook emits the statement and calls cont with the environment after it
    if getattr(fn.ext, "stmt_m", None) is not None:
        r = fn.ext.stmt_m(fn, s, env, cont)
        if r is not None:
            return r
    if isinstance(s, (ast.Assign, ast.AnnAssign, ast.AugAssign, ast.Expr)):
        return tr_simple(fn, s, env, cont)
    _bad("statement %s" % type(s).__name__, s)


def tr_simple(fn, s, env, cont):
    prim = getattr(fn.ext, "prim", None)
    if isinstance(s, ast.Expr):
        r = prim(fn, s.value, env) if prim else None
        if r is None:
            _bad("expression statement that is not a primitive of the unit: %s" % ast.unparse(s.value)[:60], s)
        g, t, mut = r
        declared = set(fn.ext.mutates(s)) if getattr(fn.ext, "mutates", None) else set()
        if (set() if mut is None else {mut}) != declared:
            _bad("internal: mutation table of the unit is inconsistent for %s" % ast.unparse(s.value)[:60], s)
        if mut is None:
            c = cont(env)
            return "lift %s" % g if c == "next tt" and t == NONE else "_ <~ lift %s ;;\n%s" % (g, c)
        nv = fn.fresh(mut)
        c = cont(rebind(env, mut, nv, t))
        return "lift %s" % g if c == "next %s" % nv else "%s <~ lift %s ;;\n%s" % (nv, g, c)
    if isinstance(s, ast.Assign):
        if len(s.targets) != 1:
            _bad("multiple assignment", s)
        tgt, val = s.targets[0], s.value
        # [srcgate] `x.attr = v` for a local x: a primitive of the unit that re-binds x to the object's new content
        if isinstance(tgt, ast.Attribute) and isinstance(tgt.value, ast.Name) and getattr(fn.ext, "setattr_", None):
            r = fn.ext.setattr_(fn, s, env)
            if r is not None:
                g, t = r
                nv = fn.fresh(tgt.value.id)
                c = cont(rebind(env, tgt.value.id, nv, t))
                return "lift %s" % g if c == "next %s" % nv else "%s <~ lift %s ;;\n%s" % (nv, g, c)
    elif isinstance(s, ast.AnnAssign):
        if s.value is None:
            _bad("annotation without value", s)
        tgt, val = s.target, s.value
    else:
        tgt, val = s.target, ast.BinOp(left=s.target, op=s.op, right=s.value)
        ast.copy_location(val, s)
        ast.fix_missing_locations(val)
    if not isinstance(tgt, ast.Name):
        _bad("assignment to something that is not a local variable", s)
    r = prim(fn, val, env) if prim else None
    v = fn.fresh(tgt.id)
    if r is not None:
        g, t, mut = r
        if mut is not None:
            _bad("the None result of a mutating primitive is assigned", s)
        cg, ct = coerce_local(fn, tgt.id, v, t, s)       # [srcrun] declared local types
        if cg != v:
            v2 = fn.fresh(tgt.id)
            return "%s <~ lift %s ;;\nlet %s := %s in\n%s" % (v, g, v2, cg, cont(rebind(env, tgt.id, v2, ct)))
        c = cont(rebind(env, tgt.id, v, t))
        return "lift %s" % g if c == "next %s" % v else "%s <~ lift %s ;;\n%s" % (v, g, c)
    g, t = pure(fn, val, env)
    g, t = coerce_local(fn, tgt.id, g, t, s)             # [srcrun] declared local types
    return "let %s := %s in\n%s" % (v, g, cont(rebind(env, tgt.id, v, t)))


def coerce_local(fn, name, g, t, node):
    """[srcrun] function spec key "locals": {name: Ty} - the declared type of a local variable (what a Python annotation
    `x: Optional[T] = None` says).  Every assignment to such a name must produce the declared type; for a declared
    Optional[T] the value None becomes `None` and a value of type T becomes `Some v`.  Names without a declaration
    keep the type of the assigned expression (the behaviour before this key existed)."""
    want = (fn.spec.get("locals") or {}).get(name)
    if want is None or t == want:
        return g, t
    if want.kind == "opt":
        if t == NONE:
            return "(@None %s)" % paren(gty(want.arg)), want
        if t == want.arg:
            return "(Some %s)" % g, want
    _bad("assignment of %r to the local %s declared as %r" % (t, name, want), node)


def tr_if(fn, s, rest, env, k, live, live_rest):
    # guard: `if t: ... return` - the rest of the block goes into the other arm (keeps what t narrowed)
    # [srcgate] opt-in Ext.guard_else: `if t: ...return  else: O` followed by R is `if t: ...return` followed by O; R
    if ends(s.body) and s.orelse and getattr(fn.ext, "guard_else", False):
        rest, s = list(s.orelse) + list(rest), ast.copy_location(ast.If(test=s.test, body=s.body, orelse=[]), s)
        live_rest = names_used(rest) | live
    if ends(s.body) and not s.orelse and rest:
        calls = []

        def other(e):
            if calls and not getattr(fn.ext, "guard_dup", False):    # [srcgate] opt-in: copy the rest into every arm
                raise _Dup()
            calls.append(1)
            return tr_block(fn, rest, e, k, live)
        n0 = fn.n
        try:
            return test(fn, s.test, env, lambda e: tr_block(fn, s.body, e, _unreachable(s), live_rest), other)
        except _Dup:
            fn.n = n0
    outs = sorted((assigned(fn, s.body) | assigned(fn, s.orelse)) & live_rest)
    box = []
    kk = next_of(outs, box, s)
    text = test(fn, s.test, env, lambda e: tr_block(fn, s.body, e, kk, live_rest),
                lambda e: tr_block(fn, s.orelse, e, kk, live_rest))
    return bind_outs(fn, paren(text), outs, out_types(outs, box, s), env, lambda e: tr_block(fn, rest, e, k, live))


def _unreachable(node):
    def k(env):
        _bad("internal: fall-through of a block that ends in return / raise", node)
    return k


def tr_try(fn, s, env, cont, live_rest):
    if s.finalbody:
        _bad("try ... finally", s)
    classes = getattr(fn.ext, "except_classes", None) or {"Exception": None}
    # [srcgate] `except (C1, C2, ...)`: a tuple of at least two known classes other than Exception -> the disjunction of
    # their predicates
    h0 = s.handlers[0] if len(s.handlers) == 1 else None
    if h0 is not None and isinstance(h0.type, ast.Tuple) and len(h0.type.elts) >= 2 \
            and all(path_of(c) in classes and classes[path_of(c)] is not None for c in h0.type.elts):
        tpred = "(fun x => %s)" % " || ".join("%s x" % classes[path_of(c)] for c in h0.type.elts)
    else:
        tpred = None
    # [srcrun] several except clauses (units that set Ext.multi_except and give every class a predicate, "Exception"
    # included - its default predicate is the unit's `is_exception`): the first clause whose class matches handles the
    # exception, what a handler raises is not seen by the other clauses ->
    #   try_except_on (fun x => P1 x || P2 x) A (fun x => if P1 x then H1 else H2)
    many = len(s.handlers) > 1 and getattr(fn.ext, "multi_except", False)
    if tpred is not None:
        pred, preds = tpred, [tpred]
    else:
        if not s.handlers or (len(s.handlers) != 1 and not many) \
                or any(h.type is None or path_of(h.type) not in classes for h in s.handlers):
            _bad("a try statement other than `try ... except %s [as e] ... [else ...]`" % " | ".join(sorted(classes)), s)
        preds = [classes[path_of(h.type)] if path_of(h.type) != "Exception" else None for h in s.handlers]
        if many:
            preds = [p or "is_exception" for p in preds]
            pred = "(fun x => %s)" % " || ".join("%s x" % p for p in preds)
        else:
            pred = preds[0]
    on = "" if pred is None else "_on %s" % pred
    for h in s.handlers:
        if h.name and h.name in env:
            _bad("the except clause's name shadows a local variable (Python unbinds it after the handler)", h)
    hbodies = [st for h in s.handlers for st in h.body]
    outs = sorted((assigned(fn, s.body) | assigned(fn, hbodies) | assigned(fn, s.orelse)) & live_rest)
    box = []
    kk = next_of(outs, box, s)
    xv = fn.fresh(s.handlers[0].name or "exc")
    # [srcrun] a variable whose only assignment in the try-suite is its LAST statement (a plain `v = e`) still has its
    # old binding whenever a handler runs: the store to a local cannot fail, so an exception means the assignment did
    # not happen.  Every other variable the try-suite (re-)binds is invisible to the handlers, as before.
    late = set()
    last = s.body[-1]
    if isinstance(last, ast.Assign) and len(last.targets) == 1 and isinstance(last.targets[0], ast.Name) \
            and last.targets[0].id not in assigned(fn, s.body[:-1]):
        late.add(last.targets[0].id)
    henv0 = env
    for v in assigned(fn, s.body) - late:   # the handler must not look at what the try-suite (re-)bound
        henv0 = {p: x for p, x in rebind(henv0, v, None, NONE).items() if p != v}
    h_texts = []
    for h in s.handlers:
        henv = dict(henv0)
        henv["__exc"] = (xv, h.name)
        if h.name:
            henv = rebind(henv, h.name, xv, fn.ext.exc_type)
        h_texts.append(tr_block(fn, h.body, henv, kk, live_rest))
    h_text = h_texts[-1]
    for p, t in reversed(list(zip(preds[:-1], h_texts[:-1]))):
        h_text = "(if %s %s then\n%s\nelse\n%s)" % (p, xv, t, h_text)
    if not s.orelse:
        b_text = tr_block(fn, s.body, env, kk, live_rest)
        text = "try_except%s (\n%s)\n(fun %s =>\n%s)" % (on, b_text, xv, h_text)
    else:
        mid = sorted(assigned(fn, s.body) & (names_used(s.orelse) | live_rest))
        mbox = []
        b_text = tr_block(fn, s.body, env, next_of(mid, mbox, s), names_used(s.orelse) | live_rest)
        mtypes = out_types(mid, mbox, s)
        if mtypes is None:
            _bad("try ... else whose try-suite never falls through", s)
        e2, names = env, []
        for v, t in zip(mid, mtypes):
            nv = fn.fresh(v)
            e2 = rebind(e2, v, nv, t)
            names.append(nv)
        pat = "_" if not names else names[0] if len(names) == 1 else "'(%s)" % ", ".join(names)
        e_text = tr_block(fn, s.orelse, e2, kk, live_rest)
        text = "try_else%s (\n%s)\n(fun %s =>\n%s)\n(fun %s =>\n%s)" % (on, b_text, xv, h_text, pat, e_text)
    return bind_outs(fn, text, outs, out_types(outs, box, s), env, cont)


def tr_for(fn, s, env, cont, live_rest):
    if s.orelse:
        _bad("for ... else", s)
    # [srclabels] `for a, b in <list of pairs>` (element Ty of kind "pair" with attributes fst, snd): see tr_for_pair;
    # any other tuple target is [srcloop]'s (below)
    if isinstance(s.target, ast.Tuple):
        _lg0, _lt0 = pure(fn, s.iter, env)
        if _lt0.kind == "list" and getattr(getattr(_lt0, "arg", None), "kind", None) == "pair" and hasattr(_lt0.arg, "fst"):
            return tr_for_pair(fn, s, env, cont, live_rest)
    lg, lt = pure(fn, s.iter, env)
    if lt.kind != "list":
        _bad("loop over %r" % lt, s)
    if isinstance(s.target, ast.Tuple):                  # [srcloop] for a, b in <list of pairs>
        if not all(isinstance(e, ast.Name) for e in s.target.elts) or len({e.id for e in s.target.elts}) != len(s.target.elts):
            _bad("loop target that is not a tuple of distinct local variables", s)
        if lt.arg.kind != "pair" or len(lt.arg.arg) != len(s.target.elts):
            _bad("a tuple loop target over %r" % lt, s)
        xs, xts = [e.id for e in s.target.elts], list(lt.arg.arg)
    elif isinstance(s.target, ast.Name):
        xs, xts = [s.target.id], [lt.arg]
    else:
        _bad("loop target that is not a local variable", s)
    if set(xs) & (live_rest - names_used(s.body)):
        _bad("the loop variable is read after the loop", s)
    asg = assigned(fn, s.body) - set(xs)
    # [srcloop] (a variable first bound inside the loop is not in scope after it: reading it there fails with "unknown
    # name"; the explicit test that used to be here also fired for a loop nested in another loop's body, whose own
    # names are live for the outer loop's next iteration)
    state = sorted(v for v in asg if v in env)
    benv, svs, xvs = env, [], []
    for x, xt in zip(xs, xts):
        xv = fn.fresh(x)
        benv = rebind(benv, x, xv, xt)
        xvs.append(xv)
    for v in state:
        sv = fn.fresh(v)
        benv = rebind(benv, v, sv, env[v][1])
        svs.append(sv)
    box = []
    benv = {p: b for p, b in benv.items() if p != "__loop"}       # [srcloop] an outer loop's continue does not reach in here
    uses_continue = bool(own_continues(s.body))
    if uses_continue:
        benv["__loop"] = (tuple(state), box)
        benv["__noreturn"] = (None, None)
    # [srcloop] what the next iteration can read of this one: only names in scope at the loop's entry (anything else is
    # unknown at the start of the body); was names_used(s.body), which made locals of a nested loop / an if-arm "live"
    b_text = tr_block(fn, s.body, benv, next_of(state, box, s), (names_used(s.body) & set(env)) | live_rest)
    init = [env[v][1] for v in state]
    out_types(state, box, s, want=init)
    pat = "_" if not svs else svs[0] if len(svs) == 1 else "'(%s)" % ", ".join(svs)
    xpat = xvs[0] if len(xvs) == 1 else "'(%s)" % ", ".join(xvs)
    text = "%s %s (fun %s %s =>\n%s)\n%s" % ("for_c" if uses_continue else "for_", lg, xpat, pat, b_text,
                                             tup([env[v][0] for v in state]))
    return bind_outs(fn, text, state, init, env, cont)


def own_continues(stmts):
    """[srcloop] the `continue` statements that belong to the loop whose body is stmts"""
    out = []

    def walk(n):
        if isinstance(n, ast.Continue):
            out.append(n)
        elif not isinstance(n, (ast.For, ast.AsyncFor, ast.While)):
            for c in ast.iter_child_nodes(n):
                walk(c)
    for st in stmts:
        walk(st)
    return out


def tr_for_pair(fn, s, env, cont, live_rest):
    """[srclabels] for a, b in <list of pairs>: B   ->   state <~ for_ l (fun '(a, b) state => B; next state) state0
    (tr_for with a two-name tuple target; the element type is a Ty of kind "pair" carrying .fst / .snd)"""
    tg = s.target
    if len(tg.elts) != 2 or not all(isinstance(e, ast.Name) for e in tg.elts) or tg.elts[0].id == tg.elts[1].id:
        _bad("loop target that is not a pair of two local variables", s)
    lg, lt = pure(fn, s.iter, env)
    if lt.kind != "list" or lt.arg.kind != "pair":
        _bad("loop with a pair target over %r" % lt, s)
    xs = [e.id for e in tg.elts]
    for x in xs:
        if x in live_rest - names_used(s.body):
            _bad("the loop variable is read after the loop", s)
    asg = assigned(fn, s.body) - set(xs)
    for v in sorted(asg):
        if v not in env and v in live_rest:
            _bad("variable %s is first bound inside the loop and read after it" % v, s)
    state = sorted(v for v in asg if v in env)
    if set(xs) & assigned(fn, s.body):
        _bad("a loop variable is re-bound inside the loop", s)
    xvs = [fn.fresh(x) for x in xs]
    benv, svs = rebind(rebind(env, xs[0], xvs[0], lt.arg.fst), xs[1], xvs[1], lt.arg.snd), []
    for v in state:
        sv = fn.fresh(v)
        benv = rebind(benv, v, sv, env[v][1])
        svs.append(sv)
    box = []
    # live at the end of the body: what follows the loop, and what the next iteration may read - only names bound before
    # the loop can be carried over (a name first bound inside the body is unknown at the start of the next iteration:
    # reading it there is a translation error), so a local of the body is not live at its end
    carried = {v for v in names_used(s.body) if v in env}
    b_text = tr_block(fn, s.body, benv, next_of(state, box, s), carried | live_rest)
    init = [env[v][1] for v in state]
    out_types(state, box, s, want=init)
    pat = "_" if not svs else svs[0] if len(svs) == 1 else "'(%s)" % ", ".join(svs)
    text = "for_ %s (fun '(%s, %s) %s =>\n%s)\n%s" % (lg, xvs[0], xvs[1], pat, b_text, tup([env[v][0] for v in state]))
    return bind_outs(fn, text, state, init, env, cont)


def indent(text):
    """cosmetic: indent by nesting of parentheses / match / if at line starts"""
    out, depth = [], 0
    for line in text.split("\n"):
        st = line.strip()
        close = 0
        while close < len(st) and st[close] == ")":
            close += 1
        d = depth - close - (1 if st.startswith(("end", "else", "| ")) else 0)
        out.append("  " * max(d, 0) + st)
        depth += st.count("(") - st.count(")")
        if st.startswith("match ") and st.endswith(" with"):
            depth += 1
        if st == "end" or st.startswith("end)") or st.startswith("end "):
            depth -= 1
    return "\n".join(out)


def translate(repo, spec):
    """-> (gallina text, info dict).  Raises Unsupported.  Same contract as pygal.translate."""
    src = open(os.path.join(repo, spec["file"])).read()
    tree = ast.parse(src)
    defs = {}
    for c in tree.body:
        if isinstance(c, (ast.FunctionDef, ast.AsyncFunctionDef)):
            defs[c.name] = c
        if isinstance(c, ast.ClassDef):
            for n in c.body:
                if isinstance(n, (ast.FunctionDef, ast.AsyncFunctionDef)):
                    defs[c.name + "." + n.name] = n
    unit = pygal.Unit()
    unit.ext = spec["ext"]
    pygal._CUR["ext"] = unit.ext
    out, info = [], dict(file=spec["file"], sha256=hashlib.sha256(src.encode()).hexdigest(), functions={})
    for fs in spec["functions"]:
        nd = defs.get(fs["name"])
        if nd is None:
            raise Unsupported("function %s not found in %s" % (fs["name"], spec["file"]))
        # [srcgate] spec keys "sync" (a plain `def`), "decorators" (the exact decorator expressions the unit reads as a
        # precondition on the parameters), "fix" (the parameter the self-recursive function is structurally recursive on)
        if fs.get("sync"):
            if not isinstance(nd, ast.FunctionDef):
                _bad("%s is not a plain def" % fs["name"], nd)
        elif not isinstance(nd, ast.AsyncFunctionDef):
            _bad("%s is not an async def" % fs["name"], nd)
        if [ast.unparse(d) for d in nd.decorator_list] != list(fs.get("decorators", [])):
            _bad("decorated function" if not fs.get("decorators") else "decorators of %s are %r" % (
                nd.name, [ast.unparse(d) for d in nd.decorator_list]), nd)
        a = nd.args
        if a.kwonlyargs or a.posonlyargs or a.kw_defaults:
            _bad("parameter list of %s" % nd.name, nd)
        star = []
        for what, have in (("vararg", a.vararg), ("kwarg", a.kwarg)):
            want_star = fs.get(what)
            if (have.arg if have else None) != (want_star[0] if want_star else None):
                _bad("%s of %s is %r" % (what, nd.name, have.arg if have else None), nd)
            if want_star:
                star.append(tuple(want_star))
        if [x.arg for x in a.args] != [p for p, _ in fs["params"]]:
            _bad("parameters of %s are %r" % (nd.name, [x.arg for x in a.args]), nd)
        want = fs.get("defaults", [])
        if [ast.unparse(d) for d in a.defaults] != want:
            _bad("parameter defaults of %s are %r" % (nd.name, [ast.unparse(d) for d in a.defaults]), nd)
        for n in ast.walk(nd):
            if n is not nd and isinstance(n, (ast.FunctionDef, ast.AsyncFunctionDef, ast.Lambda, ast.ClassDef, ast.Global,
                                              ast.Nonlocal, ast.Yield, ast.YieldFrom, ast.NamedExpr)):
                _bad("%s inside the function" % type(n).__name__, n)
        params = list(fs["params"]) + star
        rt = fs.get("ret")
        stmts, extra = nd.body, []
        if fs.get("body_of"):                            # [srcloop] translate a part of the function (see the docstring)
            stmts, extra = fs["body_of"](nd)
        params += list(extra)
        inferred = dict(fs.get("locals") or {})      # [srcrun] declared + inferred Optional locals (see _Retype)
        for _round in range(32):
            fn = pygal.Fn(unit, dict(fs, locals=inferred))
            env = dict(spec.get("globals", {}))
            for p, t in params:
                env[p] = (p, t)
            try:
                if rt is None:
                    body = tr_block(fn, stmts, env, lambda e: "next tt", set())
                else:   # every path must end in `return e` / `raise`: the type of the fall-through end is empty
                    def off_end(e, nd=nd):
                        raise _OffEnd("%s may fall off its end (it has a declared result) (line %d)" % (nd.name, nd.lineno))
                    body = tr_block(fn, stmts, env, off_end, set())
                break
            except _Retype as r:
                if any(inferred.get(v) == t for v, t in r.types.items()):
                    _bad("internal: type inference of locals %r does not converge" % sorted(r.types), nd)
                inferred.update(r.types)
        else:
            _bad("internal: type inference of locals does not converge", nd)
        ps = " ".join(([fs["gparams"]] if fs.get("gparams") else []) + ["(%s : %s)" % (p, gty(t)) for p, t in params])
        gname = fs.get("gname", nd.name)
        kw, struct = ("Fixpoint", " {struct %s}" % fs["fix"]) if fs.get("fix") else ("Definition", "")     # [srcgate]
        out.append("(* %s, lines %d-%d *)\n%s %s %s%s : %s %s :=\n%s (\n%s)." % (
            spec["file"], nd.lineno, nd.end_lineno, kw, gname, ps, struct, spec.get("monad", "M"),
            paren(gty(rt)) if rt else "unit", "run_fn_ret" if rt else "run_fn", indent(body)))
        info["functions"][nd.name] = dict(lines=[nd.lineno, nd.end_lineno], backend="monadic")
    head = "(* GENERATED on every run by harness/pygal_m.py from %s (sha256 %s) - do not edit *)\n" % (
        spec["file"], info["sha256"][:16])
    head += "From Coq Require Import ZArith Bool List.\nImport ListNotations.\nFrom TQ Require Import %s.\n" % (
        " ".join(spec["imports"]))
    if spec.get("scope"):                                # [srcloop]
        head += spec["scope"] + "\n"
    return head + "\n" + "\n\n".join(out) + "\n", info
