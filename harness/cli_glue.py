"""The glue between the worker's command line and the Receiver it runs, exercised for real.

receiver_kwargs_via_cli(argv_opts, broker) runs the real `WorkerArgs.from_cli(argv)` and the real
`taskiq.cli.worker.run.start_listen(args)`; only the things start_listen reaches *outside* itself are replaced for
the duration of the call (from the driver process, no edit of /repo):

  import_object   -> returns `broker` for the broker path and a capturing Receiver subclass for --receiver
  import_tasks    -> no-op (the driver registers its tasks itself)
  signal          -> a stand-in whose signal() only records the handler (a driver process must not lose its own)
  asyncio         -> a stand-in whose set_event_loop() is a no-op (the driver installs its virtual-time loop later)
  uvloop          -> None

The capturing Receiver subclass records the keyword arguments start_listen passes to `receiver_type(...)` and its
listen() returns at once.  The driver then builds the real Receiver from exactly those keyword arguments (minus the
executor, whose pool start_listen has already closed).  So a scenario that is run "via the CLI" exercises
argparse option handling -> WorkerArgs -> start_listen's mapping -> Receiver.__init__, which is where a
configuration value (acknowledge type, concurrency limit, prefetch, max tasks, wait timeout, validation and
propagation switches) can be lost or distorted before the modelled core ever sees it."""
import asyncio as real_asyncio
import signal as real_signal
import types

import taskiq.cli.worker.run as wrun
from taskiq.cli.worker.args import WorkerArgs
from taskiq.receiver import Receiver

from cli_args import BROKER_PATH, RECEIVER_PATH, cli_argv  # noqa: F401


class _Capture(Receiver):
    captured = None

    def __init__(self, **kw):          # noqa: super().__init__ deliberately not called
        type(self).captured = kw

    async def listen(self, finish_event):
        return None


class _Signal(types.ModuleType):
    def __init__(self):
        super().__init__("signal")
        self.handlers = {}

    def __getattr__(self, n):
        return getattr(real_signal, n)

    def signal(self, num, h):
        self.handlers[num] = h


class _Asyncio(types.ModuleType):
    def __getattr__(self, n):
        return getattr(real_asyncio, n)

    def set_event_loop(self, loop):
        self.loop = loop


class _Surroundings:
    """What start_listen reaches outside itself, replaced for the duration of one call - by IDENTITY, wherever a module of
    taskiq.cli bound it (the function under any name, its module under any alias), never by assigning to a name of
    taskiq.cli.worker.run: import_object / import_tasks of taskiq.cli.utils, the `signal` module, optionally `asyncio`."""

    def __init__(self, import_object, sig, aio=None):
        self.io, self.sig, self.aio = import_object, sig, aio

    def __enter__(self):
        import patchall
        import taskiq.cli.utils as cu
        self.real = (cu.import_object, cu.import_tasks)
        patchall.patch_attr(cu, "import_object", self.io, prefix="taskiq.cli")
        patchall.patch_attr(cu, "import_tasks", lambda *a, **k: None, prefix="taskiq.cli")
        patchall.replace_everywhere(real_signal, self.sig, prefix="taskiq.cli.worker")
        patchall.replace_everywhere(real_signal.signal, self.sig.signal, prefix="taskiq.cli.worker")
        if self.aio is not None:
            patchall.replace_everywhere(real_asyncio, self.aio, prefix="taskiq.cli.worker")
        if getattr(wrun, "uvloop", None) is not None:
            self.uvloop, wrun.uvloop = wrun.uvloop, None
        return self

    def __exit__(self, *exc):
        import patchall
        import taskiq.cli.utils as cu
        patchall.patch_attr(cu, "import_object", self.real[0], prefix="taskiq.cli")
        patchall.patch_attr(cu, "import_tasks", self.real[1], prefix="taskiq.cli")
        patchall.replace_everywhere(real_signal, real_signal, prefix="taskiq.cli.worker")
        patchall.replace_everywhere(real_signal.signal, real_signal.signal, prefix="taskiq.cli.worker")
        if self.aio is not None:
            patchall.replace_everywhere(real_asyncio, real_asyncio, prefix="taskiq.cli.worker")
        if hasattr(self, "uvloop"):
            wrun.uvloop = self.uvloop
        return False



def receiver_kwargs_via_cli(argv, broker):
    import taskiq.cli.utils as _cu
    real_import = _cu.import_object

    def import_object(path):
        if path == BROKER_PATH:
            return broker
        if path == RECEIVER_PATH:
            return _Capture
        return real_import(path)

    _Capture.captured = None
    aio = _Asyncio("asyncio")
    try:
        with _Surroundings(import_object, _Signal(), aio):
            args = WorkerArgs.from_cli(argv)
            args.configure_logging = False
            wrun.start_listen(args)
    finally:
        lp = getattr(aio, "loop", None)
        if lp is not None and not lp.is_closed():
            lp.close()
    kw = dict(_Capture.captured or {})
    if not kw:
        raise RuntimeError("start_listen did not construct the receiver")
    kw.pop("executor", None)
    kw.pop("broker", None)
    return kw


class _CaptureOnce(Receiver):
    """for run_receiver_task: records the keyword arguments and ends the caller's `while True` loop"""
    captured = None

    def __init__(self, **kw):          # noqa: super().__init__ deliberately not called
        type(self).captured = kw

    async def listen(self, finish_event):
        raise real_asyncio.CancelledError


def receiver_kwargs_via_api(api_kwargs, broker):
    """The programmatic path: the real `taskiq.api.run_receiver_task(broker, receiver_cls=<capture>, **api_kwargs)`
    builds its Receiver; the keyword arguments it passes are returned (minus broker / executor / on_exit, which
    belong to that call).  api_kwargs uses run_receiver_task's own parameter names (ack_time, max_async_tasks, ...)."""
    from taskiq.api.receiver import run_receiver_task

    _CaptureOnce.captured = None
    loop = real_asyncio.new_event_loop()
    try:
        try:
            loop.run_until_complete(run_receiver_task(broker, receiver_cls=_CaptureOnce, **api_kwargs))
        except real_asyncio.CancelledError:
            pass
    finally:
        loop.close()
    kw = dict(_CaptureOnce.captured or {})
    if not kw:
        raise RuntimeError("run_receiver_task did not construct the receiver")
    for k in ("executor", "broker", "on_exit", "run_startup"):
        kw.pop(k, None)
    return kw


# --------------------------------------------------------------------------- run_receiver_task running for real
class QueueLost(Exception):
    """a broker client's own error class for a lost connection"""


LISTEN_FAULTS = {"connection": ConnectionError, "runtime": RuntimeError, "timeout": TimeoutError, "os": OSError,
                 "eof": EOFError, "custom": QueueLost}


class FlakyFeed:
    """What a scripted broker's listen() serves while the real `taskiq.api.run_receiver_task` coroutine runs on the
    driver's loop: the items the driver put(), in order.  `drops[j] = [k, name]` makes the j-th call of listen() (the
    j-th receiver run_receiver_task builds) raise LISTEN_FAULTS[name] when it is asked for its (k+1)-th item - a
    dropped connection; later calls of listen() go on with the items that were not served yet.  The fault is raised
    only once every item served so far has been taken up by a receiver (`take(obj)`, called on entry of
    Receiver.callback, gives the key of the item that object was served for): a message that sits in the failed
    receiver's prefetch queue would never be executed, and the scripted connection does not drop at such a moment.
    Bookkeeping only: `listens` (calls of listen()), `faults` ([call number, exception name]), `served` (item key ->
    call number)."""

    def __init__(self, drops):
        self.drops = [list(d) for d in drops or []]
        self.queue = None
        self.listens = 0
        self.faults = []
        self.served = {}
        self.handed = {}        # id(served object) -> keys it was served for and that no receiver has taken up yet
        self.keep = []

    def put(self, key, obj):
        if self.queue is None:
            self.queue = real_asyncio.Queue()
        self.queue.put_nowait((key, obj))

    def take(self, obj):
        keys = self.handed.get(id(obj))
        if not keys:
            raise RuntimeError("harness: Receiver.callback was given an object listen() did not serve: %r" % (obj,))
        key = keys.pop(0)
        if not keys:
            del self.handed[id(obj)]
        return key

    async def listen(self):
        if self.queue is None:
            self.queue = real_asyncio.Queue()
        inc = self.listens
        self.listens += 1
        drop = self.drops[inc] if inc < len(self.drops) else None
        n = 0
        while True:
            if drop is not None and n >= drop[0]:
                while self.handed:
                    await real_asyncio.sleep(0.001)
                self.faults.append([inc, drop[1]])
                raise LISTEN_FAULTS[drop[1]]("connection to the queue was lost")
            key, obj = await self.queue.get()
            self.served[key] = inc
            self.handed.setdefault(id(obj), []).append(key)
            self.keep.append(obj)
            n += 1
            yield obj


# --------------------------------------------------------------------------- more shapes of a failing listen()
class FalsyLost(Exception):
    """a client library's error object that is falsy and compares equal to anything (seen in the wild: errors carrying a
    result-like interface); still an ordinary Exception"""

    def __bool__(self):
        return False

    def __eq__(self, other):
        return True

    def __hash__(self):
        return 0


def listen_fault(name):
    """the exception object a scripted listen() raises for the fault called `name`: the classes of LISTEN_FAULTS, and
    falsy = FalsyLost | group = an ExceptionGroup of two connection errors (what a client built on task groups raises) |
    broker = taskiq's own BrokerError (no positional arguments: its message is a template)"""
    if name in LISTEN_FAULTS:
        return LISTEN_FAULTS[name]("connection to the queue was lost")
    if name == "falsy":
        return FalsyLost("connection to the queue was lost")
    if name == "group":
        return ExceptionGroup("connection to the queue was lost", [ConnectionError("reset"), TimeoutError("ping")])
    if name == "broker":
        from taskiq.exceptions import BrokerError
        return BrokerError()
    raise AssertionError("scenario: unknown listen fault %r" % (name,))


# --------------------------------------------------------------------------- start_listen running the worker for real
class _LoopPolicy(real_asyncio.DefaultEventLoopPolicy):
    """the place where an application chooses its event-loop implementation: asyncio.new_event_loop() hands out what
    `factory()` builds (the harness' virtual-time loop).  Everything else is the default policy."""

    def __init__(self, factory):
        super().__init__()
        self._factory = factory
        self.created = []

    def new_event_loop(self):
        loop = self._factory()
        self.created.append(loop)
        return loop


def run_start_listen(argv, get_broker, get_receiver, new_loop, ctl, broker_as="object"):
    """The real `taskiq.cli.worker.run.start_listen(WorkerArgs.from_cli(argv))` runs a worker from beginning to end, the way
    every worker child process does: it installs its signal handlers, CREATES ITS EVENT LOOP with the real
    asyncio.new_event_loop() (an event-loop policy installed for the duration of the call makes that `new_loop()` - the
    virtual-time loop), configures that loop, makes it the current one, imports the broker and the receiver type, builds the
    pool and the receiver and runs `receiver.listen(shutdown_event)` and then the broker shutdown with its own
    run_until_complete calls - on the loop object it made, with whatever loop-level settings it chose (task factory,
    exception handler, debug flag, default executor).  Nothing is re-built by the driver.
    Replaced for the duration of the call (things start_listen reaches outside itself):
      import_object -> `get_broker(loop)` for the broker path (called when start_listen imports the broker: the loop exists and
                       is current; with broker_as = "factory" a plain function returning the broker is handed out instead,
                       which start_listen calls), `get_receiver()` for --receiver;
      import_tasks  -> no-op;   uvloop -> None;
      signal        -> a stand-in whose signal() records the handler: `ctl["signal"].handlers[signum]` is the real
                       interrupt_handler closure of this start_listen call (the driver calls it to request a stop).
    ctl (a dict the caller owns) gets "signal", "policy", "args"; the loop is ctl["policy"].created[0].  The caller closes
    the loop (vloop.finish)."""
    import taskiq.cli.utils as _cu
    real_import = _cu.import_object
    old_policy = real_asyncio.get_event_loop_policy()
    policy = _LoopPolicy(new_loop)
    ctl["policy"] = policy

    def import_object(path):
        if path == BROKER_PATH:
            loop = policy.created[-1] if policy.created else None
            if broker_as == "factory":
                def broker_factory():
                    return get_broker(loop)
                return broker_factory
            return get_broker(loop)
        if path == RECEIVER_PATH:
            return get_receiver()
        return real_import(path)

    ctl["signal"] = _Signal()
    try:
        with _Surroundings(import_object, ctl["signal"]):
            real_asyncio.set_event_loop_policy(policy)
            args = WorkerArgs.from_cli(argv)
            args.configure_logging = False
            ctl["args"] = args
            wrun.start_listen(args)
    finally:
        real_asyncio.set_event_loop_policy(old_policy)
