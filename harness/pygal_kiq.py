"""pygal unit "kiq": AsyncKicker.kiq of taskiq/kicker.py (the send side of the pipeline; C10), translated by the monadic
backend (pygal_m.py) into the statement monad of coq/theories/PyPreludePipeline.v; the function returns a value (the
task handle), so its Gallina type is `M nat` and every path ends in `return_v` or raises.

The kicker `self` is read as the send-side configuration `kcfg` of coq/theories/PyPreludeKiq.v; self.broker, its
formatter and its result backend are the same object seen through other attribute paths.  `*args` / `**kwargs` are
opaque: only `self._prepare_message(*args, **kwargs)` - a primitive, NOT translated - looks at them.  Every table entry
below has its Gallina meaning in PyPreludeKiq.v."""
import ast

import pygal_m
from pygal import NONE, Ext, Ty, _bad, path_of, tr_expr
from pygal_callback import _args, _hook_call

SELF = Ty("kicker", g="kcfg")
BROKER = Ty("kbroker", g="kcfg")
FORMATTER = Ty("kformatter", g="kcfg")
ARGS = Ty("args", g="call_args")
KWARGS = Ty("kwargs", g="call_kwargs")
MSG = Ty("msg", g="msg")                     # TaskiqMessage
BMSG = Ty("bmsg", g="broker_message")        # BrokerMessage (the dump)
TASKID = Ty("taskid", g="nat")
RBACKEND = Ty("rbackend", g="unit")
RTYPE = Ty("rtype", g="unit")
HANDLE = Ty("handle", g="nat")               # AsyncTaskiqTask, identified by its task id
MW = Ty("mw", g="(nat * mw)")
MWCLASS = Ty("mwclass", g="(nat * mw)")
EXC = Ty("exc", g="xkind")
HOOKS = {"pre_send": "class_pre_send", "post_send": "class_post_send"}
IMPL = {h: Ty("impl_" + h, g="_") for h in HOOKS}           # middleware.__class__.<hook>
BASE = {h: Ty("base_" + h, g="base_hook") for h in HOOKS}   # TaskiqMiddleware.<hook>

ATTRS = {("kicker", "broker"): ("%s", BROKER), ("kicker", "return_type"): ("(kreturn_type %s)", RTYPE),
         ("kbroker", "formatter"): ("%s", FORMATTER), ("kbroker", "result_backend"): ("(kresult_backend %s)", RBACKEND),
         ("kbroker", "middlewares"): ("(kmiddlewares %s)", pygal_m.List(MW)),
         ("msg", "task_id"): ("(task_id %s)", TASKID), ("mw", "__class__"): ("%s", MWCLASS)}
COMPARE, GLOBALS = {}, {}
for _h, _f in HOOKS.items():
    ATTRS[("mwclass", _h)] = ("(%s %%s)" % _f, IMPL[_h])
    COMPARE[("NotEq", "impl_" + _h, "base_" + _h)] = "(differs_from_base %s %s)"
    GLOBALS["TaskiqMiddleware." + _h] = ("TaskiqMiddleware_hook", BASE[_h])


def task_handle(fn, node, env):
    a = _args(fn, node, env, [], [("task_id", TASKID), ("result_backend", RBACKEND), ("return_type", RTYPE)])
    return "(AsyncTaskiqTask %s)" % " ".join(a), HANDLE


def _is_star_call(c, fn, env):
    """f(*a, **k) with a : ARGS and k : KWARGS locals -> their Gallina texts"""
    if len(c.args) != 1 or not isinstance(c.args[0], ast.Starred) or len(c.keywords) != 1 or c.keywords[0].arg is not None:
        _bad("arguments of %s (only `*args, **kwargs` is read)" % ast.unparse(c.func), c)
    (ga, ta), (gk, tk) = tr_expr(fn, c.args[0].value, env), tr_expr(fn, c.keywords[0].value, env)
    if ta != ARGS or tk != KWARGS:
        _bad("arguments of %s have types %r, %r" % (ast.unparse(c.func), ta, tk), c)
    return ga, gk


def prim(fn, node, env):
    c = _hook_call(node)
    if c is not None:
        g0, t0 = tr_expr(fn, c.func.value, env)
        m = c.func.attr
        if t0 == MW and m == "pre_send":
            return "(call_pre_send %s %s)" % (g0, _args(fn, c, env, [MSG])[0]), MSG, None
        if t0 == MW and m == "post_send":
            return "(call_post_send %s %s)" % (g0, _args(fn, c, env, [MSG])[0]), NONE, None
        _bad("await maybe_awaitable(%s)" % ast.unparse(c)[:60], node)
    if isinstance(node, ast.Await):
        c = node.value
        if isinstance(c, ast.Call) and isinstance(c.func, ast.Attribute):
            g0, t0 = tr_expr(fn, c.func.value, env)
            if t0 == BROKER and c.func.attr == "kick":
                if len(c.args) != 1 or c.keywords or isinstance(c.args[0], ast.Starred):
                    _bad("arguments of kick", c)
                inner = prim(fn, c.args[0], env)
                if inner is not None:       # kick(formatter.dumps(message)): the argument is evaluated first
                    gi, ti, mut = inner
                    if ti != BMSG or mut is not None:
                        _bad("argument of kick has type %r" % ti, c)
                    d = fn.fresh("dump")
                    return "(bind %s (fun %s => broker_kick %s %s))" % (gi, d, g0, d), NONE, None
                return "(broker_kick %s %s)" % (g0, _args(fn, c, env, [BMSG])[0]), NONE, None
        _bad("await of %s" % ast.unparse(c)[:60], node)
    if isinstance(node, ast.Call) and isinstance(node.func, ast.Attribute) and path_of(node.func.value) is not None \
            and node.func.attr in ("dumps", "_prepare_message"):
        g0, t0 = tr_expr(fn, node.func.value, env)
        m = node.func.attr
        if t0 == FORMATTER and m == "dumps":
            return "(formatter_dumps %s %s)" % (g0, _args(fn, node, env, [MSG])[0]), BMSG, None
        if t0 == SELF and m == "_prepare_message":
            return "(prepare_message %s %s %s)" % ((g0,) + _is_star_call(node, fn, env)), MSG, None
        _bad("call of .%s on %r" % (m, t0), node)
    return None


def exc_new(fn, node, env):
    """raise SendTaskError / raise SendTaskError()"""
    if isinstance(node, ast.Call) and not node.args and not node.keywords:
        node = node.func
    if path_of(node) == "SendTaskError":
        return "SendTaskError"
    return None


EXT = Ext(calls={"AsyncTaskiqTask": task_handle}, attrs=ATTRS, compare=COMPARE,
          truthy={"msg": "true"}, prim=prim, mutates=lambda s: set(), exc_new=exc_new, exc_type=EXC)

SPEC = dict(
    file="taskiq/kicker.py", module="Gen_kiq", translate=pygal_m.translate,
    proofs={"C10": "Src_kiq_C10"},
    imports=["Base", "Pipeline", "PyPreludePipeline", "PyPreludeKiq"], ext=EXT, globals=GLOBALS,
    functions=[dict(name="AsyncKicker.kiq", gname="kiq_py", params=[("self", SELF)],
                    vararg=("args", ARGS), kwarg=("kwargs", KWARGS), ret=HANDLE)])
