"""pygal primitives for taskiq/middlewares/retry_middleware.py (SimpleRetryMiddleware.on_error, property C11)."""
import ast

from pygal import BOOL, INT, STR, Ext, Opt, Rec, Ty, _bad, narrow, path_of, tr_expr

LVAL = Ty("lval", g="lval")
LABELS = Ty("labels", g="dict lval")
PSTR = Ty("pstr", g="pstr")
KICKER = Ty("kicker", g="rkicker")
OPAQ = Ty("opaque", g="N")
EXC = Ty("exc", g="bool")            # the exception, as far as on_error looks at it: is it a NoResultError?
RESULT = Ty("result", g="unit")
MSG = Rec("rmsg", {"labels": ("rm_labels", LABELS), "task_name": ("rm_name", OPAQ), "task_id": ("rm_tid", OPAQ),
                   "args": ("rm_args", OPAQ), "kwargs": ("rm_kwargs", OPAQ)})
SELF = Rec("rself", {"default_retry_count": ("rs_count", INT), "default_retry_label": ("rs_label", BOOL),
                     "no_result_on_retry": ("rs_nror", BOOL), "broker": ("rs_broker", OPAQ)})
KEYS = {"_retries": "K_RETRIES", "max_retries": "K_MAXR", "retry_on_error": "K_ROE"}


def _key(node):
    if isinstance(node, ast.Constant) and isinstance(node.value, str) and node.value in KEYS:
        return KEYS[node.value]
    _bad("label key %s" % ast.unparse(node), node)


def labels_get(fn, node, g, t, env):
    if node.keywords or not 1 <= len(node.args) <= 2:
        _bad("labels.get arguments", node)
    k = _key(node.args[0])
    if len(node.args) == 1:
        return "(dget %s %s)" % (k, g), Opt(LVAL)
    d, td = tr_expr(fn, node.args[1], env)
    if td == INT:
        d = "(LInt %s)" % d
    elif td != LVAL:
        _bad("labels.get default of type %r" % td, node)
    return "(labels_get_default %s %s %s)" % (k, d, g), LVAL


def py_int(fn, node, env):
    if len(node.args) != 1 or node.keywords:
        _bad("int() arguments", node)
    g, t = tr_expr(fn, node.args[0], env)
    if t != LVAL:
        _bad("int(%r)" % t, node)
    return fn.partial("(py_int %s)" % g, "int"), INT


def lower(fn, node, g, t, env):
    if node.args or node.keywords:
        _bad("lower() arguments", node)
    return "(map lower %s)" % g, PSTR


def new_kicker(fn, node, env):
    if node.args or sorted(k.arg or "" for k in node.keywords) != ["broker", "labels", "task_name"]:
        _bad("AsyncKicker(...) arguments", node)
    kw = {k.arg: tr_expr(fn, k.value, env) for k in node.keywords}
    if kw["task_name"][1] != OPAQ or kw["broker"][1] != OPAQ or kw["labels"][1] != LABELS:
        _bad("AsyncKicker(...) argument types", node)
    return "(new_kicker %s %s %s)" % (kw["task_name"][0], kw["broker"][0], kw["labels"][0]), KICKER


def with_task_id(fn, node, g, t, env):
    if len(node.args) != 1 or node.keywords:
        _bad("with_task_id arguments", node)
    a, ta = tr_expr(fn, node.args[0], env)
    if ta != OPAQ:
        _bad("with_task_id(%r)" % ta, node)
    return "(kicker_with_task_id %s %s)" % (g, a), KICKER


def isinst(fn, p, g, t, cls, env, kt, kf):
    if t == EXC and cls == "NoResultError":
        return "(if %s then\n%s\nelse\n%s)" % (g, kt(env), kf(env))
    if cls == "str" and t.kind == "opt" and t.arg == LVAL:
        v = fn.fresh(p)
        return "match %s with\n| Some (LStr %s) =>\n%s\n| _ =>\n%s\nend" % (g, v, kt(narrow(env, p, v, PSTR)), kf(env))
    if cls == "str" and t == LVAL:
        v = fn.fresh(p)
        return "match %s with\n| LStr %s =>\n%s\n| _ =>\n%s\nend" % (g, v, kt(narrow(env, p, v, PSTR)), kf(env))
    if cls == "str" and t in (BOOL, INT):
        return kf(env)
    return None


def add_eff(fn, env, e):
    v = fn.fresh("eff")
    e2 = dict(env)
    e2["__eff"] = (v, env["__eff"][1])
    return "let %s := (%s ++ [%s]) in\n" % (v, env["__eff"][0], e), e2


def stmt(fn, s, env):
    # kicker.with_labels(_retries=<int>)   (statement: the kicker object is updated)
    if isinstance(s, ast.Expr) and isinstance(s.value, ast.Call) and isinstance(s.value.func, ast.Attribute) \
            and s.value.func.attr == "with_labels" and isinstance(s.value.func.value, ast.Name):
        name = s.value.func.value.id
        g, t = tr_expr(fn, s.value.func.value, env)
        c = s.value
        if t != KICKER or c.args or len(c.keywords) != 1 or c.keywords[0].arg not in KEYS:
            _bad("with_labels(...)", s)
        val, tv = tr_expr(fn, c.keywords[0].value, env)
        if tv != INT:
            _bad("with_labels value of type %r" % tv, s)
        v = fn.fresh(name)
        e2 = dict(env)
        e2[name] = (v, KICKER)
        return "let %s := (kicker_with_label %s %s (LInt %s)) in\n" % (v, g, KEYS[c.keywords[0].arg], val), e2
    # await kicker.kiq(*message.args, **message.kwargs)
    if isinstance(s, ast.Expr) and isinstance(s.value, ast.Await) and isinstance(s.value.value, ast.Call):
        c = s.value.value
        if isinstance(c.func, ast.Attribute) and c.func.attr == "kiq":
            g, t = tr_expr(fn, c.func.value, env)
            ok = t == KICKER and len(c.args) == 1 and isinstance(c.args[0], ast.Starred) and len(c.keywords) == 1 \
                and c.keywords[0].arg is None
            if not ok:
                _bad("kiq(...) call shape", s)
            (a, ta), (k, tk) = tr_expr(fn, c.args[0].value, env), tr_expr(fn, c.keywords[0].value, env)
            if ta != OPAQ or tk != OPAQ or path_of(c.args[0].value) != "message.args" \
                    or path_of(c.keywords[0].value) != "message.kwargs":
                _bad("kiq(...) arguments", s)
            return add_eff(fn, env, "EKiq %s %s %s" % (g, a, k))
        _bad("await of %s" % ast.unparse(c.func), s)
    # result.error = NoResultError()
    if isinstance(s, ast.Assign) and len(s.targets) == 1 and isinstance(s.targets[0], ast.Attribute):
        tgt = s.targets[0]
        g, t = tr_expr(fn, tgt.value, env)
        if t == RESULT and tgt.attr == "error" and isinstance(s.value, ast.Call) \
                and path_of(s.value.func) == "NoResultError" and not s.value.args and not s.value.keywords:
            return add_eff(fn, env, "ESetNoResult")
        _bad("assignment to %s" % ast.unparse(tgt), s)
    return None


EXT = Ext(calls={"int": py_int, "AsyncKicker": new_kicker},
          methods={("labels", "get"): labels_get, ("pstr", "lower"): lower, ("kicker", "with_task_id"): with_task_id},
          compare={("Eq", "pstr", "str"): "(pstr_eqb %s (pstr_of_string %s))"},
          truthy={"lval": "(truthy %s)"}, isinst=isinst, stmt=stmt, raise_="None")

SPEC = dict(
    file="taskiq/middlewares/retry_middleware.py", module="Gen_retry", proofs={"C11": "Src_retry_C11"},
    imports=["Base64", "Labels", "Retry", "PyPreludeRetry"], scope="Open Scope Z_scope.", ext=EXT,
    functions=[dict(name="SimpleRetryMiddleware.on_error", gname="on_error", effects=True,
                    params=[("self", SELF), ("message", MSG), ("result", RESULT), ("exception", EXC)],
                    ret=Ty("effects", g="option (list reff)"))])
