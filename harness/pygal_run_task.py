"""pygal units "run_task" (C07) and "run_task_deps" (C12): Receiver.run_task of taskiq/receiver/receiver.py - the whole
function - translated by the monadic backend (pygal_m.py) into the statement monad of coq/theories/PyStm.v.

ONE translation, TWO readings.  The tables below are the only Python-side description of the function's primitives;
every Gallina name they produce (types `rt_*`, the monad `RM`, the primitives) is defined twice:
  coq/theories/PyPreludeRunTask.v      over the alphabet of coq/theories/Pipeline.v (C07: clock reads, one generator
                                       dependency, the body under asyncio.wait_for in virtual time, the on_error hooks
                                       of any middleware stack, the TaskiqResult that is returned)
  coq/theories/PyPreludeRunTaskDeps.v  over the alphabet of coq/theories/Deps.v part 2 (C12: async_ctx, the tree of opened
                                       dependencies, how resolution / the body ended, every finaliser with what it was
                                       handed, the recording middleware)
The generated text is the same for both (only the `Require Import` line differs): SPEC / SPEC_DEPS.

Types carry a little type-state where the models have no event to observe a dropped step with: the dict handed to
async_ctx must be the updated copy, the kwargs handed to the function must have been merged with message.kwargs, the
function that is called directly must be known to be a coroutine function."""
import ast

import pygal_m
from pygal import BOOL, NONE, Ext, Opt, Ty, _bad, narrow, path_of, tr_expr
from pygal_callback import _args, _hook_call

SELF = Ty("rself", g="rt_self")
BROKER = Ty("rbroker", g="rt_self")
FUNC = Ty("rfunc", g="rt_func")              # target: Callable[..., Any]
COROFUNC = Ty("corofunc", g="rt_func")       # ... where asyncio.iscoroutinefunction(target) holds
SYNCFUNC = Ty("syncfunc", g="rt_func")       # ... where it does not
MSG = Ty("rmsg", g="rt_msg")                 # TaskiqMessage (labels parsed)
NAME = Ty("taskname", g="rt_name")
KNOWN = Ty("knowntasks", g="rt_self")
SIGTAB = Ty("sigtable", g="rt_self")
HINTTAB = Ty("hinttable", g="rt_self")
GRAPHTAB = Ty("graphtable", g="rt_self")
HANDLERTAB = Ty("handlertable", g="rt_self")  # [srcrun2] self.prepared_handlers: name -> function the caches were built for
OBJ = Ty("funcobject", g="rt_obj")           # [srcrun2] a function object as an operand of `is` / `is not` (its identity)
SIG = Ty("sig", g="rt_sig")
HINTS = Ty("hints", g="rt_hints")
GRAPH = Ty("graph", g="rt_graph")
BCTX = Ty("bctx", g="rt_bctx")               # broker.custom_dependency_context (the dict shared by all executions)
BCTXU = Ty("bctx_updated", g="rt_bctx")      # ... after .update({Context: ..., TaskiqState: ...})
BCTXC = Ty("bctx_copy", g="rt_bctx")         # ... .copy() of the updated dict
ENTRIES = Ty("ctxentries", g="rt_entries")
CONTEXT = Ty("context", g="rt_context")
STATE = Ty("brokerstate", g="rt_state")
OVERRIDES = Ty("overrides", g="rt_overrides")
OVERRIDES_OPT = Ty("overrides_or_none", g="rt_overrides")
DEPCTX = Ty("depctx", g="rt_depctx")
OPENED = Ty("opened", g="_")                 # dep_ctx.opened_dependencies (a list: only its truthiness is read)
KW0 = Ty("kwargs_resolved", g="rt_kwargs")   # {} / what resolve_kwargs() returned
KW = Ty("kwargs_merged", g="rt_kwargs")      # ... after .update(message.kwargs)
MSGKW = Ty("msgkwargs", g="rt_kwargs")
ARGS = Ty("msgargs", g="rt_args")
STAMP = Ty("stamp", g="rt_stamp")            # a reading of time()
DURATION = Ty("duration", g="rt_duration")   # time() - start_time
ROUNDED = Ty("rounded", g="rt_duration")     # round(<duration>, 2)
LOOP = Ty("loop", g="rt_loop")
EXECUTOR = Ty("executor", g="rt_executor")
RUNSYNC = Ty("run_sync", g="rt_run_sync")
FUT = Ty("fut", g="rt_fut")                  # an awaitable: coroutine / executor future / wait_for(...) of one
LABELS = Ty("labels", g="rt_labels")
TLABEL = Ty("tlabel", g="rt_tlabel")         # the value of the "timeout" label
FLOAT = Ty("float", g="rt_float")
VAL = Ty("val", g="rt_val")                  # what the task function returned
EXC = Ty("exc", g="rt_exn")
EXCINFO = Ty("excinfo", g="rt_excinfo")      # the three positional arguments of dep_ctx.close
RES = Ty("res", g="rt_res")                  # TaskiqResult
MW = Ty("mw", g="rt_mw")
MWCLASS = Ty("mwclass", g="rt_mw")
IMPL = Ty("impl_on_error", g="_")            # middleware.__class__.on_error
BASE = Ty("base_on_error", g="base_hook")    # TaskiqMiddleware.on_error

ATTRS = {
    ("rself", "known_tasks"): ("(known_tasks %s)", KNOWN), ("rself", "validate_params"): ("(validate_params %s)", BOOL),
    ("rself", "task_signatures"): ("(task_signatures %s)", SIGTAB), ("rself", "task_hints"): ("(task_hints %s)", HINTTAB),
    ("rself", "dependency_graphs"): ("(dependency_graphs %s)", GRAPHTAB), ("rself", "broker"): ("(broker_of %s)", BROKER),
    ("rself", "prepared_handlers"): ("(prepared_handlers %s)", HANDLERTAB),
    ("rself", "executor"): ("(executor_of %s)", EXECUTOR),
    ("rself", "propagate_exceptions"): ("(propagate_exceptions %s)", BOOL),
    ("rbroker", "custom_dependency_context"): ("(custom_dependency_context %s)", BCTX),
    ("rbroker", "state"): ("(broker_state %s)", STATE),
    ("rbroker", "dependency_overrides"): ("(dependency_overrides %s)", OVERRIDES),
    ("rbroker", "middlewares"): ("(middlewares %s)", pygal_m.List(MW)),
    ("rmsg", "task_name"): ("(task_name %s)", NAME), ("rmsg", "args"): ("(msg_args %s)", ARGS),
    ("rmsg", "kwargs"): ("(msg_kwargs %s)", MSGKW), ("rmsg", "labels"): ("(msg_labels %s)", LABELS),
    ("mw", "__class__"): ("%s", MWCLASS), ("mwclass", "on_error"): ("(class_on_error %s)", IMPL),
    ("depctx", "opened_dependencies"): ("(opened_dependencies %s)", OPENED),
}
COMPARE = {
    ("NotIn", "taskname", "knowntasks"): "(negb (name_in %s %s))", ("In", "taskname", "knowntasks"): "(name_in %s %s)",
    ("IsNot", "opt", "none"): "(is_not_none %s %s)", ("Is", "opt", "none"): "(negb (is_not_none %s %s))",
    ("NotEq", "impl_on_error", "base_on_error"): "(differs_from_base %s %s)",
    ("Eq", "impl_on_error", "base_on_error"): "(negb (differs_from_base %s %s))",
}
for _a in ("float", "tlabel"):               # numbers (microseconds in Z) against numbers / int constants
    for _b in ("float", "tlabel", "int"):
        for _op, _g in (("Gt", ">?"), ("GtE", ">=?"), ("Lt", "<?"), ("LtE", "<=?"), ("Eq", "=?")):
            COMPARE[(_op, _a, _b)] = "(%%s %s %%s)%%%%Z" % _g
        COMPARE[("NotEq", _a, _b)] = "(negb (%s =? %s)%%Z)"
GLOBALS = {"TaskiqMiddleware.on_error": ("TaskiqMiddleware_hook", BASE), "_run_sync": ("run_sync_helper", RUNSYNC)}
TRUTHY = {"graph": "(obj_truthy %s)", "depctx": "(obj_truthy %s)",      # objects without __bool__ / __len__
          "opened": "(list_truthy %s)", "tlabel": "(number_truthy %s)", "float": "(number_truthy %s)"}
FUNCS = (FUNC, COROFUNC, SYNCFUNC)


def _pos(fn, c, env, types, what):
    """exactly these positional arguments, no keywords, nothing starred -> Gallina texts"""
    if c.keywords or len(c.args) != len(types) or any(isinstance(a, ast.Starred) for a in c.args):
        _bad("arguments of %s" % what, c)
    out = []
    for a, t in zip(c.args, types):
        g, ta = tr_expr(fn, a, env)
        if (ta not in t) if isinstance(t, tuple) else (ta != t):
            _bad("argument %s of %s has type %r, %r expected" % (ast.unparse(a), what, ta, t), c)
        out.append(g)
    return out


# ---------------------------------------------------------------------------------------- pure calls
def c_get_running_loop(fn, node, env):
    _pos(fn, node, env, [], "asyncio.get_running_loop")
    return "get_running_loop", LOOP


def c_iscoroutinefunction(fn, node, env):
    if len(node.args) != 1 or node.keywords or not isinstance(node.args[0], ast.Name):
        _bad("arguments of asyncio.iscoroutinefunction", node)
    g, t = tr_expr(fn, node.args[0], env)
    if t not in FUNCS:
        _bad("asyncio.iscoroutinefunction(%r)" % t, node)
    return "(iscoroutinefunction %s)" % g, Ty("bool", fact=(node.args[0].id, "coroutine function"))


def c_wait_for(fn, node, env):
    return "(wait_for %s %s)" % tuple(_pos(fn, node, env, [FUT, FLOAT], "asyncio.wait_for")), FUT


def c_float(fn, node, env):
    return "(float_of_label %s)" % _pos(fn, node, env, [(TLABEL, FLOAT)], "float")[0], FLOAT


def c_round(fn, node, env):
    if len(node.args) != 2 or node.keywords or not (isinstance(node.args[1], ast.Constant) and node.args[1].value == 2
                                                     and not isinstance(node.args[1].value, bool)):
        _bad("round(...) other than round(<duration>, 2)", node)
    g, t = tr_expr(fn, node.args[0], env)
    if t != DURATION:
        _bad("round(%r, 2)" % t, node)
    return "(round2 %s)" % g, ROUNDED


def c_result(fn, node, env):
    want = [("is_err", BOOL), ("log", NONE), ("return_value", Opt(VAL)), ("execution_time", ROUNDED),
            ("error", Opt(EXC)), ("labels", LABELS)]
    if node.args or sorted(k.arg or "" for k in node.keywords) != sorted(n for n, _ in want):
        _bad("arguments of TaskiqResult (exactly is_err, log, return_value, execution_time, error, labels)", node)
    byname = {k.arg: k.value for k in node.keywords}
    a = {}
    for n, t in want:
        g, ta = tr_expr(fn, byname[n], env)
        if ta == NONE and t.kind == "opt":               # a literal None where an Optional is expected
            g, ta = "(@None %s)" % pygal_m.paren(pygal_m.gty(t.arg)), t
        if ta != t:
            _bad("TaskiqResult(%s=%r), %r expected" % (n, ta, t), node)
        a[n] = g
    return "(TaskiqResult %s %s %s %s %s)" % (a["is_err"], a["return_value"], a["execution_time"], a["error"], a["labels"]), RES


def c_context(fn, node, env):
    return "(Context %s %s)" % tuple(_pos(fn, node, env, [MSG, BROKER], "Context")), CONTEXT


def c_getattr(fn, node, env):
    """[srcrun2] getattr(f, "original_func", f) of a task function f (exactly this form: the same local twice): the
    function a decorated task wraps, or the object itself.  The value is only an operand of `is` / `is not`."""
    a = node.args
    if node.keywords or len(a) != 3 or not (isinstance(a[0], ast.Name) and isinstance(a[2], ast.Name) and a[0].id == a[2].id) \
            or not (isinstance(a[1], ast.Constant) and a[1].value == "original_func"):
        _bad("getattr(...) other than getattr(<f>, \"original_func\", <f>)", node)
    g, t = tr_expr(fn, a[0], env)
    if t not in FUNCS:
        _bad("getattr(%r, \"original_func\", ...)" % t, node)
    return "(original_func_or_self %s)" % g, OBJ


CALLS = {"asyncio.get_running_loop": c_get_running_loop, "asyncio.iscoroutinefunction": c_iscoroutinefunction,
         "asyncio.wait_for": c_wait_for, "float": c_float, "round": c_round, "TaskiqResult": c_result, "Context": c_context,
         "getattr": c_getattr}


def _table_get(prim_name, result):
    def f(fn, node, g, t, env):
        return "(%s %s %s)" % (prim_name, g, _pos(fn, node, env, [NAME], ".get")[0]), Opt(result)
    return f


def m_labels_get(fn, node, g, t, env):
    if node.keywords or len(node.args) not in (1, 2) \
            or not (isinstance(node.args[0], ast.Constant) and node.args[0].value == "timeout") \
            or (len(node.args) == 2 and not (isinstance(node.args[1], ast.Constant) and node.args[1].value is None)):
        _bad("labels.get(...) other than get(\"timeout\") / get(\"timeout\", None)", node)
    return "(labels_get_timeout %s)" % g, Opt(TLABEL)


def m_copy(fn, node, g, t, env):
    _pos(fn, node, env, [], ".copy")
    return "(bctx_copy %s)" % g, BCTXC


def m_run_in_executor(fn, node, g, t, env):
    a = _pos(fn, node, env, [EXECUTOR, RUNSYNC, SYNCFUNC, ARGS, KW], "loop.run_in_executor")
    return "(run_in_executor %s %s)" % (g, " ".join(a)), FUT


METHODS = {("sigtable", "get"): _table_get("signatures_get", SIG), ("hinttable", "get"): _table_get("hints_get", HINTS),
           ("graphtable", "get"): _table_get("graphs_get", GRAPH), ("handlertable", "get"): _table_get("handlers_get", OBJ),
           ("labels", "get"): m_labels_get,
           ("bctx_updated", "copy"): m_copy, ("loop", "run_in_executor"): m_run_in_executor}


# ---------------------------------------------------------------------------------------- other pure expression forms
def _identity_operand(fn, node, env):
    """[srcrun2] an operand of `is` / `is not` between function objects -> (Gallina text, is it an Optional: text of type
    option rt_obj rather than rt_obj); None if the operand is nothing of the kind (the comparison is then left to the
    other tables)"""
    if isinstance(node, ast.Constant):
        return None
    g, t = tr_expr(fn, node, env)
    if t in FUNCS:                                           # the task function itself: its identity
        return "(func_object %s)" % g, False
    if t == OBJ:
        return g, False
    if t == Opt(OBJ):
        return g, True
    return None


def expr(fn, node, env):
    if isinstance(node, ast.Compare) and len(node.ops) == 1 and isinstance(node.ops[0], (ast.Is, ast.IsNot)) \
            and not (isinstance(node.comparators[0], ast.Constant) and node.comparators[0].value is None):
        a, b = _identity_operand(fn, node.left, env), _identity_operand(fn, node.comparators[0], env)    # [srcrun2]
        if a is not None and b is not None:
            if a[1] and b[1]:
                _bad("identity test between two Optional function objects", node)
            if b[1]:                                         # identity is symmetric: the Optional operand goes first
                a, b = b, a
            g = "(object_is %s %s)" % (a[0] if a[1] else "(Some %s)" % a[0], b[0])
            return (g if isinstance(node.ops[0], ast.Is) else "(negb %s)" % g), BOOL
        return None
    if isinstance(node, ast.Dict):
        if not node.keys:                                    # {}
            return "empty_kwargs", KW0
        if [path_of(k) if k is not None else None for k in node.keys] == ["Context", "TaskiqState"]:
            (gc, tc), (gs, ts) = tr_expr(fn, node.values[0], env), tr_expr(fn, node.values[1], env)
            if tc != CONTEXT or ts != STATE:
                _bad("{Context: %r, TaskiqState: %r}" % (tc, ts), node)
            return "(context_entries %s %s)" % (gc, gs), ENTRIES
        _bad("dict display other than {} / {Context: ..., TaskiqState: ...}", node)
    if isinstance(node, ast.Tuple):
        if len(node.elts) == 3 and all(isinstance(e, ast.Constant) and e.value is None for e in node.elts):
            return "no_exc_info", EXCINFO                    # (None, None, None)
        if len(node.elts) == 3:                              # (type(e), e, e.__traceback__)
            a, b, c = node.elts
            if isinstance(b, ast.Name) and isinstance(a, ast.Call) and path_of(a.func) == "type" and not a.keywords \
                    and len(a.args) == 1 and path_of(a.args[0]) == b.id and isinstance(c, ast.Attribute) \
                    and c.attr == "__traceback__" and path_of(c.value) == b.id:
                g, t = tr_expr(fn, b, env)
                if t == EXC:
                    return "(exc_info %s)" % g, EXCINFO
        _bad("tuple display other than (None, None, None) / (type(e), e, e.__traceback__) of an exception e", node)
    if isinstance(node, ast.BoolOp):
        if isinstance(node.op, ast.Or) and len(node.values) == 2:
            g, t = tr_expr(fn, node.values[0], env)
            d = node.values[1]
            if t == OVERRIDES and isinstance(d, ast.Constant) and d.value is None:
                return "(overrides_or_none %s)" % g, OVERRIDES_OPT          # self.broker.dependency_overrides or None
            if t == Opt(HINTS) and isinstance(d, ast.Dict) and not d.keys:
                return "(hints_or_empty %s)" % g, HINTS                     # self.task_hints.get(name) or {}
            if t == Opt(TLABEL) and isinstance(d, ast.Constant) and d.value == 0 and not isinstance(d.value, bool):
                return "(label_or_zero %s)" % g, TLABEL                     # message.labels.get("timeout") or 0
        _bad("and / or as a value: %s" % ast.unparse(node)[:60], node)
    if isinstance(node, ast.Call) and isinstance(node.func, ast.Name) and node.func.id in env \
            and env[node.func.id][1] in FUNCS:
        gf, tf = env[node.func.id]                           # target(*message.args, **kwargs)
        if len(node.args) != 1 or not isinstance(node.args[0], ast.Starred) or len(node.keywords) != 1 \
                or node.keywords[0].arg is not None:
            _bad("arguments of the task function (only `*message.args, **kwargs` is read)", node)
        (ga, ta), (gk, tk) = tr_expr(fn, node.args[0].value, env), tr_expr(fn, node.keywords[0].value, env)
        if ta != ARGS or tk != KW:
            _bad("arguments of the task function have types %r, %r" % (ta, tk), node)
        if tf != COROFUNC:
            _bad("direct call of a function that is not known to be a coroutine function (it would run the body)", node)
        return "(call_coroutine_function %s %s %s)" % (gf, ga, gk), FUT
    return None


def fact_test(fn, g, t, env, kt, kf):
    p, _ = t.fact
    if p in env and env[p][1] == FUNC:
        gp = env[p][0]
        return "(if %s then\n%s\nelse\n%s)" % (g, kt(narrow(env, p, gp, COROFUNC)), kf(narrow(env, p, gp, SYNCFUNC)))
    return "(if %s then\n%s\nelse\n%s)" % (g, kt(env), kf(env))


# ---------------------------------------------------------------------------------------- effectful primitives
def _is_time_call(n):
    return isinstance(n, ast.Call) and path_of(n.func) == "time" and not n.args and not n.keywords


def prim(fn, node, env):
    c = _hook_call(node)
    if c is not None:
        g0, t0 = tr_expr(fn, c.func.value, env)
        if t0 == MW and c.func.attr == "on_error":
            a = _pos(fn, c, env, [MSG, RES, EXC], "on_error")
            if not isinstance(c.args[1], ast.Name):
                _bad("the result handed to on_error is not a local variable", c)
            return "(call_on_error %s %s)" % (g0, " ".join(a)), RES, c.args[1].id
        _bad("await maybe_awaitable(%s)" % ast.unparse(c)[:60], node)
    if isinstance(node, ast.Await):
        v = node.value
        if isinstance(v, ast.Name):
            g, t = tr_expr(fn, v, env)
            if t == FUT:
                return "(await_future %s)" % g, VAL, None
            _bad("await of a %r" % t, node)
        if isinstance(v, ast.Call) and isinstance(v.func, ast.Attribute):
            g0, t0 = tr_expr(fn, v.func.value, env)
            if t0 == DEPCTX and v.func.attr == "resolve_kwargs":
                _pos(fn, v, env, [], "resolve_kwargs")
                return "(resolve_kwargs %s)" % g0, KW0, None
            if t0 == DEPCTX and v.func.attr == "close":
                if len(v.args) != 1 or not isinstance(v.args[0], ast.Starred) or v.keywords:
                    _bad("arguments of dep_ctx.close (only `*args` is read)", v)
                ga, ta = tr_expr(fn, v.args[0].value, env)
                if ta != EXCINFO:
                    _bad("dep_ctx.close(*%r)" % ta, v)
                return "(dep_close %s %s)" % (g0, ga), NONE, None
        _bad("await of %s" % ast.unparse(v)[:60], node)
    if _is_time_call(node):                                   # start_time = time()
        return "clock_start", STAMP, None
    if isinstance(node, ast.BinOp) and isinstance(node.op, ast.Sub) and _is_time_call(node.left):
        g, t = tr_expr(fn, node.right, env)                   # execution_time = time() - start_time
        if t != STAMP:
            _bad("time() - %r" % t, node)
        return "(clock_elapsed %s)" % g, DURATION, None
    if isinstance(node, ast.Call) and path_of(node.func) == "parse_params":
        a = _pos(fn, node, env, [Opt(SIG), HINTS, MSG], "parse_params")
        return "(parse_params %s)" % " ".join(a), NONE, None
    if isinstance(node, ast.Call) and isinstance(node.func, ast.Attribute) and path_of(node.func.value) is not None \
            and node.func.attr in ("_prepare_task", "update", "async_ctx"):
        g0, t0 = tr_expr(fn, node.func.value, env)
        m = node.func.attr
        if t0 == SELF and m == "_prepare_task":
            return "(prepare_task %s %s)" % (g0, " ".join(_pos(fn, node, env, [NAME, FUNCS], "_prepare_task"))), NONE, None
        if t0 == BCTX and m == "update" and isinstance(node.func.value, ast.Name):
            return "(bctx_update %s %s)" % (g0, _pos(fn, node, env, [ENTRIES], ".update")[0]), BCTXU, node.func.value.id
        if t0 == KW0 and m == "update" and isinstance(node.func.value, ast.Name):
            return "(kwargs_update %s %s)" % (g0, _pos(fn, node, env, [MSGKW], ".update")[0]), KW, node.func.value.id
        if t0 == GRAPH and m == "async_ctx":
            pe = "true"                                  # taskiq_dependencies' default for exception_propagation
            if node.keywords:
                if len(node.keywords) != 1 or node.keywords[0].arg != "exception_propagation":
                    _bad("keyword arguments of async_ctx", node)
                pe, tpe = tr_expr(fn, node.keywords[0].value, env)
                if tpe != BOOL:
                    _bad("async_ctx(exception_propagation=%r)" % tpe, node)
            bare = ast.Call(func=node.func, args=node.args, keywords=[])
            ast.copy_location(bare, node)
            return "(async_ctx %s %s %s)" % (g0, " ".join(_pos(fn, bare, env, [BCTXC, OVERRIDES_OPT], "async_ctx")), pe), \
                DEPCTX, None
        _bad("call of .%s on %r" % (m, t0), node)
    return None


def mutates(s):
    """which local's object an expression statement mutates (syntactic; cross-checked against prim())"""
    v = s.value
    c = _hook_call(v)
    if c is not None and c.func.attr == "on_error" and len(c.args) == 3 and isinstance(c.args[1], ast.Name):
        return {c.args[1].id}
    if isinstance(v, ast.Call) and isinstance(v.func, ast.Attribute) and v.func.attr == "update" \
            and isinstance(v.func.value, ast.Name):
        return {v.func.value.id}
    return set()


def stmt_blk(fn, s, rest, env, k, live, live_rest):
    """[srcrun2] `continue`: the backend has learnt it since this unit was built (for_c / continue_ of PyPreludeLoop.v); the
    two preludes of this unit have no such loop, so the statement stays outside this unit's subset (fail-closed: unit
    skipped) instead of producing text that does not compile."""
    if isinstance(s, ast.Continue):
        _bad("continue (no loop with continue in this unit's preludes)", s)
    return None


EXT = Ext(calls=CALLS, methods=METHODS, attrs=ATTRS, compare=COMPARE, truthy=TRUTHY, expr=expr, fact_test=fact_test,
          prim=prim, mutates=mutates, exc_type=EXC, multi_except=True, stmt_blk=stmt_blk,
          except_classes={"Exception": "is_exception", "BaseException": "is_BaseException",
                          "NoResultError": "is_NoResultError", "asyncio.CancelledError": "is_CancelledError"})

FUNCTIONS = [dict(name="Receiver.run_task", gname="run_task_py", ret=RES,
                  params=[("self", SELF), ("target", FUNC), ("message", MSG)])]

# reading 1 (C07): the alphabet of Pipeline.v
SPEC = dict(
    file="taskiq/receiver/receiver.py", module="Gen_run_task", translate=pygal_m.translate,
    proofs={"C07": "Src_run_task_C07"}, monad="RM",
    imports=["Base", "Pipeline", "PyStm", "PyPreludeRunTask"], ext=EXT, globals=GLOBALS, functions=FUNCTIONS)

# reading 2 (C12): the alphabet of Deps.v part 2
SPEC_DEPS = dict(
    file="taskiq/receiver/receiver.py", module="Gen_run_task_deps", translate=pygal_m.translate,
    proofs={"C12": "Src_run_task_C12"}, monad="RM",
    imports=["Deps", "PyStm", "PyPreludeRunTaskDeps"], ext=EXT, globals=GLOBALS, functions=FUNCTIONS)
