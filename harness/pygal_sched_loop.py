"""pygal unit "sched_loop": get_schedules, get_all_schedules, delayed_send and the body of ONE ITERATION of
run_scheduler_loop's `while True:` (taskiq/cli/scheduler/run.py; property C15), translated by the monadic backend
(pygal_m.py) into the statement monad of coq/theories/PyStm.v instantiated by coq/theories/PyPreludeLoop.v
(effects leff, exceptions lexc).  Every table entry below has its Gallina meaning in PyPreludeLoop.v.

What is a primitive here (NOT translated by this unit): `get_task_delay(task)` (tied by the unit "sched_run"; its result
is SchedLoop.due), `source.get_schedules()`, `scheduler.on_ready(source, task)` (unit "on_ready"), `asyncio.gather`,
`asyncio.sleep`, `loop.create_task`, the set that keeps the spawned tasks alive, `datetime.now()`.
Calls of the unit's own coroutine functions are NOT primitives: `get_schedules(source)`, `get_all_schedules(scheduler)`,
`delayed_send(scheduler, source, task, delay)` denote the Gallina definitions generated for them earlier in the same
file (a coroutine object = what it does when it runs).

run_scheduler_loop never returns; what is translated is the body of its `while True:` as a function of the scheduler
and of the two locals the set-up binds (`loop = asyncio.get_event_loop()`, `running_schedules = set()`), see body_of."""
import ast

import pygal_m
from pygal import INT, NDT, NONE, TD, Ext, Opt, Ty, _bad, path_of, tr_expr
from pygal_callback import _args

SCHED = Ty("lscheduler", g="lsched")
SOURCE = Ty("lsource", g="lsource")
TASK = Ty("ltask", g="ltask")
TASKS = pygal_m.List(TASK)
SOURCES = pygal_m.List(SOURCE)
LOOP = Ty("evloop", g="unit")                 # the event loop
RSET = Ty("taskset", g="unit")                # running_schedules
HANDLE = Ty("sendtask", g="(LM unit)")        # an asyncio task = the run of its coroutine
FSECS = Ty("fseconds", g="Z")                 # timedelta.total_seconds(): the float, kept as the microseconds
EXC = Ty("exc", g="lexc")


def Pair(a, b):
    return Ty("pair", arg=(a, b), g="(%s * %s)" % (a.g if getattr(a, "g", None) else pygal_m.gty(a),
                                                    b.g if getattr(b, "g", None) else pygal_m.gty(b)))


def Coro(ret):
    return Ty("coro", arg=ret, g="(LM %s)" % ("unit" if ret == NONE else "(%s)" % pygal_m.gty(ret)))


DICT = Ty("ldict", g="(list (lsource * list ltask))")      # Dict[ScheduleSource, List[ScheduledTask]]

# the unit's own coroutine functions, in the order they are generated: python name -> (Gallina name, parameters, result)
COROS = {"get_schedules": ("get_schedules_py", [SOURCE], TASKS),
         "get_all_schedules": ("get_all_schedules_py", [SCHED], DICT),
         "delayed_send": ("delayed_send_py", [SCHED, SOURCE, TASK, INT], NONE)}
ORDER = ["get_schedules", "get_all_schedules", "delayed_send", "run_scheduler_loop"]

ATTRS = {("lscheduler", "sources"): ("(sched_sources %s)", SOURCES)}
BINOP = {("Add", "naive_datetime", "timedelta"): ("(%s + %s)", NDT), ("Sub", "naive_datetime", "timedelta"): ("(%s - %s)", NDT),
         ("Sub", "naive_datetime", "naive_datetime"): ("(%s - %s)", TD)}

# (lineno, col_offset) of the `datetime.now()` calls that are read number k of the function being translated; filled
# by clock_reads() before a function is translated
CLOCK = {}


def clock_reads(stmts):
    """the `datetime.now()` calls of the top-level assignments of a block, numbered in statement order.  Only a call that
    is evaluated exactly once, unconditionally, is numbered: at most one per assignment, not under a conditional
    expression / Boolean operator / comparison / comprehension.  Every other datetime.now() is rejected when it is met.
    An assignment that reads the clock is a statement with an effect: `x <~ lift (at_clock_read k <value>)` emits the
    marker LNow k, so WHERE the read happens relative to the awaits of the iteration is part of the run (prim())."""
    CLOCK.clear()
    k = 0
    for s in stmts:
        if not isinstance(s, (ast.Assign, ast.AnnAssign)):
            continue
        found, cond = [], []

        def walk(n, under):
            if isinstance(n, ast.Call) and path_of(n.func) == "datetime.now":
                (cond if under else found).append(n)
            for c in ast.iter_child_nodes(n):
                walk(c, under or isinstance(n, (ast.IfExp, ast.BoolOp, ast.ListComp, ast.GeneratorExp, ast.SetComp,
                                                ast.DictComp, ast.Lambda, ast.Compare)))
        walk(s, False)
        if len(found) == 1 and not cond:
            CLOCK[(found[0].lineno, found[0].col_offset)] = k
            k += 1


def datetime_now(fn, node, env):
    if node.args or node.keywords:
        _bad("datetime.now(...) with arguments", node)
    if not fn.spec.get("world"):
        _bad("the clock is read outside the loop iteration", node)
    k = CLOCK.get((node.lineno, node.col_offset))
    if k is None:
        _bad("datetime.now() somewhere else than once in a top-level assignment of the iteration", node)
    return "(datetime_now w %d%%nat)" % k, NDT


def naive_replace(fn, node, g, t, env):
    if node.args or sorted(k.arg or "" for k in node.keywords) != ["microsecond", "second"]:
        _bad("naive.replace needs exactly second= and microsecond=", node)
    kw = {k.arg: k.value for k in node.keywords}
    lim = {"second": 60, "microsecond": 1000000}
    for n, v in kw.items():
        if not (isinstance(v, ast.Constant) and type(v.value) is int and 0 <= v.value < lim[n]):
            _bad("replace(%s=...) with something other than a literal in range" % n, node)
    return "(naive_replace_s_us %s %d %d)" % (g, kw["second"].value, kw["microsecond"].value), NDT


def total_seconds(fn, node, g, t, env):
    if node.args or node.keywords:
        _bad("arguments of total_seconds", node)
    return "(td_total_seconds %s)" % g, FSECS


def dict_items(fn, node, g, t, env):
    if node.args or node.keywords:
        _bad("arguments of items", node)
    return "(dict_items %s)" % g, pygal_m.List(Pair(SOURCE, TASKS))


def _coro_call(name):
    def call(fn, node, env):
        gname, pts, ret = COROS[name]
        if ORDER.index(name) >= ORDER.index(fn.spec["name"]):
            _bad("call of %s, which is not translated before %s" % (name, fn.spec["name"]), node)
        return "(%s %s)" % (gname, " ".join(_args(fn, node, env, pts))), Coro(ret)
    return call


def zip_(fn, node, env):
    if len(node.args) != 2 or node.keywords or any(isinstance(a, ast.Starred) for a in node.args):
        _bad("zip with other than two positional arguments", node)
    (a, ta), (b, tb) = tr_expr(fn, node.args[0], env), tr_expr(fn, node.args[1], env)
    if ta.kind != "list" or tb.kind != "list":
        _bad("zip(%r, %r)" % (ta, tb), node)
    return "(zip %s %s)" % (a, b), pygal_m.List(Pair(ta.arg, tb.arg))


def dict_(fn, node, env):
    if len(node.args) != 1 or node.keywords or isinstance(node.args[0], ast.Starred):
        _bad("dict(...) of something other than one iterable of pairs", node)
    g, t = tr_expr(fn, node.args[0], env)
    if t != pygal_m.List(Pair(SOURCE, TASKS)):
        _bad("dict(%r)" % t, node)
    return "(dict_of_pairs %s)" % g, DICT


def expr(fn, node, env):
    """the literal [] (only ever a list of tasks in this unit)"""
    if isinstance(node, ast.List) and not node.elts:
        return "[]", TASKS
    return None


def _gather(fn, c, env):
    """asyncio.gather(*[<coroutine expression in x> for x in <list>])"""
    if len(c.args) != 1 or c.keywords or not isinstance(c.args[0], ast.Starred) \
            or not isinstance(c.args[0].value, (ast.ListComp, ast.GeneratorExp)):
        _bad("asyncio.gather of something other than *[<coroutine> for x in <list>]", c)
    comp = c.args[0].value
    if len(comp.generators) != 1:
        _bad("nested comprehension", c)
    gen = comp.generators[0]
    if gen.ifs or gen.is_async or not isinstance(gen.target, ast.Name):
        _bad("comprehension with a condition / async / a target that is not a name", c)
    lg, lt = tr_expr(fn, gen.iter, env)
    if lt.kind != "list":
        _bad("comprehension over %r" % lt, c)
    xv = fn.fresh(gen.target.id)
    g, t = tr_expr(fn, comp.elt, pygal_m.rebind(env, gen.target.id, xv, lt.arg))
    if t.kind != "coro":
        _bad("asyncio.gather of %r" % t, c)
    return "(asyncio_gather (map (fun %s => %s) %s))" % (xv, g, lg), pygal_m.List(t.arg), None


def prim(fn, node, env):
    if not isinstance(node, ast.Await):
        reads = [n for n in ast.walk(node) if isinstance(n, ast.Call) and path_of(n.func) == "datetime.now"]
        if reads:           # the value of an assignment that reads the clock: pure in the instant read, marked in the run
            k = CLOCK.get((reads[0].lineno, reads[0].col_offset))
            if len(reads) != 1 or k is None:
                _bad("datetime.now() somewhere else than once in a top-level assignment of the iteration", node)
            g, t = tr_expr(fn, node, env)
            return "(at_clock_read %d%%nat %s)" % (k, g), t, None
    if isinstance(node, ast.Await):
        c = node.value
        name = path_of(c.func) if isinstance(c, ast.Call) else None
        if name == "asyncio.gather":
            return _gather(fn, c, env)
        if name == "asyncio.sleep":
            if len(c.args) != 1 or c.keywords or isinstance(c.args[0], ast.Starred):
                _bad("arguments of asyncio.sleep", c)
            g, t = tr_expr(fn, c.args[0], env)
            if t == INT:
                return "(asyncio_sleep_s %s)" % g, NONE, None
            if t == FSECS:
                return "(asyncio_sleep_f %s)" % g, NONE, None
            _bad("asyncio.sleep(%r)" % t, c)
        if isinstance(c, ast.Call) and isinstance(c.func, ast.Attribute) and name not in COROS:
            g0, t0 = tr_expr(fn, c.func.value, env)
            if t0 == SOURCE and c.func.attr == "get_schedules":
                _args(fn, c, env, [])
                return "(source_get_schedules %s)" % g0, TASKS, None
            if t0 == SCHED and c.func.attr == "on_ready":
                a = _args(fn, c, env, [SOURCE, TASK])
                return "(scheduler_on_ready %s %s %s)" % (g0, a[0], a[1]), NONE, None
            _bad("await of %s" % ast.unparse(c)[:60], node)
        g, t = tr_expr(fn, c, env)            # await <coroutine object>: one of the unit's own functions
        if t.kind != "coro":
            _bad("await of %r" % t, node)
        return g, t.arg, None
    if isinstance(node, ast.Call):
        name = path_of(node.func)
        if name == "get_task_delay":
            if not fn.spec.get("world"):
                _bad("get_task_delay outside the loop iteration", node)
            return "(get_task_delay w %s)" % _args(fn, node, env, [TASK])[0], Opt(INT), None
        if isinstance(node.func, ast.Attribute) and path_of(node.func.value) is not None \
                and node.func.attr in ("create_task", "add", "add_done_callback"):
            g0, t0 = tr_expr(fn, node.func.value, env)
            m = node.func.attr
            if t0 == LOOP and m == "create_task":
                return "(loop_create_task %s %s)" % (g0, _args(fn, node, env, [Coro(NONE)])[0]), HANDLE, None
            if t0 == RSET and m == "add":
                return "(set_add %s %s)" % (g0, _args(fn, node, env, [HANDLE])[0]), NONE, None
            if t0 == HANDLE and m == "add_done_callback":
                a = node.args
                if len(a) != 1 or node.keywords or not (isinstance(a[0], ast.Attribute) and a[0].attr == "discard"):
                    _bad("add_done_callback of something other than <set>.discard", node)
                gs, ts = tr_expr(fn, a[0].value, env)
                if ts != RSET:
                    _bad("add_done_callback(%r.discard)" % ts, node)
                return "(add_done_callback_discard %s %s)" % (g0, gs), NONE, None
            _bad("call of .%s on %r" % (m, t0), node)
    return None


def body_of(nd):
    """run_scheduler_loop = [docstring] ; `<loop> = asyncio.get_event_loop()` and `<set> = set()` (any order, logging
    allowed) ; `while True: <body>` without else / break, nothing after it.  -> (<body>, the two locals as parameters).
    The body is translated as a function of the scheduler and these two locals: a variable the body binds cannot be read
    by it before it is bound (it is not in scope at the start of the body), so no iteration can see a local of an earlier
    one."""
    stmts = [s for s in nd.body if not (isinstance(s, ast.Expr) and isinstance(s.value, ast.Constant)
                                         and isinstance(s.value.value, str)) and not pygal_m.is_logging(s)]
    if not stmts or not isinstance(stmts[-1], ast.While):
        _bad("%s does not end in a while loop" % nd.name, nd)
    wh = stmts[-1]
    if not (isinstance(wh.test, ast.Constant) and wh.test.value is True) or wh.orelse:
        _bad("a loop other than `while True:` without else", wh)
    for n in ast.walk(wh):
        if isinstance(n, ast.Break) or (isinstance(n, ast.While) and n is not wh):
            _bad("break / nested while inside the scheduler loop", n)
    extra = {}
    for s in stmts[:-1]:
        ok = isinstance(s, ast.Assign) and len(s.targets) == 1 and isinstance(s.targets[0], ast.Name) \
            and isinstance(s.value, ast.Call) and not s.value.args and not s.value.keywords
        what = path_of(s.value.func) if ok else None
        if what not in ("asyncio.get_event_loop", "asyncio.get_running_loop", "set") or s.targets[0].id in extra \
                or s.targets[0].id in [a.arg for a in nd.args.args]:
            _bad("set-up statement of %s other than `x = asyncio.get_event_loop()` / `y = set()`" % nd.name, s)
        extra[s.targets[0].id] = RSET if what == "set" else LOOP
    if sorted(t.kind for t in extra.values()) != ["evloop", "taskset"]:
        _bad("the set-up of %s does not bind exactly one event loop and one set" % nd.name, nd)
    clock_reads(wh.body)
    return wh.body, list(extra.items())


EXT = Ext(calls={"datetime.now": datetime_now, "zip": zip_, "dict": dict_,
                 "get_schedules": _coro_call("get_schedules"), "get_all_schedules": _coro_call("get_all_schedules"),
                 "delayed_send": _coro_call("delayed_send")},
          methods={("naive_datetime", "replace"): naive_replace, ("timedelta", "total_seconds"): total_seconds,
                   ("ldict", "items"): dict_items},
          attrs=ATTRS, binop=BINOP, expr=expr, truthy={}, prim=prim, mutates=lambda s: set(), exc_type=EXC,
          except_classes={"Exception": None, "ValueError": "is_ValueError"})

SPEC = dict(
    file="taskiq/cli/scheduler/run.py", module="Gen_sched_loop", translate=pygal_m.translate,
    proofs={"C15": "Src_sched_loop_C15"}, monad="LM", scope="Open Scope Z_scope.",
    imports=["SchedDelay", "SchedLoop", "PyPrelude", "PyStm", "PyPreludeLoop"], ext=EXT, globals={},
    functions=[dict(name="get_schedules", gname="get_schedules_py", params=[("source", SOURCE)], ret=TASKS),
               dict(name="get_all_schedules", gname="get_all_schedules_py", params=[("scheduler", SCHED)], ret=DICT),
               dict(name="delayed_send", gname="delayed_send_py",
                    params=[("scheduler", SCHED), ("source", SOURCE), ("task", TASK), ("delay", INT)]),
               dict(name="run_scheduler_loop", gname="loop_iteration_py", gparams="(w : world)", world=True,
                    params=[("scheduler", SCHED)], body_of=body_of)])
