"""Generator side of harness/retry_typed.py (pure data + an rng; imports neither pydantic nor taskiq): which annotated
parameters the retried task has and which structured values the caller passes.  The format is described in retry_typed.py."""


def J(v):
    return {"b": "json", "v": v}


def PY(t, v):
    return {"b": "py", "t": t, "v": v}


# class -> (required fields, optional fields); field -> value kind.  "!" marks a field whose default is a factory that yields a
# fresh value per construction (leaving it unset is what makes a re-validation visible).
FIELDS = {
    "MConst": ({"a": "int"}, {"b": "str", "c": "optint", "d": "listint", "e": "optstr"}),
    "MFactory": ({"amount": "int"}, {"request_id!": "str", "note": "optstr"}),
    "MStamp": ({}, {"name": "str", "uid!": "uuid", "created!": "datetime", "seq!": "int", "tags": "liststr"}),
    "MNested": ({"inner": ("inst", "MFactory")}, {"others": ("list", "MFactory"), "opt": ("optinst", "MStamp"),
                                                  "by_key": ("dict", "MConst"), "stamp!": ("inst", "MStamp")}),
    "MRich": ({"when": "date"}, {"price": "decimal", "colour": "enum", "pair": "tuple", "blob": "bytes", "members": "set",
                                 "ratio": "float"}),
    "MAlias": ({}, {"req_id!": "str", "n": "int"}),
    "MExtra": ({}, {"a": "int", "key!": "str", "zz": "json"}),
    "MValid": ({"name": "mixedstr"}, {"key!": "str"}),
    "DConst": ({"x": "int"}, {"y": "str", "z": "listint"}),
    "DFactory": ({"amount": "int"}, {"key!": "str"}),
    "DNested": ({"inner": ("inst", "DFactory")}, {"more": ("list", "DConst"), "seq!": "int"}),
    "PDc": ({"a": "int"}, {"key!": "str"}),
}
MODELS = [c for c in FIELDS if c.startswith("M")]
DATACLASSES = [c for c in FIELDS if not c.startswith("M")]
CONTAINER_ANNS = {"List[MFactory]": ("list", "MFactory"), "Dict[str,MFactory]": ("dict", "MFactory"),
                  "Optional[MFactory]": ("optinst", "MFactory"), "Optional[MStamp]": ("optinst", "MStamp"),
                  "List[DFactory]": ("list", "DFactory"), "Union[MFactory,MConst]": ("union", ["MFactory", "MConst"])}
# plain annotation -> [(value sent, claim about the first attempt: valspec | "json" (arrives as sent) | None (no claim))]
PLAIN = {
    "int": [(J("11"), J(11)), (J(7), "json"), (J("x"), None), (J(-3), "json")],
    "str": [(J("s"), "json"), (J(""), "json"), (J(5), None)],
    "float": [(J(0.1), "json"), (J("2.5"), None), (J(3), None)],
    "bool": [(J(True), "json"), (J(False), "json"), (J("yes"), None)],
    "bytes": [(J("abc"), PY("bytes", [97, 98, 99]))],
    "datetime": [(J("2024-05-06T07:08:09"), PY("datetime", "2024-05-06T07:08:09")),
                 (PY("datetime", "2023-01-02T03:04:05.000006"), "same")],
    "List[int]": [(J([1, "2", 3]), J([1, 2, 3])), (J([]), "json")],
    "Dict[str,int]": [(J({"a": "1", "b": 2}), J({"a": 1, "b": 2}))],
    "Optional[int]": [(J(None), "json"), (J("4"), J(4)), (J(4), "json")],
    "Union[int,str]": [(J("11"), None), (J(11), "json")],
    "Tuple[int,str]": [(J([1, "a"]), PY("tuple", [J(1), J("a")]))],
    "Any": [(J([1, {"k": None}]), "json"), (J("v"), "json")],
    "none": [(J({"k": [1, 2.5, "x"]}), "json"), (J(3), "json"), (J(None), "json")],
}
FN_TYPED = ["sync", "agen_dep", "gen_dep", "sync_gen_dep"]      # retry_driver env["fn"] shapes a typed function can take


def gen_field(r, kind, depth):
    if isinstance(kind, tuple):
        k, cls = kind
        if k == "inst":
            return gen_inst(r, cls, depth + 1)
        if k == "optinst":
            return J(None) if r.random() < .25 else gen_inst(r, cls, depth + 1)
        if k == "list":
            return {"b": "list", "v": [gen_inst(r, cls, depth + 1) for _ in range(r.choice([0, 1, 1, 2]))]}
        if k == "dict":
            return {"b": "dict", "v": {key: gen_inst(r, cls, depth + 1) for key in r.sample(["k1", "k2", "é"], r.choice([0, 1, 2]))}}
        if k == "union":
            return gen_inst(r, r.choice(cls), depth + 1)
    return {
        "int": lambda: J(r.choice([0, 1, 5, -7, 10 ** 12])),
        "str": lambda: J(r.choice(["", "x", "req-custom", "ключ", "a b"])),
        "mixedstr": lambda: J(r.choice([" MiXed ", "plain", "UP"])),
        "optint": lambda: J(r.choice([None, 3])),
        "optstr": lambda: J(r.choice([None, "note"])),
        "listint": lambda: J(r.choice([[], [1, 2], [3]])),
        "liststr": lambda: J(r.choice([[], ["t"], ["a", "b"]])),
        "json": lambda: J(r.choice([1, "z", [1, 2], {"q": None}])),
        "float": lambda: J(r.choice([0.1, 2.5, 1e-7, 3.0])),
        "uuid": lambda: PY("uuid", r.choice(["12345678-1234-4234-8234-123456789abc", "00000000-0000-4000-8000-000000000000"])),
        "datetime": lambda: PY("datetime", r.choice(["2020-02-29T12:00:00", "1999-12-31T23:59:59.999999"])),
        "date": lambda: PY("date", r.choice(["2024-02-29", "1970-01-01"])),
        "decimal": lambda: PY("decimal", r.choice(["2.50", "0", "-3.125"])),
        "enum": lambda: PY("enum", r.choice(["red", "blue"])),
        "tuple": lambda: PY("tuple", [J(r.choice([0, 9])), J(r.choice(["", "b"]))]),
        "bytes": lambda: PY("bytes", r.choice([[], [120, 121], [195, 169]])),
        "set": lambda: PY("set", [J(x) for x in r.choice([[], [1], [3, 1, 2]])]),
    }[kind]()


def gen_inst(r, cls, depth=0, p_set=.35):
    """an instance of cls with its required fields and a random subset of the others set explicitly"""
    req, opt = FIELDS[cls]
    fields = {k: gen_field(r, kind, depth) for k, kind in req.items()}
    for k, kind in opt.items():
        if r.random() < p_set and not (depth >= 2 and isinstance(kind, tuple)):
            fields[k.rstrip("!")] = gen_field(r, kind, depth)
    spec = {"b": "inst", "cls": cls, "set": fields}
    if cls == "MAlias" and "req_id" in fields and r.random() < .5:
        fields["reqId"] = fields.pop("req_id")                      # given by alias
    k = r.random()
    movable = [f for f in fields if f not in req and f not in ("zz", "reqId")]
    if k < .12 and movable:
        f = r.choice(movable)
        spec["assign"] = {f: fields.pop(f)}                         # set after construction
    elif k < .22 and cls in MODELS:
        spec["b"] = "validated"                                     # built by model_validate from a dict
    return spec


def unset_factory_fields(spec):
    """names of the fresh-value-per-construction fields a top-level instance leaves to their factory (recursively)"""
    if not isinstance(spec, dict):
        return []
    b = spec.get("b")
    if b in ("inst", "validated"):
        given = set(spec.get("set", {})) | set(spec.get("assign", {}))
        if "reqId" in given:
            given.add("req_id")
        out = [spec["cls"] + "." + k[:-1] for k in FIELDS[spec["cls"]][1] if k.endswith("!") and k[:-1] not in given]
        for v in list(spec.get("set", {}).values()) + list(spec.get("assign", {}).values()):
            out += unset_factory_fields(v)
        return out
    if b == "list":
        return [x for v in spec["v"] for x in unset_factory_fields(v)]
    if b == "dict":
        return [x for v in spec["v"].values() for x in unset_factory_fields(v)]
    return []


def as_json_dict(r, cls):
    """what a caller who passes a plain dict for a model / dataclass parameter writes (JSON-able fields only)"""
    simple = {"int", "str", "optint", "optstr", "listint", "liststr", "json", "float", "mixedstr"}
    req, opt = FIELDS[cls]
    if any(k not in simple for k in req.values()):
        return None
    d = {k: gen_field(r, kind, 0)["v"] for k, kind in req.items()}
    for k, kind in opt.items():
        if kind in simple and r.random() < .3:
            d[k.rstrip("!")] = gen_field(r, kind, 0)["v"]
    return J(d)


def gen_param(r, name):
    """-> (ann, val, expect)"""
    k = r.random()
    if k < .5:
        cls = r.choice(["MFactory", "MFactory", "MStamp", "MNested", "MNested", "MConst", "MRich", "MAlias", "MExtra", "MValid",
                        "DConst", "DFactory", "DFactory", "DNested", "PDc"])
        e = r.random()
        if e < .08:
            d = as_json_dict(r, cls)
            if d is not None:
                return cls, d, None                                # a dict for a model parameter: validated at the worker
        if e < .12:
            return cls, J(None), "json"
        ann = cls if r.random() < .85 else r.choice(["none", "Any"])
        return ann, gen_inst(r, cls), "same"
    if k < .7:
        ann = r.choice(sorted(CONTAINER_ANNS))
        return ann, gen_field(r, CONTAINER_ANNS[ann], 0), "same"
    ann = r.choice(sorted(PLAIN))
    val, exp = r.choice(PLAIN[ann])
    return ann, val, exp


def gen_typed(r):
    n = r.choice([1, 1, 1, 2, 2, 3])
    params, all_pos, need_dflt = [], True, False
    for i in range(n):
        name = "p%d" % i
        ann, val, exp = gen_param(r, name)
        how = r.choice(["pos", "pos", "kw"]) if all_pos else "kw"
        if i > 0 and r.random() < .12:
            how = "omit"
        if i > 0 and how != "omit" and r.random() < .06:
            ann, val, exp = params[0]["ann"], {"b": "ref", "of": "p0"}, params[0]["expect"]      # the same object twice
        all_pos = all_pos and how == "pos"
        dflt = r.choice(["none", "int", "str"]) if (need_dflt or how == "omit" or r.random() < .25) else None
        need_dflt = need_dflt or dflt is not None
        params.append(dict(name=name, ann=ann, how=how, val=None if how == "omit" else val, dflt=dflt,
                           expect=None if how == "omit" else exp))
    typed = dict(params=params, rest=None, extra=None, str_ann=r.random() < .15)
    if all_pos and r.random() < .2:
        typed["rest"] = [r.choice([J(1), J("r"), J([None]), gen_inst(r, "MFactory")]) for _ in range(r.choice([0, 1, 2]))]
    if r.random() < .2:
        typed["extra"] = {k: r.choice([J(2), J({"a": []}), gen_inst(r, r.choice(["MFactory", "DFactory", "MStamp"]))])
                          for k in r.sample(["x", "y", "kw"], r.choice([0, 1, 2]))}
    return typed


def typed_grid():
    """every class with only its required fields set, every container / plain annotation once - always run"""
    out = []
    req_only = lambda cls: {"b": "inst", "cls": cls, "set": {                                      # noqa: E731
        k: (req_only(kind[1]) if isinstance(kind, tuple) else J({"int": 5, "mixedstr": " MiXed ", "date": None}[kind]))
        for k, kind in FIELDS[cls][0].items()}}
    for cls in FIELDS:
        spec = req_only(cls)
        if cls == "MRich":
            spec["set"]["when"] = PY("date", "2024-02-29")
        for how in ("pos", "kw"):
            out.append(dict(params=[dict(name="p0", ann=cls, how=how, val=spec, dflt=None, expect="same")], rest=None, extra=None,
                            str_ann=False))
    for ann, kind in sorted(CONTAINER_ANNS.items()):
        cls = kind[1] if isinstance(kind[1], str) else kind[1][0]
        val = req_only(cls) if kind[0] in ("optinst", "union") else (
            {"b": "list", "v": [req_only(cls), req_only(cls)]} if kind[0] == "list" else {"b": "dict", "v": {"k": req_only(cls)}})
        out.append(dict(params=[dict(name="p0", ann=ann, how="pos", val=val, dflt=None, expect="same")], rest=None, extra=None,
                        str_ann=False))
    for ann in sorted(PLAIN):
        for val, exp in PLAIN[ann]:
            out.append(dict(params=[dict(name="p0", ann=ann, how="kw", val=val, dflt=None, expect=exp)], rest=None, extra=None,
                            str_ann=ann == "int"))
    out.append(dict(params=[dict(name="p0", ann="MFactory", how="pos", val=req_only("MFactory"), dflt=None, expect="same"),
                            dict(name="p1", ann="MFactory", how="pos", val={"b": "ref", "of": "p0"}, dflt="none", expect="same"),
                            dict(name="p2", ann="Optional[MStamp]", how="omit", val=None, dflt="none", expect=None)],
                    rest=None, extra={"x": req_only("DFactory")}, str_ann=True))
    out.append(dict(params=[dict(name="p0", ann="DFactory", how="pos", val=req_only("DFactory"), dflt=None, expect="same")],
                    rest=[J(1), req_only("MStamp")], extra={}, str_ann=False))
    return out
