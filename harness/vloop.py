"""Deterministic virtual-time asyncio loop used by the implementation drivers.

time() is an integer microsecond counter.  The selector never blocks: when no callback is ready the clock
jumps to the next timer (rounded *up* to a whole microsecond, so a sleeper never wakes early).  While
thread-pool futures started through run_in_executor are outstanding the loop waits for real (on the self-pipe)
instead of jumping, so a sync task body "takes no virtual time" and timers cannot overtake it.
Genuine asyncio Tasks / Futures / Semaphores / Queues and anyio task groups run on it unchanged."""
import asyncio
import selectors


class VLoop(asyncio.SelectorEventLoop):
    def __init__(self, start_us=0):
        super().__init__(selectors.SelectSelector())
        self._vt_us = int(start_us)
        self._exec_pending = 0
        real_select = self._selector.select
        loop = self

        def select(timeout=None):
            ev = real_select(0)
            if ev:
                return ev
            if loop._ready:
                return ev
            if loop._exec_pending > 0:
                # a worker thread is running: wait for its wake-up instead of advancing the clock
                return real_select(0.05)
            if loop._scheduled:
                when = loop._scheduled[0]._when
                us = int(-(-when * 1_000_000 // 1))
                if us > loop._vt_us:
                    loop._vt_us = us
            return ev

        self._selector.select = select

    def time(self):
        return self._vt_us / 1_000_000

    def time_us(self):
        return self._vt_us

    def run_in_executor(self, executor, func, *args):
        fut = super().run_in_executor(executor, func, *args)
        self._exec_pending += 1

        def done(_f):
            self._exec_pending -= 1

        fut.add_done_callback(done)
        return fut

    # -- observation of task creation that the code under test cannot see (builder recv9)
    # The loop's TASK FACTORY belongs to the application / the code under test: set_task_factory / get_task_factory are the
    # loop's own (None by default, whatever is set takes effect at the next create_task, at any time of the run - exactly as in
    # production).  The harness' tagging of new tasks is a separate hook, `set_task_tagger(tagger)`:
    #     tagger(task, loop) -> iterable of done-callbacks
    # is called for every task made by loop.create_task BEFORE THE TASK'S FIRST STEP, with the creating task still the current
    # one; it may set attributes on the task object and write log entries (not add done-callbacks: under an eager factory the
    # object is not initialised yet - it returns them and they are added as soon as the task object can take them).
    # The task itself is made by what the code under test configured: the default constructor, its factory, or - for an eager
    # factory (asyncio.eager_task_factory / create_eager_task_factory(ctor), recognised by its code object as libraries do) -
    # an eager factory of the same kind over a subclass of its task constructor whose __init__ tags first: the coroutine still
    # starts inside create_task.  Without a tagger create_task is the base class' own.
    _tagger = None

    def set_task_tagger(self, tagger):
        self._tagger = tagger
        self._eager_cache = {}

    def create_task(self, coro, *, name=None, context=None):
        tg = self._tagger
        if tg is None:
            return super().create_task(coro, name=name, context=context)
        self._check_closed()
        uf = self.get_task_factory()
        if uf is None:
            task = asyncio.Task(coro, loop=self, name=name, context=context)
            if task._source_traceback:
                del task._source_traceback[-1]
            _tag_now(tg, task, self)
            return task
        ctor = eager_constructor(uf)
        if ctor is not None:
            hit = self._eager_cache.get(id(uf))
            if hit is None or hit[0] is not uf:
                hit = self._eager_cache[id(uf)] = (uf, asyncio.create_eager_task_factory(_tagging_constructor(ctor)))
            factory = hit[1]
        else:
            factory = uf
        task = factory(self, coro) if context is None else factory(self, coro, context=context)
        if ctor is None:
            _tag_now(tg, task, self)
        asyncio.tasks._set_task_name(task, name)
        return task


def eager_constructor(factory):
    """the task constructor of an eager task factory (None: not one) - told by the factory's code object, the way anyio does"""
    eager = getattr(asyncio, "eager_task_factory", None)
    if factory is None or eager is None or getattr(factory, "__code__", None) is not eager.__code__:
        return None
    closure = getattr(factory, "__closure__", None)
    return closure[0].cell_contents if closure else None


def _tag_now(tg, task, loop):
    for cb in tg(task, loop) or ():
        task.add_done_callback(cb)


def _tagging_constructor(ctor):
    if isinstance(ctor, type) and issubclass(ctor, asyncio.Future):
        class Tagged(ctor):
            def __init__(self, coro, *, loop=None, **kw):
                tg = getattr(loop, "_tagger", None)
                cbs = list(tg(self, loop) or ()) if tg is not None else []
                super().__init__(coro, loop=loop, **kw)     # (eager_start=True: the first step runs in here)
                for cb in cbs:
                    self.add_done_callback(cb)

        Tagged.__name__, Tagged.__qualname__, Tagged.__module__ = ctor.__name__, ctor.__qualname__, ctor.__module__
        return Tagged

    def construct(coro, *, loop=None, **kw):
        # a constructor that is not a class: tagged when it hands the task back (after an eager first step)
        task = ctor(coro, loop=loop, **kw)
        tg = getattr(loop, "_tagger", None)
        if tg is not None:
            _tag_now(tg, task, loop)
        return task

    return construct


def run(coro_fn, start_us=0):
    """run coro_fn(loop) to completion on a fresh virtual loop"""
    loop = VLoop(start_us)
    asyncio.set_event_loop(loop)
    try:
        return loop.run_until_complete(coro_fn(loop))
    finally:
        try:
            pending = [t for t in asyncio.all_tasks(loop) if not t.done()]
            for t in pending:
                t.cancel()
            if pending:
                loop.run_until_complete(asyncio.gather(*pending, return_exceptions=True))
            loop.run_until_complete(loop.shutdown_asyncgens())
            loop.run_until_complete(loop.shutdown_default_executor())
        except BaseException:
            pass
        asyncio.set_event_loop(None)
        loop.close()


# ----------------------------------------------------------------------------------------------------------------------
# Added (builder recv8): a loop object that somebody else creates / runs, and sync task bodies with a VIRTUAL duration.
import threading
from concurrent.futures import ThreadPoolExecutor

_TLS = threading.local()


class VPool(ThreadPoolExecutor):
    """A ThreadPoolExecutor (the real one: its queue, its threads, its shutdown) whose work items can spend *virtual* time:
    a function running in one of its threads calls `thread_vsleep(us)` and is parked until a timer of the owning PLoop wakes
    it `us` of virtual time later.  The pool keeps the account the loop needs to decide whether the clock may jump:
        queued (submitted, not yet picked by a thread, not cancelled) / running (in a thread, not parked) / parked /
        delivering (the function has returned, the loop has not yet seen the result)
    - the clock is held while an item is running or delivering, or an item is queued and a thread is free to pick it; it is
    NOT held while every thread is occupied by a parked item (queued items wait behind them: what a pool smaller than the
    number of in-flight sync tasks looks like).
    shutdown(): the real shutdown in two steps - first without joining (this is where cancel_futures cancels what is still
    queued), then every parked item is woken and no item parks any more, then the join if `wait` is set: joining blocks the
    event-loop thread, the clock cannot move meanwhile, so whatever is still in the pool finishes at the instant of the
    shutdown.  `on_shutdown(wait, cancel_futures)` is called first (the driver logs it)."""

    def __init__(self, loop, max_workers=None, on_shutdown=None, **kw):
        super().__init__(max_workers=max_workers, **kw)
        assert isinstance(loop, PLoop), "harness: a VPool needs a PLoop"
        self.vloop = loop
        self.k = self._max_workers
        self.lock = threading.Lock()
        self.queued = self.running = self.parked = self.delivering = 0
        self.released = False
        self.entries = []
        self.on_shutdown = on_shutdown
        loop._pools.append(self)

    # -- the account
    def hold(self):
        with self.lock:
            return self.running > 0 or self.delivering > 0 or (self.queued > 0 and self.running + self.parked < self.k)

    def submit(self, fn, /, *args, **kwargs):
        pool = self

        def item():
            with pool.lock:
                pool.queued -= 1
                pool.running += 1
            _TLS.pool = pool
            try:
                return fn(*args, **kwargs)
            finally:
                _TLS.pool = None
                with pool.lock:
                    pool.running -= 1
                    pool.delivering += 1

        with self.lock:
            self.queued += 1
        try:
            cf = super().submit(item)
        except BaseException:
            with self.lock:
                self.queued -= 1
            raise

        def gone(f):
            if f.cancelled():           # cancelled while queued: no thread will ever pick it
                with pool.lock:
                    pool.queued -= 1

        cf.add_done_callback(gone)
        cf._vpool = self
        return cf

    def _delivered(self):
        with self.lock:
            self.delivering -= 1

    # -- virtual time spent inside a pool thread
    def _vsleep(self, us):
        ev = threading.Event()
        entry = dict(ev=ev, armed=False, woken=False, handle=None)
        with self.lock:
            if self.released:
                return
            self.entries.append(entry)
        try:
            self.vloop.call_soon_threadsafe(self._arm, entry, us)
        except RuntimeError:            # loop closed
            return
        ev.wait(60)

    def _arm(self, entry, us):
        with self.lock:
            if entry["woken"]:
                return
            entry["armed"] = True
            self.running -= 1
            self.parked += 1
        entry["handle"] = self.vloop.call_later(us / 1e6, self._wake, entry)

    def _wake(self, entry):
        with self.lock:
            if entry["woken"]:
                return
            entry["woken"] = True
            if entry["armed"]:
                self.parked -= 1
                self.running += 1
            if entry in self.entries:
                self.entries.remove(entry)
        if entry["handle"] is not None:
            entry["handle"].cancel()
        entry["ev"].set()

    def release_all(self):
        with self.lock:
            self.released = True
            todo = list(self.entries)
        for e in todo:
            self._wake(e)

    def shutdown(self, wait=True, *, cancel_futures=False):
        if self.on_shutdown is not None:
            self.on_shutdown(wait, cancel_futures)
        super().shutdown(wait=False, cancel_futures=cancel_futures)
        self.release_all()
        if wait:
            super().shutdown(wait=True)


def thread_vsleep(us):
    """called from a function that runs in a pool thread: spend `us` microseconds of virtual time (nothing when the thread
    does not belong to a VPool - then a sync body takes no virtual time, as before)"""
    pool = getattr(_TLS, "pool", None)
    if pool is not None and us and us > 0:
        pool._vsleep(us)


class PLoop(VLoop):
    """VLoop + the account of VPools (see there); any other executor is handled as in VLoop"""

    def __init__(self, start_us=0):
        super().__init__(start_us)
        self._pools = []
        inner = self._selector.select
        loop = self

        def select(timeout=None):
            if loop._ready or not any(p.hold() for p in loop._pools):
                return inner(timeout)
            # a pool thread is really running (or about to): let VLoop's select wait for its wake-up instead of jumping
            loop._exec_pending += 1
            try:
                return inner(timeout)
            finally:
                loop._exec_pending -= 1

        self._selector.select = select

    def run_in_executor(self, executor, func, *args):
        if executor is None and isinstance(self._default_executor, VPool) and not self._executor_shutdown_called:
            executor = self._default_executor       # a VPool made the loop's default executor (loop.set_default_executor)
        if not isinstance(executor, VPool):
            return super().run_in_executor(executor, func, *args)
        self._check_closed()
        cf = executor.submit(func, *args)
        fut = asyncio.wrap_future(cf, loop=self)

        # registered AFTER wrap_future's own callback: the result is queued on the loop before the account lets the clock go
        def done(f):
            if not f.cancelled():
                try:
                    self.call_soon_threadsafe(executor._delivered)
                except RuntimeError:
                    executor._delivered()

        cf.add_done_callback(done)
        return fut


def finish(loop):
    """what `run` does when the main coroutine has ended, for a loop that was run by somebody else: cancel what is left,
    shut down async generators and the default executor, close"""
    try:
        pending = [t for t in asyncio.all_tasks(loop) if not t.done()]
        for t in pending:
            t.cancel()
        if pending:
            loop.run_until_complete(asyncio.gather(*pending, return_exceptions=True))
        loop.run_until_complete(loop.shutdown_asyncgens())
        loop.run_until_complete(loop.shutdown_default_executor())
    except BaseException:
        pass
    asyncio.set_event_loop(None)
    loop.close()


def run_on(loop, coro_fn):
    """`run` on a loop object the caller made (a PLoop, a loop created by the code under test)"""
    asyncio.set_event_loop(loop)
    try:
        return loop.run_until_complete(coro_fn(loop))
    finally:
        finish(loop)
