"""Deterministic virtual-time asyncio loop used by the implementation drivers.

time() is an integer microsecond counter.  The selector never blocks: when no callback is ready the clock
jumps to the next timer (rounded *up* to a whole microsecond, so a sleeper never wakes early).  While
thread-pool futures started through run_in_executor are outstanding the loop waits for real (on the self-pipe)
instead of jumping, so a sync task body "takes no virtual time" and timers cannot overtake it.
Genuine asyncio Tasks / Futures / Semaphores / Queues and anyio task groups run on it unchanged."""
import asyncio
import selectors


class VLoop(asyncio.SelectorEventLoop):
    def __init__(self, start_us=0):
        super().__init__(selectors.SelectSelector())
        self._vt_us = int(start_us)
        self._exec_pending = 0
        real_select = self._selector.select
        loop = self

        def select(timeout=None):
            ev = real_select(0)
            if ev:
                return ev
            if loop._ready:
                return ev
            if loop._exec_pending > 0:
                # a worker thread is running: wait for its wake-up instead of advancing the clock
                return real_select(0.05)
            if loop._scheduled:
                when = loop._scheduled[0]._when
                us = int(-(-when * 1_000_000 // 1))
                if us > loop._vt_us:
                    loop._vt_us = us
            return ev

        self._selector.select = select

    def time(self):
        return self._vt_us / 1_000_000

    def time_us(self):
        return self._vt_us

    def run_in_executor(self, executor, func, *args):
        fut = super().run_in_executor(executor, func, *args)
        self._exec_pending += 1

        def done(_f):
            self._exec_pending -= 1

        fut.add_done_callback(done)
        return fut


def run(coro_fn, start_us=0):
    """run coro_fn(loop) to completion on a fresh virtual loop"""
    loop = VLoop(start_us)
    asyncio.set_event_loop(loop)
    try:
        return loop.run_until_complete(coro_fn(loop))
    finally:
        try:
            pending = [t for t in asyncio.all_tasks(loop) if not t.done()]
            for t in pending:
                t.cancel()
            if pending:
                loop.run_until_complete(asyncio.gather(*pending, return_exceptions=True))
            loop.run_until_complete(loop.shutdown_asyncgens())
            loop.run_until_complete(loop.shutdown_default_executor())
        except BaseException:
            pass
        asyncio.set_event_loop(None)
        loop.close()
