"""pygal unit "load_gate": the load side of taskiq/serialization.py (C20) - `exception_to_python` and everything it
calls in that file (`get_pickled_exception`, `_UnpickleableExceptionWrapper.restore`, `create_exception_cls`,
`subclass_exception`) - translated by the monadic backend (pygal_m.py) into the statement monad of coq/theories/PyStm.v
instantiated by coq/theories/PyPreludeLoadGate.v (effects = LoadGate.effect, the effects of the hand-written model
LoadGate.conv; exceptions = lexc).

Reading of the objects:
  `exc` (Optional[Union[BaseException, ExceptionRepr]], already validated by the `@validate_call` decorator - the
      decorator expression is part of the spec: it is the precondition under which the parameter IS a LoadGate.payload)
      is a LoadGate.payload; `exc is None` / `isinstance(exc, BaseException)` are `match`es on it that bind the fields
      of the stored ExceptionRepr, so that the recursive calls on exc.exc_cause / exc.exc_context are structural (the
      generated function is a Coq Fixpoint on the payload and must pass Coq's guard checker);
  `sys.modules` is the environment `e : LoadGate.env`;
  `cls` is a LoadGate.target; `isinstance(cls, type)` / `issubclass(cls, BaseException)` are LoadGate.is_type /
      is_exc_subclass; `cls( *args)` is LoadGate.pycall for ANY target (nothing in the types says that cls passed the
      gate: a version without the gate translates and then differs from the model);
  `exception` is a pyval; `exception.__cause__ = v` etc. re-bind it (PyPreludeLoadGate.set_cause ...);
  f-strings are opaque text (`tt`): formatting is not an effect of the model.
Every table entry below has its Gallina meaning in PyPreludeLoadGate.v."""
import ast

import pygal
import pygal_m
from pygal import BOOL, NONE, STR, Ext, Opt, Ty, _bad, narrow, path_of, tr_expr, tr_test

NAME = Ty("pyname", g="LoadGate.name")          # a str that names a class / module / attribute
MODN = Ty("modname", g="smod")                  # the __module__ given to a synthetic class
PARENT = Ty("pyparent", g="pyparent")           # the parent class of a synthetic class
TARGET = Ty("target", g="target")               # any object reached by the lookup, or a synthetic class
TYPEOBJ = Ty("typeobj", g="target")             # ... known to be a class (isinstance(cls, type) held)
ARGS = Ty("pyargs", g="list N")                 # the stored argument tuple (data)
PAYLOAD = Ty("payload", g="payload")            # Optional[Union[BaseException, ExceptionRepr]], validated
REPR = Ty("repr", g="payload")                  # ... narrowed to ExceptionRepr (its fields are bound variables)
INST = Ty("inst", g="inst")                     # ... narrowed to BaseException: a stored instance
WRAPPER = Ty("wrapper", g="wrapper")            # ... a _UnpickleableExceptionWrapper instance
PLAIN = Ty("plain", g="N")                      # ... any other exception instance (its identity)
PYVAL = Ty("pyval", g="pyval")                  # what a call returned: None / an exception / something else
OTARGET = Opt(TARGET)                           # what sys.modules.get / getattr with the default None hand back
TEXT = Ty("text", g="unit")                     # an f-string (opaque)
SYSMOD = Ty("sysmodules", g="env")
EXC = Ty("exc", g="lexc")

REPR_FIELDS = [("exc_type", NAME), ("exc_module", Opt(NAME)), ("exc_message", ARGS), ("exc_suppress_context", BOOL),
               ("exc_cause", PAYLOAD), ("exc_context", PAYLOAD)]           # in the order of LoadGate.PRepr's arguments
# PRepr ty md args sup cause ctx
assert [f for f, _ in REPR_FIELDS] == ["exc_type", "exc_module", "exc_message", "exc_suppress_context", "exc_cause",
                                       "exc_context"]

ATTRS = {("wrapper", "exc_cls_name"): ("(w_cls_name %s)", NAME), ("wrapper", "exc_module"): ("(w_module %s)", NAME),
         ("wrapper", "exc_args"): ("(w_args %s)", ARGS)}

GLOBALS = {"__name__": ("SMSer", MODN),                       # the translated file IS taskiq/serialization.py
           "taskiq.exceptions.__name__": ("SMExc", MODN),
           "Exception": ("PyException", PARENT), "BaseException": ("PyBaseException", PARENT)}

# the functions of this unit, in the order they are translated: name -> (gallina name, parameter list, result type)
FUNCS = {}


def whole(g, t):
    """the Gallina term of the un-narrowed value (the one Coq's guard checker knows as a subterm)"""
    return getattr(t, "whole", None) or g


def as_type(fn, g, t, want, node):
    """coercions between the unit's views of one Python value"""
    if t == want:
        return whole(g, t) if want == PAYLOAD else g
    if want == PAYLOAD and t in (INST, REPR) and getattr(t, "whole", None):
        return t.whole
    if want == MODN and t == NAME:
        return "(SMNamed %s)" % g                 # a module name held by the stored object
    if want == TARGET and t == TYPEOBJ:
        return g
    if want == Opt(PARENT) and t == PARENT:
        return "(Some %s)" % g
    if want.kind == "opt" and t == NONE:
        return "None"
    if want == PYVAL and t == NONE:
        return "VNone"
    if want == PYVAL and t == PLAIN:
        return "(VExn (XOld %s))" % g             # the stored exception instance itself
    if want == PYVAL and t == INST:
        return "(inst_value %s)" % g
    if want == PYVAL and t == WRAPPER:
        return "(inst_value (IWrapper (w_cls_name %s) (w_module %s) (w_args %s)))" % (g, g, g)
    if want == OTARGET and t in (TARGET, TYPEOBJ):
        return "(Some %s)" % g
    _bad("a value of type %r where %r is expected" % (t, want), node)


def coerce(fn, g, t, rt):
    try:
        return as_type(fn, g, t, rt, None)
    except pygal.Unsupported:
        return None


# ---- tests on the payload / on a stored instance: matches that bind the fields
def payload_match(fn, p, g, env, on_none, on_inst, on_repr):
    """match <payload> with PNone => .. | PInst i => .. | PRepr <fields> => .. end, narrowing `p` in each arm.  When the
    two non-None arms are the same continuation and its text uses none of the variables the patterns bind (it only
    hands the un-narrowed value on), they are printed as one arm `| _ =>` - the same Gallina term."""
    import re
    i = fn.fresh(p + "_inst")
    e1 = narrow(env, p, i, Ty("inst", g="inst", whole=g))
    e2 = narrow(env, p, g, Ty("repr", g="payload", whole=g))
    vs = []
    for f, ft in REPR_FIELDS:
        v = fn.fresh(f)
        vs.append(v)
        e2 = narrow(e2, p + "." + f, v, ft)
    none_text = on_none(narrow(env, p, "PNone", NONE))
    n0 = fn.n
    inst_text = on_inst(e1)
    n1 = fn.n
    if on_inst is on_repr:
        fn.n = n0
        repr_text = on_repr(e2)
        fn.n = max(fn.n, n1)
        if repr_text == inst_text and not any(re.search(r"\b%s\b" % re.escape(v), inst_text) for v in [i] + vs):
            return "match %s with\n| PNone =>\n%s\n| _ =>\n%s\nend" % (g, none_text, inst_text)
    repr_text = on_repr(e2)                   # (again, with names distinct from the other arm's)
    return "match %s with\n| PNone =>\n%s\n| PInst %s =>\n%s\n| PRepr %s =>\n%s\nend" % (
        g, none_text, i, inst_text, " ".join(vs), repr_text)


def is_none(fn, p, g, t, env, k_none, k_some):
    if t == PAYLOAD:
        return payload_match(fn, p, g, env, k_none, k_some, k_some)
    if t in (INST, REPR, WRAPPER, PLAIN, TARGET, TYPEOBJ, PYVAL, NAME, ARGS, MODN, PARENT, TEXT):
        if t == PYVAL:
            _bad("`is None` on the result of a call (not read by this unit)")
        return k_some(env)
    return None


def isinst(fn, p, g, t, cls, env, kt, kf):
    if cls == "BaseException":
        if t == PAYLOAD:
            return payload_match(fn, p, g, env, kf, kt, kf)
        if t in (INST, WRAPPER, PLAIN):
            return kt(env)
        if t in (REPR, NONE):
            return kf(env)
    if cls == "ExceptionRepr":
        if t == PAYLOAD:
            return payload_match(fn, p, g, env, kf, kf, kt)
        if t in (INST, WRAPPER, PLAIN, NONE):
            return kf(env)
        if t == REPR:
            return kt(env)
    if cls == "_UnpickleableExceptionWrapper":
        if t == INST:
            a, b, c, i = fn.fresh("exc_cls_name"), fn.fresh("exc_module"), fn.fresh("exc_args"), fn.fresh(p + "_id")
            return "match %s with\n| IWrapper %s %s %s =>\n%s\n| IPlain %s =>\n%s\nend" % (
                g, a, b, c, kt(narrow(env, p, "(mkwrapper %s %s %s)" % (a, b, c), WRAPPER)), i, kf(narrow(env, p, i, PLAIN)))
        if t == WRAPPER:
            return kt(env)
        if t == PLAIN:
            return kf(env)
    if cls == "type":
        if t == TARGET:
            return "(if is_type %s then\n%s\nelse\n%s)" % (g, kt(narrow(env, p, g, TYPEOBJ)), kf(env))
        if t == TYPEOBJ:
            return kt(env)
        if t == OTARGET:                       # None is not a class
            v = fn.fresh(p)
            return "match %s with\n| Some %s =>\n(if is_type %s then\n%s\nelse\n%s)\n| None =>\n%s\nend" % (
                g, v, v, kt(narrow(env, p, v, TYPEOBJ)), kf(narrow(env, p, v, TARGET)), kf(narrow(env, p, "None", NONE)))
    return None


def issubclass_call(fn, node, env):
    """issubclass(cls, BaseException): raises TypeError unless cls is a class.  Where isinstance(cls, type) is known to
    hold it is LoadGate.is_exc_subclass; elsewhere it can only be a test of a statement, which first raises TypeError
    for a non-class (fact_test below)"""
    if len(node.args) != 2 or node.keywords or path_of(node.args[1]) != "BaseException":
        _bad("issubclass(...) other than issubclass(<cls>, BaseException)", node)
    g, t = tr_expr(fn, node.args[0], env)
    if t == TYPEOBJ:
        return "(is_exc_subclass %s)" % g, BOOL
    if t == TARGET and path_of(node.args[0]) is not None:
        return UNCHECKED % g, Ty("bool", fact=(path_of(node.args[0]), g))
    _bad("issubclass of a value of type %r" % t, node)


UNCHECKED = "(issubclass_of_something_not_known_to_be_a_class %s)"     # never defined: only fact_test may consume it


def fact_test(fn, g, t, env, kt, kf):
    p, gc = t.fact
    if g != UNCHECKED % gc or p not in env or env[p][0] != gc:
        _bad("the result of issubclass on a value not known to be a class is used other than as the test of a statement")
    return "(if is_type %s then\n(if is_exc_subclass %s then\n%s\nelse\n%s)\nelse\nraise_ XTypeError)" % (
        gc, gc, kt(narrow(env, p, gc, TYPEOBJ)), kf(narrow(env, p, gc, TYPEOBJ)))


def split_method(fn, node, g, t, env):
    if len(node.args) != 1 or node.keywords or not (isinstance(node.args[0], ast.Constant) and node.args[0].value == "."):
        _bad("str.split with anything but the one argument \".\"", node)
    return "(split_dot %s)" % g, pygal_m.List(NAME)


# ---- opaque text
def _text_arm(fn, node, env):
    g, t = tr_expr(fn, node, env)
    if t not in (TEXT, NAME, STR):
        _bad("a text of type %r" % t, node)
    return "tt"


def expr(fn, node, env):
    if isinstance(node, ast.JoinedStr):
        for v in node.values:
            if isinstance(v, ast.Constant) and isinstance(v.value, str):
                continue
            if not isinstance(v, ast.FormattedValue) or v.format_spec is not None:
                _bad("f-string part", node)
            if path_of(v.value) is None:
                _bad("an f-string that formats something other than a variable / attribute path", node)
            gt = tr_expr(fn, v.value, env)            # must be a known value; formatting it is not an effect of the model
            if gt[1] == PYVAL:
                _bad("an f-string that formats the result of a call", node)
        return "tt", TEXT
    if isinstance(node, ast.IfExp) and (isinstance(node.body, ast.JoinedStr) or isinstance(node.orelse, ast.JoinedStr)):
        # a conditional text: both arms must be texts (names / f-strings); its value is opaque
        tr_test(fn, node.test, env, lambda e: _text_arm(fn, node.body, e), lambda e: _text_arm(fn, node.orelse, e))
        return "tt", TEXT
    return None


# ---- primitives with effects
def _bound_args(fn, c, env, params, defaults=0):
    """positional / keyword arguments against a parameter list -> (node | None) per parameter"""
    if any(isinstance(a, ast.Starred) for a in c.args) or any(k.arg is None for k in c.keywords) or len(c.args) > len(params):
        _bad("arguments of %s" % ast.unparse(c.func), c)
    got = dict(zip([p for p, _ in params], c.args))
    for k in c.keywords:
        if k.arg in got or k.arg not in [p for p, _ in params]:
            _bad("keyword %s of %s" % (k.arg, ast.unparse(c.func)), c)
        got[k.arg] = k.value
    out = []
    for i, (p, _) in enumerate(params):
        if p not in got and i < len(params) - defaults:
            _bad("missing argument %s of %s" % (p, ast.unparse(c.func)), c)
        out.append(got.get(p))
    return out


def mterm(fn, node, env, want):
    """an argument that may itself be a primitive call -> (binder prefix, gallina value text)"""
    r = prim(fn, node, env)
    if r is None:
        g, t = pygal_m.pure(fn, node, env)
        return "", as_type(fn, g, t, want, node)
    g, t, _ = r
    v = fn.fresh("v")
    return "bind %s (fun %s => " % (g, v), as_type(fn, v, t, want, node)


def _wrap(prefixes, body):
    text = body
    for p in reversed(prefixes):
        text = "(%s%s))" % (p, text) if p else text
    return text


def _defined_before(fn, pyname, node):
    """a translated function may call the ones translated before it, and itself if it is declared structurally recursive
    (then Coq's guard checker decides)"""
    order = [f.split(".")[-1] for f in FUNCS_ORDER]
    cur = fn.spec["name"].split(".")[-1]
    if order.index(pyname) > order.index(cur) or (pyname == cur and not fn.spec.get("fix")):
        _bad("call of %s from %s (translated later / not declared recursive)" % (pyname, cur), node)


def call_translated(fn, c, env, pyname):
    gname, params, rt, ndefaults = FUNCS[pyname]
    _defined_before(fn, pyname, c)
    nodes = _bound_args(fn, c, env, params, ndefaults)
    pre, gs = [], []
    for nd, (p, pt) in zip(nodes, params):
        if nd is None:
            gs.append("None")                 # the only default in this unit: parent=None
            continue
        a, g = mterm(fn, nd, env, pt)
        pre.append(a)
        gs.append(g)
    return _wrap(pre, "(%s e %s)" % (gname, " ".join(gs))), rt, None      # every function is given sys.modules


def _call_args(fn, node, env):
    """the argument list of a call expression on an object: nothing, or one starred tuple of stored data"""
    if node.keywords:
        _bad("keyword arguments in a call of an object", node)
    if not node.args:
        return "[]"
    if len(node.args) == 1 and isinstance(node.args[0], ast.Starred):
        ga, ta = pygal_m.pure(fn, node.args[0].value, env)
        if ta == ARGS:
            return ga
    _bad("arguments of the call of %s (only `()` and `( *<stored args>)` are read)" % ast.unparse(node.func)[:40], node)


def prim(fn, node, env):
    # sys.modules[<name>]
    if isinstance(node, ast.Subscript) and path_of(node.value) == "sys.modules":
        g, t = pygal_m.pure(fn, node.slice, env)
        if t != NAME:
            _bad("sys.modules[%r]" % t, node)
        return "(sys_modules_getitem e %s)" % g, TARGET, None
    if not isinstance(node, ast.Call):
        return None
    f = node.func
    name = path_of(f)
    if name in FUNCS and name != "restore" and name not in env:
        return call_translated(fn, node, env, name)
    if name == "sys.modules.get":
        if len(node.args) != 1 or node.keywords:
            _bad("sys.modules.get with a default / keywords", node)
        g, t = pygal_m.pure(fn, node.args[0], env)
        if t != NAME:
            _bad("sys.modules.get(%r)" % t, node)
        return "(sys_modules_get e %s)" % g, OTARGET, None
    if name in ("importlib.import_module", "import_module"):
        if len(node.args) != 1 or node.keywords:
            _bad("import_module with a package argument / keywords", node)
        g, t = pygal_m.pure(fn, node.args[0], env)
        if t != NAME:
            _bad("import_module(%r)" % t, node)
        return "(import_module e %s)" % g, TARGET, None
    if name == "getattr":
        if len(node.args) not in (2, 3) or node.keywords:
            _bad("getattr with keywords", node)
        g1, t1 = pygal_m.pure(fn, node.args[1], env)
        if t1 != NAME:
            _bad("getattr(_, %r)" % t1, node)
        if len(node.args) == 2:
            pre, g0 = mterm(fn, node.args[0], env, TARGET)
            return _wrap([pre], "(py_getattr %s %s)" % (g0, g1)), TARGET, None
        pre, g0 = mterm(fn, node.args[0], env, OTARGET)          # the object is evaluated first, then the default
        gd, td = pygal_m.pure(fn, node.args[2], env)
        return _wrap([pre], "(py_getattr_default %s %s %s)" % (g0, g1, as_type(fn, gd, td, OTARGET, node))), OTARGET, None
    if name == "type":
        # type(name, (parent,), {"__module__": module})
        if len(node.args) != 3 or node.keywords:
            _bad("type(...) with other than three positional arguments", node)
        a, b, c = node.args
        if not (isinstance(b, ast.Tuple) and len(b.elts) == 1) or not (
                isinstance(c, ast.Dict) and len(c.keys) == 1 and isinstance(c.keys[0], ast.Constant)
                and c.keys[0].value == "__module__"):
            _bad("type(name, bases, namespace) other than type(<name>, (<parent>,), {\"__module__\": <module>})", node)
        (ga, ta), (gb, tb), (gc, tc) = (pygal_m.pure(fn, a, env), pygal_m.pure(fn, b.elts[0], env),
                                        pygal_m.pure(fn, c.values[0], env))
        if ta != NAME or tb != PARENT:
            _bad("type(%r, (%r,), ...)" % (ta, tb), node)
        return "(type_new %s %s %s)" % (ga, gb, as_type(fn, gc, tc, MODN, node)), TARGET, None
    if name == "Exception":
        # Exception(<text>): builtins.Exception, the model's TFallback
        if len(node.args) != 1 or node.keywords:
            _bad("Exception(...) with other than one argument", node)
        g, t = pygal_m.pure(fn, node.args[0], env)
        if t != TEXT:
            _bad("Exception(%r): only a formatted text is read" % t, node)
        return "(new_fallback_exception %s)" % g, PYVAL, None
    if isinstance(f, ast.Attribute) and f.attr == "restore" and "restore" in FUNCS:
        g0, t0 = pygal_m.pure(fn, f.value, env)
        if t0 != WRAPPER or node.args or node.keywords:
            _bad("call of .restore on %r" % t0, node)
        _defined_before(fn, "restore", node)
        return "(%s e %s)" % (FUNCS["restore"][0], g0), PYVAL, None
    # <callee>() / <callee>( *<args>): Python's call expression on an object of the environment / a synthetic class
    if isinstance(f, ast.Name) and f.id in env and env[f.id][1] in (TARGET, TYPEOBJ):
        return "(py_call %s %s)" % (env[f.id][0], _call_args(fn, node, env)), PYVAL, None
    if isinstance(f, ast.Call):                # the callee is itself a call of the unit: evaluated first
        r = prim(fn, f, env)
        if r is not None and r[1] in (TARGET, TYPEOBJ):
            v = fn.fresh("callee")
            return "(bind %s (fun %s => py_call %s %s))" % (r[0], v, v, _call_args(fn, node, env)), PYVAL, None
    return None


SETTERS = {"__cause__": ("set_cause", PYVAL), "__context__": ("set_context", PYVAL),
           "__suppress_context__": ("set_suppress_context", BOOL)}


def setattr_(fn, s, env):
    tgt = s.targets[0]
    x = tgt.value.id
    if x not in env or env[x][1] != PYVAL:
        _bad("assignment to an attribute of something that is not the result of a call", s)
    if tgt.attr not in SETTERS:
        _bad("assignment to attribute .%s" % tgt.attr, s)
    setter, vt = SETTERS[tgt.attr]
    pre, g = mterm(fn, s.value, env, vt)       # the value is evaluated first, then the attribute is set
    return _wrap([pre], "(%s %s %s)" % (setter, env[x][0], g)), PYVAL


def exc_new(fn, node, env):
    if isinstance(node, ast.Call) and path_of(node.func) == "taskiq.exceptions.SecurityError":
        if node.args or [k.arg for k in node.keywords] != ["description"]:
            _bad("SecurityError(...) with other than description=<text>", node)
        g, t = pygal_m.pure(fn, node.keywords[0].value, env)
        if t != TEXT:
            _bad("SecurityError(description=%r)" % t, node)
        return "XSecurityError"
    return None


EXT = Ext(calls={"issubclass": issubclass_call}, methods={("pyname", "split"): split_method}, attrs=ATTRS, truthy={},
          isinst=isinst, is_none=is_none, expr=expr, prim=prim, mutates=lambda s: set(), setattr_=setattr_,
          exc_new=exc_new, exc_type=EXC, coerce=coerce, return_prim=True, guard_dup=True, guard_else=True, fact_test=fact_test,
          join_type=lambda t: TARGET if t == TYPEOBJ else t,
          except_classes={"Exception": None, "BaseException": "is_BaseException", "KeyError": "is_KeyError",
                          "AttributeError": "is_AttributeError", "ValueError": "is_ValueError",
                          "TypeError": "is_TypeError"})

VALIDATE_CALL = "validate_call(config=pydantic.ConfigDict(arbitrary_types_allowed=True))"

# every function is given the process state `sys.modules` as (e : env), whether its present text reads it or not
FUNCTIONS = [
    dict(name="subclass_exception", gname="subclass_exception_py", sync=True, ret=TARGET, gparams="(e : env)",
         params=[("name", NAME), ("parent", PARENT), ("module", MODN)]),
    dict(name="create_exception_cls", gname="create_exception_cls_py", sync=True, ret=TARGET, defaults=["None"],
         gparams="(e : env)", params=[("name", NAME), ("module", MODN), ("parent", Opt(PARENT))]),
    dict(name="_UnpickleableExceptionWrapper.restore", gname="restore_py", sync=True, ret=PYVAL, gparams="(e : env)",
         params=[("self", WRAPPER)]),
    dict(name="get_pickled_exception", gname="get_pickled_exception_py", sync=True, ret=PYVAL, gparams="(e : env)",
         params=[("exc", INST)]),
    dict(name="exception_to_python", gname="exception_to_python_py", sync=True, ret=PYVAL, decorators=[VALIDATE_CALL],
         gparams="(e : env)", fix="exc", params=[("exc", PAYLOAD)]),
]
FUNCS_ORDER = [f["name"] for f in FUNCTIONS]
for _f in FUNCTIONS:
    _n = _f["name"].split(".")[-1]
    FUNCS[_n] = (_f["gname"], _f["params"] if _n != "restore" else [], _f["ret"], len(_f.get("defaults", [])))

SPEC = dict(
    file="taskiq/serialization.py", module="Gen_load_gate", translate=pygal_m.translate,
    proofs={"C20": "Src_load_gate_C20"}, monad="LM",
    imports=["LoadGate", "PyStm", "PyPreludeLoadGate"], ext=EXT, globals=GLOBALS, functions=FUNCTIONS)
