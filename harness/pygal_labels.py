"""pygal unit "labels" (property C09): taskiq/labels.py - the enum `LabelType`, the table `_LABEL_PARSERS`,
`prepare_label`, `parse_label` (pure backend, pygal.py) - and taskiq/message.py `TaskiqMessage.parse_labels` (monadic
backend, pygal_m.py, over coq/theories/PyStm.v).  Every primitive below has its Gallina meaning in
coq/theories/PyPreludeLabels.v.

What is read from the source text on every run (so that changing it changes the generated definitions):
  class LabelType(enum.IntEnum)   -> `Definition LabelType : enum := enum_auto ["ANY"; "INT"; ...]` (member names in
                                     definition order; all `enum.auto()`, or all int literals -> the literal list)
  _LABEL_PARSERS = {K: V, ...}    -> `Definition LABEL_PARSERS : option (dict parser) := dict_display [(K, V); ...] []`
                                     K = `LabelType.NAME` (a lookup by name in the generated enum), V = `int` / `str` / `float`
                                     / `base64.b64decode` (prelude primitives call_*) or a one-parameter lambda whose body is
                                     translated like any expression
  prepare_label, parse_label      -> pure functions; value `None` = an exception left the function
  TaskiqMessage.parse_labels      -> `LM tmsg`: the message (its two fields labels / labels_types) after the call, or Exc

A label value is Labels.v's `lval`; `type(v)` is its exact type (`pytype`: the five builtin types or "other" - bool is not
int, an instance of a subclass of int / str / ... is "other", exactly what `type(x) in (int, ...)` / `type(x) is bytes`
decide; LOther carries str(object), all the model knows of such an object).  The builtin names int / str / float / bool /
bytes / type / base64 / enum have their builtin meaning only if the module does not re-bind them (checked, fail-closed).

Trusted: pygal.py, pygal_m.py, this file, PyPreludeLabels.v, PyStm.v, Python's `ast`."""
import ast
import hashlib
import os
import re

import pygal
import pygal_m
from pygal import BOOL, NONE, STR, Ext, Opt, Ty, Unsupported, _bad, path_of, tr_expr, wrap_pending  # noqa: F401

LVAL = Ty("lval", g="lval", may_be_none=True)      # Any: the None object is one of the "other" values
PSTR = Ty("pstr", g="pstr")
TNUM = Ty("tnum", g="N")              # a label type number: the int on the wire, `member.value`
MEMBER = Ty("member", g="N")          # a LabelType member (PyPreludeLabels.v: represented by its value)
ENUM = Ty("enum", g="enum")           # the class LabelType
PYTYPE = Ty("pytype", g="pytype")     # type(v)
BTYPE = Ty("btype", g="btype")        # one of the type objects int, str, float, bool, bytes, named in the source
BTYPES = Ty("btypes", g="list btype")
ABYTES = Ty("abytes", g="list N")     # a bytes object (base64 output): its byte values
TABLE = Ty("table", g="dict parser")  # _LABEL_PARSERS
KEY = Ty("key", g="key")              # a label name
LABELS = Ty("labels", g="dict lval")  # message.labels
TYPES = Ty("types", g="dict N")       # message.labels_types
ITEM = Ty("pair", g="(key * N)", fst=KEY, snd=TNUM)       # an item of labels_types.items()
PREPARED = Ty("prepared", g="(pstr * N)")                 # prepare_label's result
TMSG = Ty("tmsg", g="tmsg")           # TaskiqMessage, as far as parse_labels looks at it

ENUM_NAME, TABLE_NAME, TABLE_G, PARSE_G = "LabelType", "_LABEL_PARSERS", "LABEL_PARSERS", "parse_label_py"
BUILTIN_TYPES = {"int": "BInt", "str": "BStr", "float": "BFloat", "bool": "BBool", "bytes": "BBytes"}
RESERVED = set(BUILTIN_TYPES) | {"type", "base64", "enum"}          # names whose builtin meaning the translation relies on
EXC_CLASSES = ("ValueError", "TypeError", "KeyError", "LookupError", "RuntimeError", "NotImplementedError", "Exception")
COQ_WORDS = {"as", "at", "cofix", "else", "end", "exists", "exists2", "fix", "for", "forall", "fun", "if", "IF", "in", "let",
             "match", "mod", "Prop", "return", "Set", "then", "Type", "using", "where", "with", "W", "Definition", "Section"}


# ------------------------------------------------------------------------------------------------ expressions
def _one_arg(node, what):
    if len(node.args) != 1 or node.keywords or isinstance(node.args[0], ast.Starred):
        _bad("arguments of %s" % what, node)
    return node.args[0]


def c_type(fn, node, env):
    g, t = tr_expr(fn, _one_arg(node, "type()"), env)
    if t != LVAL:
        _bad("type(%r)" % t, node)
    return "(type_of %s)" % g, PYTYPE


def c_str(fn, node, env):
    g, t = tr_expr(fn, _one_arg(node, "str()"), env)
    if t == LVAL:
        return "(py_str W %s)" % g, PSTR
    if t == PSTR:
        return g, PSTR              # str(s) of a str is s
    _bad("str(%r)" % t, node)


def c_enum(fn, node, env):
    g, t = tr_expr(fn, _one_arg(node, ENUM_NAME + "()"), env)
    if t not in (TNUM, MEMBER):
        _bad("%s(%r)" % (ENUM_NAME, t), node)
    return fn.partial("(enum_call %s %s)" % (ENUM_NAME, g), "member"), MEMBER


def c_b64encode(fn, node, env):
    g, t = tr_expr(fn, _one_arg(node, "base64.b64encode()"), env)
    if t != LVAL:
        _bad("base64.b64encode(%r)" % t, node)
    return fn.partial("(py_b64encode W %s)" % g, "b64"), ABYTES


def m_decode(fn, node, g, t, env):
    ok = not node.keywords and (not node.args or (len(node.args) == 1 and isinstance(node.args[0], ast.Constant)
                                                  and node.args[0].value in ("utf-8", "utf8", "UTF-8")))
    if not ok:
        _bad("arguments of bytes.decode", node)
    return fn.partial("(bytes_decode W %s)" % g, "text"), PSTR


def m_labels_get(fn, node, g, t, env):
    k, tk = tr_expr(fn, _one_arg(node, "labels.get()"), env)
    if tk != KEY:
        _bad("labels.get(%r)" % tk, node)
    return "(dict_get %s %s)" % (k, g), Opt(LVAL)


def _no_args(f):
    def m(fn, node, g, t, env):
        if node.args or node.keywords:
            _bad("arguments of .%s()" % node.func.attr, node)
        return f(g)
    return m


def _neg(neg, text):
    return "(negb %s)" % text if neg else text


def expr(fn, node, env):
    """the unit's expressions (pygal.Ext.expr): None = not mine"""
    if isinstance(node, ast.Tuple) and isinstance(node.ctx, ast.Load) and node.elts \
            and not any(isinstance(e, ast.Starred) for e in node.elts):
        parts = [tr_expr(fn, e, env) for e in node.elts]
        ts = [t for _, t in parts]
        if all(t == BTYPE for t in ts):
            return "[%s]" % "; ".join(g for g, _ in parts), BTYPES            # (int, str, ...) as the right side of `in`
        if ts == [PSTR, TNUM]:
            return "(%s, %s)" % (parts[0][0], parts[1][0]), PREPARED         # prepare_label's result
        _bad("tuple of %r" % ts, node)
    if isinstance(node, ast.Compare) and len(node.ops) == 1:
        op = type(node.ops[0]).__name__
        if op not in ("In", "NotIn", "Is", "IsNot", "Eq", "NotEq"):
            return None
        n0, pend0 = fn.n, list(fn.pending)
        (a, ta), (b, tb) = tr_expr(fn, node.left, env), tr_expr(fn, node.comparators[0], env)
        neg = op in ("NotIn", "IsNot", "NotEq")
        if op in ("In", "NotIn"):
            if ta == PYTYPE and tb == BTYPES:
                return _neg(neg, "(pytype_in %s %s)" % (a, b)), BOOL
            if (ta in (MEMBER, TNUM) and tb == TABLE) or (ta == KEY and tb in (LABELS, TYPES)):
                return _neg(neg, "(dict_contains %s %s)" % (a, b)), BOOL
        else:
            if ta == PYTYPE and tb == BTYPE:
                return _neg(neg, "(pytype_is %s %s)" % (a, b)), BOOL
            if ta == BTYPE and tb == PYTYPE:
                return _neg(neg, "(pytype_is %s %s)" % (b, a)), BOOL
        fn.n, fn.pending = n0, pend0            # not mine: let the built-in cases translate it afresh
        return None
    if isinstance(node, ast.Subscript) and isinstance(node.ctx, ast.Load):
        g, t = tr_expr(fn, node.value, env)
        if t == ENUM:
            k, tk = tr_expr(fn, node.slice, env)
            if tk != STR:
                _bad("%s[%r]" % (ENUM_NAME, tk), node)
            return fn.partial("(enum_getitem %s %s)" % (g, k), "member"), MEMBER
        if t == LABELS:
            k, tk = tr_expr(fn, node.slice, env)
            if tk != KEY:
                _bad("labels[%r]" % tk, node)
            return fn.partial("(dict_getitem %s %s)" % (k, g), "item"), LVAL
        _bad("subscript of %r" % t, node)
    if isinstance(node, ast.Attribute) and isinstance(node.value, ast.Name) and env.get(node.value.id, (None, None))[1] == ENUM:
        # LabelType.NAME: for an upper-case NAME this is a member lookup (AttributeError if there is none); lower-case
        # attributes of the class (int's methods, __members__, ...) are not read
        if not re.fullmatch(r"[A-Z][A-Z0-9_]*", node.attr):
            _bad("attribute .%s of the enum class" % node.attr, node)
        return fn.partial('(enum_getitem %s "%s"%%string)' % (env[node.value.id][0], node.attr), "member"), MEMBER
    if isinstance(node, ast.Call) and isinstance(node.func, ast.Subscript):
        # _LABEL_PARSERS[label_type](label_value)
        tb, ttb = tr_expr(fn, node.func.value, env)
        if ttb != TABLE:
            _bad("call of an item of %r" % ttb, node)
        k, tk = tr_expr(fn, node.func.slice, env)
        a, ta = tr_expr(fn, _one_arg(node, "a parser"), env)
        if tk not in (MEMBER, TNUM) or ta != LVAL:
            _bad("%s[%r](%r)" % (TABLE_NAME, tk, ta), node)
        return fn.partial("(dict_getitem_call %s %s %s)" % (tb, k, a), "parsed"), LVAL
    return None


def isinst(fn, p, g, t, cls, env, kt, kf):
    """isinstance tests on the unit's dynamically typed values are not read (pygal's default would decide them by the
    static type: wrong for a label value, which may be an instance of anything - bool and IntEnum members are ints)"""
    _bad("isinstance(%s, %s) on a value of type %r" % (p, cls, t))


def raise_stmt(fn, s, env):
    """raise C / raise C(<message>): which exception and which message is not modelled (Labels.v: None = an exception);
    the message must be a constant or an f-string over local variables (formatting them has no effect)"""
    e = s.exc
    if e is None or s.cause is not None:
        _bad("bare raise / raise ... from", s)
    args = []
    if isinstance(e, ast.Call):
        if e.keywords:
            _bad("keyword arguments of the raised exception", s)
        e, args = e.func, e.args
    if path_of(e) not in EXC_CLASSES or path_of(e) in env:
        _bad("raise of %s" % ast.unparse(e)[:40], s)
    for a in args:
        if isinstance(a, ast.Constant) and isinstance(a.value, str):
            continue
        if isinstance(a, ast.JoinedStr) and all(
                isinstance(v, ast.Constant) or (isinstance(v, ast.FormattedValue) and isinstance(v.value, ast.Name)
                                                and v.value.id in env and v.format_spec is None)
                for v in a.values):
            continue
        _bad("message of the raised exception: %s" % ast.unparse(a)[:40], s)


# ------------------------------------------------------------------------------------------------ parse_labels (monadic)
def _labels_item(fn, node, env):
    """X.labels[k] -> (base local X, text of X, text of k) | None"""
    if not (isinstance(node, ast.Subscript) and isinstance(node.value, ast.Attribute) and isinstance(node.value.value, ast.Name)):
        return None
    x = node.value.value.id
    if x not in env or env[x][1] != TMSG or node.value.attr != "labels":
        return None
    k, tk = pygal_m.pure(fn, node.slice, env)
    if tk != KEY:
        _bad("labels[%r]" % tk, node)
    return x, env[x][0], k


def prim(fn, node, env):
    """pygal_m.Ext.prim: -> (term of type LM T, T, None) | None"""
    it = _labels_item(fn, node, env) if isinstance(node, ast.Subscript) and isinstance(node.ctx, ast.Load) else None
    if it is not None:
        return "(lift_opt (dict_getitem %s (tm_labels %s)))" % (it[2], it[1]), LVAL, None
    if isinstance(node, ast.Call) and path_of(node.func) == "parse_label" and "parse_label" not in env:
        if node.keywords or not 1 <= len(node.args) <= 2 or any(isinstance(a, ast.Starred) for a in node.args):
            _bad("arguments of parse_label", node)
        if len(node.args) == 2:
            g2, t2 = pygal_m.pure(fn, node.args[1], env)
            g2 = {"tnum": "(Some %s)" % g2, "none": "None"}.get(t2.kind, g2 if t2 == Opt(TNUM) else None)
            if g2 is None:
                _bad("second argument of parse_label has type %r" % t2, node)
        else:
            g2 = "None"                 # the default of label_type (checked to be None where parse_label is translated)
        inner = prim(fn, node.args[0], env)
        if inner is not None:           # parse_label(self.labels[label], ..): the argument is evaluated first
            gi, ti, _ = inner
            if ti != LVAL:
                _bad("first argument of parse_label has type %r" % ti, node)
            v = fn.fresh("item")
            return "(bind %s (fun %s => lift_opt (%s %s %s)))" % (gi, v, PARSE_G, v, g2), LVAL, None
        g1, t1 = pygal_m.pure(fn, node.args[0], env)
        if t1 != LVAL:
            _bad("first argument of parse_label has type %r" % t1, node)
        return "(lift_opt (%s %s %s))" % (PARSE_G, g1, g2), LVAL, None
    return None


def mutates_target(s):
    out = set()
    for t in s.targets:
        if isinstance(t, ast.Subscript) and isinstance(t.value, ast.Attribute) and isinstance(t.value.value, ast.Name):
            out.add(t.value.value.id)           # X.attr[k] = ..
        if isinstance(t, ast.Attribute) and isinstance(t.value, ast.Name):
            out.add(t.value.id)                 # X.attr = ..
    return out


def _value_into(fn, node, env, what, store):
    """a label value computed by `node` (a primitive that may raise, or a pure expression) -> text that ends in
    store(<its Gallina text>)"""
    r = prim(fn, node, env)
    if r is not None:
        g, t, _ = r
        if t != LVAL:
            _bad("a value of type %r is stored into %s" % (t, what), node)
        v = fn.fresh("value")
        return "%s <~ lift %s ;;\n%s" % (v, g, store(v))
    g, t = pygal_m.pure(fn, node, env)
    if t != LVAL:
        _bad("a value of type %r is stored into %s" % (t, what), node)
    return store(g)


def dict_comp(fn, s, x, env, cont):
    """X.labels = {k: v for a, b in <items> if t ...}: a new dict, filled in iteration order (key, then value, then the
    store - later equal keys overwrite); X.labels is the OLD dict while the comprehension runs"""
    c = s.value
    if len(c.generators) != 1 or c.generators[0].is_async:
        _bad("dict comprehension with several / async generators", s)
    gen = c.generators[0]
    tg = gen.target
    if not (isinstance(tg, ast.Tuple) and len(tg.elts) == 2 and all(isinstance(e, ast.Name) for e in tg.elts)
            and tg.elts[0].id != tg.elts[1].id):
        _bad("target of the comprehension is not a pair of names", s)
    lg, lt = pygal_m.pure(fn, gen.iter, env)
    if lt.kind != "list" or lt.arg.kind != "pair":
        _bad("comprehension over %r" % lt, s)
    names = [e.id for e in tg.elts]
    if any(n in env for n in names):
        _bad("a comprehension variable shadows a local", s)
    vs = [fn.fresh(n) for n in names]
    acc = fn.fresh("acc")
    benv = pygal_m.rebind(pygal_m.rebind(env, names[0], vs[0], lt.arg.fst), names[1], vs[1], lt.arg.snd)

    def store(e):
        k, tk = pygal_m.pure(fn, c.key, e)
        if tk != KEY:
            _bad("comprehension key of type %r" % tk, s)
        return _value_into(fn, c.value, e, "the new dict", lambda g: "next (dict_setitem %s %s %s)" % (acc, k, g))
    if gen.ifs:
        cond = gen.ifs[0] if len(gen.ifs) == 1 else ast.BoolOp(op=ast.And(), values=list(gen.ifs))
        body = pygal_m.test(fn, cond, benv, store, lambda e: "next %s" % acc)
    else:
        body = store(benv)
    new, nx = fn.fresh("labels"), fn.fresh(x)
    return "%s <~ for_ %s (fun '(%s, %s) %s =>\n%s)\n[] ;;\nlet %s := (tmsg_set_labels %s %s) in\n%s" % (
        new, lg, vs[0], vs[1], acc, pygal_m.paren(body), nx, env[x][0], new, cont(pygal_m.rebind(env, x, nx, TMSG)))


def stmt_m(fn, s, env, cont):
    """X.labels[k] = <parse_label(..) | X.labels[k'] | pure label value>   (X the message): X is re-bound to its new content
    X.labels = {k: v for a, b in ... if ...}                                  see dict_comp"""
    if isinstance(s, ast.Assign) and len(s.targets) == 1 and isinstance(s.targets[0], ast.Attribute) \
            and isinstance(s.targets[0].value, ast.Name) and s.targets[0].attr == "labels" \
            and env.get(s.targets[0].value.id, (None, None))[1] == TMSG and isinstance(s.value, ast.DictComp):
        return dict_comp(fn, s, s.targets[0].value.id, env, cont)
    if not (isinstance(s, ast.Assign) and len(s.targets) == 1 and isinstance(s.targets[0], ast.Subscript)):
        return None
    it = _labels_item(fn, s.targets[0], env)
    if it is None:
        _bad("assignment to %s" % ast.unparse(s.targets[0])[:40], s)
    x, gx, k = it
    nx = fn.fresh(x)
    return _value_into(fn, s.value, env, "labels", lambda g: "let %s := (tmsg_setitem_labels %s %s %s) in\n%s" % (
        nx, gx, k, g, cont(pygal_m.rebind(env, x, nx, TMSG))))


EXT = Ext(
    calls={"type": c_type, "str": c_str, ENUM_NAME: c_enum, "base64.b64encode": c_b64encode},
    methods={("abytes", "decode"): m_decode, ("labels", "get"): m_labels_get,
             ("str", "upper"): _no_args(lambda g: ("(string_upper %s)" % g, STR)),
             ("pstr", "lower"): _no_args(lambda g: ("(pstr_lower %s)" % g, PSTR)),
             ("types", "items"): _no_args(lambda g: ("(dict_items %s)" % g, pygal_m.List(ITEM)))},
    attrs={("pytype", "__name__"): ("(type_name W %s)", STR), ("btype", "__name__"): ("(btype_name %s)", STR),
           ("member", "value"): ("(member_value %s)", TNUM),
           ("tmsg", "labels"): ("(tm_labels %s)", LABELS), ("tmsg", "labels_types"): ("(tm_types %s)", Opt(TYPES))},
    compare={("Eq", "pstr", "str"): "(pstr_eqb %s (pstr_of_string %s))",
             ("NotEq", "pstr", "str"): "(negb (pstr_eqb %s (pstr_of_string %s)))",
             ("Eq", "str", "pstr"): "(pstr_eqb (pstr_of_string %s) %s)",
             ("NotEq", "str", "pstr"): "(negb (pstr_eqb (pstr_of_string %s) %s))"},
    truthy={"tnum": "(negb (N.eqb %s 0%%N))", "lval": "(py_truthy W %s)"},
    expr=expr, raise_stmt=raise_stmt, raise_="None", isinst=isinst,
    prim=prim, mutates=lambda s: set(), mutates_target=mutates_target, stmt_m=stmt_m, exc_type=Ty("exc", g="unit"))

GLOBALS = {n: (c, BTYPE) for n, c in BUILTIN_TYPES.items()}
GLOBALS[ENUM_NAME] = (ENUM_NAME, ENUM)


# ------------------------------------------------------------------------------------------------ module level
def _bound_names(tree):
    """names bound at module level (imports, defs, classes, assignments; `for` / `with` / `try` at module level are rejected)"""
    out = []
    for s in tree.body:
        if isinstance(s, ast.Import):
            out += [(a.asname or a.name.split(".")[0], s) for a in s.names]
        elif isinstance(s, ast.ImportFrom):
            if any(a.name == "*" for a in s.names):
                _bad("star import", s)
            out += [(a.asname or a.name, s) for a in s.names]
        elif isinstance(s, (ast.FunctionDef, ast.AsyncFunctionDef, ast.ClassDef)):
            out.append((s.name, s))
        elif isinstance(s, (ast.Assign, ast.AnnAssign, ast.AugAssign)):
            tg = s.targets if isinstance(s, ast.Assign) else [s.target]
            for t in tg:
                if not isinstance(t, ast.Name):
                    _bad("module-level assignment to %s" % ast.unparse(t)[:40], s)
                out.append((t.id, s))
        elif isinstance(s, ast.Expr) and isinstance(s.value, ast.Constant):
            pass                       # docstring
        else:
            _bad("module-level statement %s" % type(s).__name__, s)
    return out


def _bindings_anywhere(tree, name):
    """every statement of the module that binds `name` outside a function / class body (taskiq/message.py: the module
    is not translated as a whole, only what `parse_label` means inside the method matters)"""
    out = []

    def walk(stmts):
        for s in stmts:
            if isinstance(s, ast.Import):
                out.extend(s for a in s.names if (a.asname or a.name.split(".")[0]) == name)
            elif isinstance(s, ast.ImportFrom):
                if any(a.name == "*" for a in s.names):
                    _bad("star import", s)
                out.extend(s for a in s.names if (a.asname or a.name) == name)
            elif isinstance(s, (ast.FunctionDef, ast.AsyncFunctionDef, ast.ClassDef)):
                if s.name == name:
                    out.append(s)
            else:
                if any(isinstance(x, ast.Name) and x.id == name and isinstance(x.ctx, (ast.Store, ast.Del)) for x in ast.walk(s)):
                    out.append(s)
                for fld in ("body", "orelse", "finalbody"):
                    walk(getattr(s, fld, []) or [])
                for h in getattr(s, "handlers", []) or []:
                    walk(h.body)
    walk(tree.body)
    for x in ast.walk(tree):
        if isinstance(x, ast.Global) and name in x.names:
            _bad("global %s" % name, x)
    return out


def _check_module(tree, allowed_uses):
    """the builtin / module names the translation gives a meaning to are not re-bound, `base64` and `enum` are the
    standard modules, and the enum / the table are bound once and mentioned only inside the translated definitions"""
    bound = _bound_names(tree)
    for n, s in bound:
        if n in RESERVED and not (isinstance(s, ast.Import) and n in ("base64", "enum")
                                  and any(a.name == n and a.asname is None for a in s.names)):
            _bad("the module re-binds %s" % n, s)
    have = [n for n, _ in bound]
    for n in ("base64", "enum"):
        if have.count(n) != 1:
            _bad("`import %s` is missing or repeated" % n)
    for n in (ENUM_NAME, TABLE_NAME):
        if have.count(n) != 1:
            _bad("%s is bound %d times at module level" % (n, have.count(n)))
    for s in tree.body:
        if s in allowed_uses:
            continue
        for x in ast.walk(s):
            if isinstance(x, ast.Name) and x.id in (TABLE_NAME, ENUM_NAME) and not _in_annotation(s, x):
                _bad("%s is used outside the translated definitions (line %d)" % (x.id, x.lineno), x)
            if isinstance(x, (ast.Global, ast.Nonlocal)):
                _bad("global / nonlocal", x)


def _in_annotation(stmt, name):
    """the Name occurs only inside an annotation of stmt (annotations are not evaluated into behaviour)"""
    for x in ast.walk(stmt):
        anns = []
        if isinstance(x, ast.AnnAssign):
            anns.append(x.annotation)
        if isinstance(x, ast.arg) and x.annotation is not None:
            anns.append(x.annotation)
        if isinstance(x, (ast.FunctionDef, ast.AsyncFunctionDef)) and x.returns is not None:
            anns.append(x.returns)
        for a in anns:
            if any(y is name for y in ast.walk(a)):
                return True
    return False


def _gstr(s):
    if not all(32 <= ord(c) < 127 and c != '"' for c in s):
        _bad("string %r" % s)
    return '"%s"%%string' % s


def tr_enum(cls):
    """class LabelType(enum.IntEnum) -> Gallina text of type `enum`, member names"""
    if cls.decorator_list or cls.keywords or len(cls.bases) != 1 or path_of(cls.bases[0]) != "enum.IntEnum":
        _bad("%s is not a plain `class %s(enum.IntEnum)`" % (ENUM_NAME, ENUM_NAME), cls)
    names, vals = [], []
    for s in cls.body:
        if isinstance(s, ast.Expr) and isinstance(s.value, ast.Constant) and isinstance(s.value.value, str):
            continue
        if isinstance(s, ast.Pass):
            continue
        if not (isinstance(s, ast.Assign) and len(s.targets) == 1 and isinstance(s.targets[0], ast.Name)):
            _bad("statement in the body of %s" % ENUM_NAME, s)
        n, v = s.targets[0].id, s.value
        if not re.fullmatch(r"[A-Z][A-Z0-9_]*", n) or n in names:
            _bad("member name %s (upper-case, not repeated)" % n, s)
        names.append(n)
        if isinstance(v, ast.Call) and path_of(v.func) == "enum.auto" and not v.args and not v.keywords:
            vals.append(None)
        elif isinstance(v, ast.Constant) and type(v.value) is int and v.value >= 0:
            vals.append(v.value)
        else:
            _bad("value of member %s (enum.auto() or a non-negative int literal)" % n, s)
    if not names:
        _bad("%s has no members" % ENUM_NAME, cls)
    if all(v is None for v in vals):
        return "enum_auto [%s]" % "; ".join(_gstr(n) for n in names), names
    if any(v is None for v in vals) or len(set(vals)) != len(vals):
        _bad("%s mixes enum.auto() with literals, or has aliases" % ENUM_NAME, cls)
    return "[%s]" % "; ".join("(%s, %d%%N)" % (_gstr(n), v) for n, v in zip(names, vals)), names


def _fn(unit, ret):
    return pygal.Fn(unit, dict(ret=ret))


def tr_parser(unit, node):
    """a value of the table: a builtin callable or a one-parameter lambda -> Gallina text of type `parser`"""
    p = path_of(node)
    if p in ("int", "str", "float"):
        return "(call_%s W)" % p
    if p == "base64.b64decode":
        return "(call_b64decode W)"
    if isinstance(node, ast.Lambda):
        a = node.args
        if a.vararg or a.kwarg or a.kwonlyargs or a.posonlyargs or a.defaults or a.kw_defaults or len(a.args) != 1:
            _bad("parameter list of the lambda", node)
        for x in ast.walk(node.body):
            if isinstance(x, (ast.Lambda, ast.NamedExpr, ast.Await, ast.Yield, ast.YieldFrom)):
                _bad("%s inside a lambda" % type(x).__name__, x)
        fn = _fn(unit, Opt(LVAL))
        x = a.args[0].arg
        if x in GLOBALS or x in RESERVED or x == TABLE_NAME:
            _bad("the lambda's parameter shadows %s" % x, node)
        v = fn.fresh(x)
        env = dict(GLOBALS)
        env[x] = (v, LVAL)
        g, t = tr_expr(fn, node.body, env)
        res = {"bool": "(Some (LBool %s))", "lval": "(Some %s)", "pstr": "(Some (LStr %s))"}.get(t.kind)
        if res is None:
            _bad("a lambda returning %r" % t, node)
        return "(fun %s : lval => %s)" % (v, wrap_pending(fn, fn.take_pending(), res % g))
    _bad("table value %s (int, str, float, base64.b64decode or a lambda)" % ast.unparse(node)[:40], node)


def tr_table(unit, stmt, members):
    val = stmt.value
    if not isinstance(val, ast.Dict) or not val.keys:
        _bad("%s is not a dict display" % TABLE_NAME, stmt)
    rows = []
    for k, v in zip(val.keys, val.values):
        if not (isinstance(k, ast.Attribute) and isinstance(k.value, ast.Name) and k.value.id == ENUM_NAME):
            _bad("table key %s" % (ast.unparse(k)[:40] if k is not None else "**"), stmt)
        if k.attr not in members:
            _bad("table key %s.%s: no such member (the module does not import)" % (ENUM_NAME, k.attr), k)
        rows.append("(enum_getitem %s %s, %s)" % (ENUM_NAME, _gstr(k.attr), tr_parser(unit, v)))
    return "dict_display [\n  %s] []" % ";\n  ".join(rows)


def _param(n):
    return n + "_" if n in COQ_WORDS else n


def tr_pure(unit, nd, fs):
    """one pure function of labels.py (pygal.tr_block) -> Gallina definition"""
    if not isinstance(nd, ast.FunctionDef) or nd.decorator_list:
        _bad("%s is not a plain def" % nd.name, nd)
    a = nd.args
    if a.vararg or a.kwarg or a.kwonlyargs or a.posonlyargs or a.kw_defaults:
        _bad("parameter list of %s" % nd.name, nd)
    if [x.arg for x in a.args] != [p for p, _ in fs["params"]]:
        _bad("parameters of %s are %r" % (nd.name, [x.arg for x in a.args]), nd)
    if [ast.unparse(d) for d in a.defaults] != fs.get("defaults", []):
        _bad("parameter defaults of %s are %r" % (nd.name, [ast.unparse(d) for d in a.defaults]), nd)
    for x in ast.walk(nd):
        if x is not nd and isinstance(x, (ast.FunctionDef, ast.AsyncFunctionDef, ast.Lambda, ast.ClassDef, ast.Global,
                                          ast.Nonlocal, ast.Yield, ast.YieldFrom, ast.NamedExpr, ast.Await)):
            _bad("%s inside %s" % (type(x).__name__, nd.name), x)
        if isinstance(x, ast.Name) and isinstance(x.ctx, (ast.Store, ast.Del)) and (x.id in RESERVED or x.id in GLOBALS
                                                                                     or x.id == TABLE_NAME):
            _bad("%s re-binds %s" % (nd.name, x.id), x)
    for p, _ in fs["params"]:
        if p in RESERVED or p in GLOBALS or p == TABLE_NAME:
            _bad("parameter %s of %s shadows a name the translation reads" % (p, nd.name), nd)
    fn = pygal.Fn(unit, fs)
    env = dict(GLOBALS)
    for p, t in fs["params"]:
        env[p] = (_param(p), t)
    uses_table = any(isinstance(x, ast.Name) and x.id == TABLE_NAME for x in ast.walk(nd))
    if uses_table:
        env[TABLE_NAME] = ("tbl_0", TABLE)
    body = pygal.tr_block(fn, nd.body, env, lambda e: pygal.coerce_ret(fn, "None", NONE, nd, e))
    if uses_table:      # the module-level table: if its display raised, the module did not import and no call returns
        body = "match %s with\n| Some tbl_0 =>\n%s\n| None => None\nend" % (TABLE_G, body)
    ps = " ".join("(%s : %s)" % (_param(p), pygal.gty(t)) for p, t in fs["params"])
    return "Definition %s %s : %s :=\n%s." % (fs.get("gname", nd.name), ps, pygal.gty(fs["ret"]), pygal_m.indent(body))


def tr_method(unit, nd, fs):
    """TaskiqMessage.parse_labels (pygal_m.tr_block): its value is the message after the call"""
    if not isinstance(nd, ast.FunctionDef) or nd.decorator_list:
        _bad("%s is not a plain def" % nd.name, nd)
    a = nd.args
    if a.vararg or a.kwarg or a.kwonlyargs or a.posonlyargs or a.kw_defaults or a.defaults or [x.arg for x in a.args] != ["self"]:
        _bad("parameter list of %s" % nd.name, nd)
    for x in ast.walk(nd):
        if x is not nd and isinstance(x, (ast.FunctionDef, ast.AsyncFunctionDef, ast.Lambda, ast.ClassDef, ast.Global,
                                          ast.Nonlocal, ast.Yield, ast.YieldFrom, ast.NamedExpr, ast.Await)):
            _bad("%s inside %s" % (type(x).__name__, nd.name), x)
        if isinstance(x, ast.Name) and isinstance(x.ctx, (ast.Store, ast.Del)) and x.id in ("self", "parse_label"):
            _bad("%s re-binds %s" % (nd.name, x.id), x)
    fn = pygal.Fn(unit, fs)
    env = {"self": ("self", TMSG)}
    # the message is read at every end of the function (its content is the function's value): live everywhere
    body = pygal_m.tr_block(fn, nd.body, env, lambda e: "return_v %s" % e["self"][0], {"self"})
    return "Definition %s (self : tmsg) : LM tmsg :=\nrun_fn_ret (\n%s)." % (fs["gname"], pygal_m.indent(body))


def labels_module(unit, tree, f1, functions, info, with_table, also_allowed):
    """taskiq/labels.py: the enum, (with_table:) the table, the functions of `functions` -> list of Gallina definitions.
    also_allowed: names of further top-level functions that may mention the enum / the table (not translated)"""
    out, top = [], {}
    for s in tree.body:
        if isinstance(s, (ast.FunctionDef, ast.AsyncFunctionDef, ast.ClassDef)):
            top.setdefault(s.name, s)
        elif isinstance(s, ast.AnnAssign) and isinstance(s.target, ast.Name) and s.value is not None:
            top.setdefault(s.target.id, s)
        elif isinstance(s, ast.Assign) and len(s.targets) == 1 and isinstance(s.targets[0], ast.Name):
            top.setdefault(s.targets[0].id, s)
    cls, tab = top.get(ENUM_NAME), top.get(TABLE_NAME)
    if not isinstance(cls, ast.ClassDef):
        raise Unsupported("class %s not found in %s" % (ENUM_NAME, f1))
    if not isinstance(tab, (ast.Assign, ast.AnnAssign)):
        raise Unsupported("table %s not found in %s" % (TABLE_NAME, f1))
    fdefs = []
    for fs in functions:
        nd = top.get(fs["name"])
        if not isinstance(nd, (ast.FunctionDef, ast.AsyncFunctionDef)):
            raise Unsupported("function %s not found in %s" % (fs["name"], f1))
        fdefs.append(nd)
    _check_module(tree, [cls, tab] + fdefs + [top[n] for n in also_allowed if isinstance(top.get(n), ast.FunctionDef)])
    if tree.body.index(cls) > tree.body.index(tab):
        _bad("%s is defined after the table that uses it" % ENUM_NAME, cls)
    etext, members = tr_enum(cls)
    out.append("(* %s, lines %d-%d *)\nDefinition %s : enum :=\n%s." % (f1, cls.lineno, cls.end_lineno, ENUM_NAME, etext))
    info["functions"][ENUM_NAME] = dict(lines=[cls.lineno, cls.end_lineno])
    if with_table:
        out.append("(* %s, lines %d-%d *)\nDefinition %s : option (dict parser) :=\n%s." % (
            f1, tab.lineno, tab.end_lineno, TABLE_G, tr_table(unit, tab, members)))
        info["functions"][TABLE_NAME] = dict(lines=[tab.lineno, tab.end_lineno])
    for fs, nd in zip(functions, fdefs):
        out.append("(* %s, lines %d-%d *)\n%s" % (f1, nd.lineno, nd.end_lineno, tr_pure(unit, nd, fs)))
        info["functions"][nd.name] = dict(lines=[nd.lineno, nd.end_lineno])
    return out


def translate(repo, spec):
    """-> (gallina text, info).  Same contract as pygal.translate; reads BOTH files of the unit."""
    texts, trees = {}, {}
    for f in (spec["file"], spec["file2"]):
        texts[f] = open(os.path.join(repo, f)).read()
        trees[f] = ast.parse(texts[f])
    sha = hashlib.sha256("\0".join(texts[f] for f in sorted(texts)).encode()).hexdigest()
    info = dict(file=spec["file"] + " + " + spec["file2"], sha256=sha, functions={})
    unit = pygal.Unit()
    unit.ext = spec["ext"]
    pygal._CUR["ext"] = unit.ext
    out = []
    out += labels_module(unit, trees[spec["file"]], spec["file"], spec["functions"], info, True, [])
    # ---- taskiq/message.py
    tree2, f1, f2 = trees[spec["file2"]], spec["file"], spec["file2"]
    ms = spec["method"]
    cname, mname = ms["name"].split(".")
    imp = _bindings_anywhere(tree2, "parse_label")
    if len(imp) != 1 or imp[0] not in tree2.body or not (isinstance(imp[0], ast.ImportFrom) and imp[0].module == "taskiq.labels" and imp[0].level == 0
                             and any(a.name == "parse_label" and a.asname is None for a in imp[0].names)):
        _bad("%s does not bind parse_label by `from taskiq.labels import parse_label` (exactly once)" % f2)
    cdefs = [s for s in tree2.body if isinstance(s, ast.ClassDef) and s.name == cname]
    if len(cdefs) != 1:
        raise Unsupported("class %s not found in %s" % (cname, f2))
    fields = {s.target.id: s for s in cdefs[0].body if isinstance(s, ast.AnnAssign) and isinstance(s.target, ast.Name)}
    for fld in ("labels", "labels_types"):
        if fld not in fields:
            _bad("%s has no field %s" % (cname, fld), cdefs[0])
    mdefs = [s for s in cdefs[0].body if isinstance(s, (ast.FunctionDef, ast.AsyncFunctionDef)) and s.name == mname]
    if len(mdefs) != 1:
        raise Unsupported("method %s not found in %s" % (ms["name"], f2))
    out.append("(* %s, lines %d-%d *)\n%s" % (f2, mdefs[0].lineno, mdefs[0].end_lineno, tr_method(unit, mdefs[0], ms)))
    info["functions"][ms["name"]] = dict(lines=[mdefs[0].lineno, mdefs[0].end_lineno])
    head = "(* GENERATED on every run by harness/pygal_labels.py from %s and %s (sha256 %s) - do not edit *)\n" % (f1, f2, sha[:16])
    head += ("From Coq Require Import ZArith NArith Bool String List.\nFrom Coq.Strings Require Import Byte.\n"
             "Import ListNotations.\nFrom TQ Require Import %s.\nOpen Scope string_scope.\nOpen Scope N_scope.\n" % " ".join(spec["imports"]))
    return head + "\nSection Gen.\nVariable W : pyworld.\n\n" + "\n\n".join(out) + "\n\nEnd Gen.\n", info


SPEC = dict(
    file="taskiq/labels.py", file2="taskiq/message.py", module="Gen_labels", translate=translate,
    proofs={"C09": "Src_labels_C09"}, imports=["Base64", "Labels", "PyStm", "PyPreludeLabels"], ext=EXT,
    functions=[dict(name="prepare_label", gname="prepare_label_py", params=[("label_value", LVAL)], ret=Opt(PREPARED)),
               dict(name="parse_label", gname=PARSE_G, params=[("label_value", LVAL), ("label_type", Opt(TNUM))],
                    defaults=["None"], ret=Opt(LVAL))],
    method=dict(name="TaskiqMessage.parse_labels", gname="parse_labels_py", state_var="self"))
