"""pygal unit "on_ready": TaskiqScheduler.on_ready of taskiq/scheduler/scheduler.py (C16), translated by the monadic
backend (pygal_m.py) into the statement monad of coq/theories/PyStm.v instantiated by coq/theories/PyPreludeSched.v
(effects = SchedSource.eff, the effects of the hand-written model SchedSource.on_ready).

`source` is what its two callbacks do, `self` / `self.broker` what a send through the broker does, `task` the
ScheduledTask that fired.  `AsyncKicker(...)`, `.with_labels(schedule_id=...)` and `await <kicker>.kiq(*task.args,
**task.kwargs)` are primitives (kicker.py is not translated by this unit).  Every table entry below has its Gallina
meaning in PyPreludeSched.v."""
import ast

import pygal_m  # noqa: F401
from pygal import NONE, Ext, Ty, _bad, tr_expr
from pygal_callback import _args, _hook_call

SELF = Ty("scheduler", g="sched pval")
BROKER = Ty("sbroker", g="sched pval")
SOURCE = Ty("source", g="ssource")
TASK = Ty("stask", g="fired")
NAME = Ty("sname", g="nat")
LABELS = Ty("slabels", g="labels")
SID = Ty("sid", g="nat")
ARGSV = Ty("sargs", g="nat")                 # task.args (an identifier of the list's content)
KWARGSV = Ty("skwargs", g="nat")             # task.kwargs
KICKER = Ty("skicker", g="kicker pval")
EXC = Ty("exc", g="sexc")

ATTRS = {("scheduler", "broker"): ("%s", BROKER),
         ("stask", "task_name"): ("(task_name %s)", NAME), ("stask", "labels"): ("(task_labels %s)", LABELS),
         ("stask", "schedule_id"): ("(schedule_id %s)", SID), ("stask", "args"): ("(task_args %s)", ARGSV),
         ("stask", "kwargs"): ("(task_kwargs %s)", KWARGSV)}


def new_kicker(fn, node, env):
    return "(AsyncKicker %s)" % " ".join(_args(fn, node, env, [NAME, BROKER, LABELS])), KICKER


def with_labels(fn, node, g, t, env):
    a = _args(fn, node, env, [], [("schedule_id", SID)])       # any other label key is not read
    return "(with_labels %s [label_schedule_id %s])" % (g, a[0]), KICKER


def prim(fn, node, env):
    c = _hook_call(node)
    if c is not None:
        g0, t0 = tr_expr(fn, c.func.value, env)
        m = c.func.attr
        if t0 == SOURCE and m in ("pre_send", "post_send"):
            return "(source_%s %s %s)" % (m, g0, _args(fn, c, env, [TASK])[0]), NONE, None
        _bad("await maybe_awaitable(%s)" % ast.unparse(c)[:60], node)
    if isinstance(node, ast.Await):
        c = node.value
        if isinstance(c, ast.Call) and isinstance(c.func, ast.Attribute) and c.func.attr == "kiq":
            g0, t0 = tr_expr(fn, c.func.value, env)
            if t0 == KICKER:
                if len(c.args) != 1 or not isinstance(c.args[0], ast.Starred) or len(c.keywords) != 1 \
                        or c.keywords[0].arg is not None:
                    _bad("arguments of kiq (only `*task.args, **task.kwargs` is read)", c)
                (ga, ta), (gk, tk) = tr_expr(fn, c.args[0].value, env), tr_expr(fn, c.keywords[0].value, env)
                if ta != ARGSV or tk != KWARGSV:
                    _bad("arguments of kiq have types %r, %r" % (ta, tk), c)
                return "(kicker_kiq %s %s %s)" % (g0, ga, gk), NONE, None
        _bad("await of %s" % ast.unparse(c)[:60], node)
    return None


EXT = Ext(calls={"AsyncKicker": new_kicker}, methods={("skicker", "with_labels"): with_labels}, attrs=ATTRS,
          truthy={}, prim=prim, mutates=lambda s: set(), exc_type=EXC,
          except_classes={"Exception": None, "ScheduledTaskCancelledError": "is_ScheduledTaskCancelledError"})

SPEC = dict(
    file="taskiq/scheduler/scheduler.py", module="Gen_on_ready", translate=pygal_m.translate,
    proofs={"C16": "Src_on_ready_C16"}, monad="SM pval",
    imports=["SchedSource", "PyStm", "PyPreludeSched"], ext=EXT, globals={},
    functions=[dict(name="TaskiqScheduler.on_ready", gname="on_ready_py", gparams="{pval : Type}",
                    params=[("self", SELF), ("source", SOURCE), ("task", TASK)])])
