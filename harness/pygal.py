"""pygal - a fail-closed translator from a small, typed subset of Python to Gallina.

Purpose: tie selected pure decision functions of /repo to the Coq development *by their source text*.  On every
run the function's AST (read from the repository under test) is translated into a Gallina definition that calls
only the primitives of coq/theories/PyPrelude.v; hand-written, committed proofs (coq/srcproofs/*.v) then show that
the GENERATED definition equals the hand-written model the property theorems are about (and re-state the property
theorems over the generated definition).  A change of the source that changes behaviour on ANY input breaks the
equality proof (or, if the new text leaves the subset, the translation) - not only on sampled inputs.

The subset (everything else raises Unsupported - never guessed, never skipped):
  def f(params):  [docstring]  statements
  statements   : `x = e`, `x += e`, `if t: .. [elif ..] [else: ..]`, `return [e]`, logging calls (ignored: they do
                 not influence the result), docstrings
  tests        : and / or / not, `p is None`, `p is not None`, `isinstance(p, C)`, truthiness of a value, comparisons
  expressions  : names, attribute paths of declared records, int / str / None constants, + - on int / timedelta /
                 aware datetime, comparisons, `a if t else b`, and the calls handled by tr_call below
Early returns and fall-through are translated by continuation passing (the statements after an `if` are copied into
both arms), tests by decision trees; `is None` / isinstance / truthiness tests on Optional / Union values become
`match`es that NARROW the tested access path in the arm's environment, so an unguarded use of an Optional value cannot
be translated (it would be a type error here, as it is an AttributeError / TypeError in Python).

Trusted: this file, PyPrelude.v (the meaning given to each primitive), Python's `ast` module."""
import ast
import hashlib


class Unsupported(Exception):
    pass


# ------------------------------------------------------------------------------------------------ types
class Ty:
    def __init__(self, kind, **kw):
        self.kind = kind
        self.__dict__.update(kw)

    def __eq__(self, o):
        return isinstance(o, Ty) and self.kind == o.kind and getattr(self, "arg", None) == getattr(o, "arg", None) \
            and getattr(self, "gname", None) == getattr(o, "gname", None)

    def __hash__(self):
        return hash(self.kind)

    def __repr__(self):
        return self.kind + ("(%r)" % (self.arg,) if hasattr(self, "arg") else "")      # [srcloop] arg may be a tuple


INT, BOOL, STR, NONE = Ty("int"), Ty("bool"), Ty("str"), Ty("none")
TD = Ty("timedelta")          # Z microseconds
ADT = Ty("aware_datetime")    # adt
NDT = Ty("naive_datetime")    # Z (wall clock)
DT = Ty("datetime")           # pydt = Naive | Aware
CRON = Ty("cron")             # parsed five-field expression
ZONE = Ty("zone")             # pytz zone (its name)


def Opt(t):
    return Ty("opt", arg=t)


def Union(gname, none_ctor, alts):
    """alts: {python class name: (constructor, Ty)}"""
    return Ty("union", gname=gname, none_ctor=none_ctor, alts=alts)


def Rec(gname, fields):
    """fields: {python attribute: (Gallina accessor, Ty)}"""
    return Ty("rec", gname=gname, fields=fields)


def gty(t):
    if getattr(t, "g", None):
        return t.g
    return {"int": "Z", "bool": "bool", "str": "string", "timedelta": "Z", "aware_datetime": "adt",
            "naive_datetime": "Z", "datetime": "pydt", "cron": "expr", "zone": "string"}.get(t.kind) or \
        ("option (%s)" % gty(t.arg) if t.kind == "opt" else t.gname if t.kind in ("union", "rec") else _bad("type %r" % t))


def _bad(msg, node=None):
    loc = " (line %d)" % node.lineno if node is not None and hasattr(node, "lineno") else ""
    raise Unsupported(msg + loc)


PYCLASS = {"timedelta": TD, "str": STR, "int": INT, "datetime": DT}


# ------------------------------------------------------------------------------------------------ translator
class Fn:
    """translation state of one function"""

    def __init__(self, unit, spec):
        self.unit, self.spec = unit, spec
        self.n = 0
        self.now_used = False
        self.tz_used = False
        self.ext = unit.ext                  # unit-specific primitives (see class Ext)
        self.pending = []                    # partial primitive calls of the statement being translated
        self.effects = bool(spec.get("effects"))

    def partial(self, gcall, hint="v"):
        """a primitive that may raise: bound by `match gcall with Some v => ... | None => <raise> end` around the
        rest of the function, at the statement it occurs in"""
        v = self.fresh(hint)
        self.pending.append((v, gcall))
        return v

    def take_pending(self):
        pend, self.pending = self.pending, []
        return pend

    def fresh(self, hint):
        self.n += 1
        return "%s_%d" % ("".join(c if c.isalnum() else "_" for c in hint), self.n)


def path_of(node):
    if isinstance(node, ast.Name):
        return node.id
    if isinstance(node, ast.Attribute):
        p = path_of(node.value)
        return None if p is None else p + "." + node.attr
    return None


def narrow(env, path, g, t):
    e = dict(env)
    e[path] = (g, t)
    return e


def forget(env, name):
    return {p: v for p, v in env.items() if p != name and not p.startswith(name + ".")}


class Ext:
    """unit-specific primitives; every table is consulted before the built-in ones.
      calls    {dotted name: f(fn, node, env) -> (g, Ty)}
      methods  {(receiver kind, method name): f(fn, node, g, t, env) -> (g, Ty)}
      attrs    {(kind, attribute): (template with one %s, Ty)}
      compare  {(op, left kind, right kind): template with two %s}            (result BOOL)
      truthy   {kind: template with one %s}
      isinst   f(fn, path, g, t, clsname, env, kt, kf) -> text | None          (isinstance tests)
      stmt     f(fn, stmt, env) -> (prefix text ending in "in\n" or "", new env) | None   (expression statements, awaits,
               attribute assignments: effects and re-bindings)
      fact_test f(fn, g, t, env, kt, kf) -> text      (truthiness test of a value whose Ty carries a `fact` attribute:
               a Boolean local holding the outcome of an isinstance test; used by the monadic backend pygal_m.py)
      raise_   Gallina text of "an exception left the function" for the declared return type
      binop    {(ast operator name, left kind, right kind): (template with two %s, result Ty)}     [srcloop]
      expr     f(fn, node, env) -> (g, Ty) | None     expression nodes the core does not know (consulted last)   [srcloop]
      is_none  f(fn, path, g, t, env, k_none, k_some) -> text | None     [srcgate] `p is None` / `p is not None` tests
      raise_stmt [srclabels] f(fn, stmt, env)   accepts (returns) or rejects (Unsupported) a `raise` statement of a pure
               function; the function's value is then raise_
      ([srcrun]: the expr hook is consulted by tr_expr for every node that is not a bound access path)"""

    def __init__(self, **kw):
        self.calls, self.methods, self.attrs, self.compare, self.truthy = {}, {}, {}, {}, {}
        self.isinst = self.stmt = None
        self.raise_ = "None"
        self.__dict__.update(kw)


def wrap_pending(fn, pend, text):
    for v, g in reversed(pend):
        text = "match %s with\n| Some %s =>\n%s\n| None =>\n%s\nend" % (g, v, text, fn.ext.raise_)
    return text


# ---- expressions
def tr_expr(fn, node, env):
    p = path_of(node)
    if p is not None and p in env:
        return env[p]
    # [srcgate] unit hook for expression forms outside the built-in subset (f-strings as opaque text, ...): Ext.expr
    hook = getattr(fn.ext, "expr", None)
    if hook is not None:
        r = hook(fn, node, env)
        if r is not None:
            return r
    if isinstance(node, ast.Constant):
        v = node.value
        if v is None:
            return "None", NONE
        if isinstance(v, bool):
            return ("true" if v else "false"), BOOL
        if isinstance(v, int):
            return ("(%d)" % v if v < 0 else "%d" % v), INT
        if isinstance(v, str) and all(32 <= ord(c) < 127 and c != '"' for c in v):
            return '"%s"%%string' % v, STR
        _bad("constant %r" % (v,), node)
    if isinstance(node, ast.Name):
        _bad("unknown name %s" % node.id, node)
    if isinstance(node, ast.Attribute):
        g, t = tr_expr(fn, node.value, env)
        if (t.kind, node.attr) in fn.ext.attrs:
            f, ft = fn.ext.attrs[(t.kind, node.attr)]
            return f % g, ft
        if t.kind == "rec" and node.attr in t.fields:
            acc, ft = t.fields[node.attr]
            return "(%s %s)" % (acc, g), ft
        if t == TD and node.attr == "microseconds":
            return "(td_microseconds %s)" % g, INT
        _bad("attribute .%s of %r" % (node.attr, t), node)
    if isinstance(node, ast.BinOp):
        (a, ta), (b, tb) = tr_expr(fn, node.left, env), tr_expr(fn, node.right, env)
        op = type(node.op).__name__
        tbl = {("Add", "int", "int"): ("(%s + %s)", INT), ("Sub", "int", "int"): ("(%s - %s)", INT),
               ("Add", "timedelta", "timedelta"): ("(%s + %s)", TD), ("Sub", "timedelta", "timedelta"): ("(%s - %s)", TD),
               ("Add", "aware_datetime", "timedelta"): ("(a_add %s %s)", ADT),
               ("Sub", "aware_datetime", "aware_datetime"): ("(a_sub %s %s)", TD)}
        if (op, ta.kind, tb.kind) in getattr(fn.ext, "binop", {}):       # [srcloop] unit-specific binary operators
            f, t = fn.ext.binop[(op, ta.kind, tb.kind)]
            return f % (a, b), t
        if (op, ta.kind, tb.kind) not in tbl:
            _bad("operator %s on %r, %r" % (op, ta, tb), node)
        f, t = tbl[(op, ta.kind, tb.kind)]
        return f % (a, b), t
    if isinstance(node, ast.Compare) and len(node.ops) == 1:
        (a, ta), (b, tb) = tr_expr(fn, node.left, env), tr_expr(fn, node.comparators[0], env)
        op = type(node.ops[0]).__name__
        zops = {"LtE": "(%s <=? %s)", "Lt": "(%s <? %s)", "GtE": "(%s >=? %s)", "Gt": "(%s >? %s)", "Eq": "(%s =? %s)",
                "NotEq": "(negb (%s =? %s))"}
        if (op, ta.kind, tb.kind) in fn.ext.compare:
            return fn.ext.compare[(op, ta.kind, tb.kind)] % (a, b), BOOL
        if ta.kind == tb.kind and ta.kind in ("int", "timedelta") and op in zops:
            return zops[op] % (a, b), BOOL
        if ta == ADT and tb == ADT:
            dops = {"LtE": "(a_le %s %s)", "Lt": "(a_lt %s %s)", "Eq": "(a_eq %s %s)",
                    "GtE": None, "Gt": None}
            if op in ("GtE", "Gt"):
                return {"GtE": "(a_le %s %s)", "Gt": "(a_lt %s %s)"}[op] % (b, a), BOOL
            if dops.get(op):
                return dops[op] % (a, b), BOOL
        _bad("comparison %s on %r, %r" % (op, ta, tb), node)
    if isinstance(node, ast.Call):
        return tr_call(fn, node, env)
    if isinstance(node, ast.IfExp):
        box = []

        def arm(e, sub):
            g, t = tr_expr(fn, sub, e)
            box.append(t)
            return g
        text = tr_test(fn, node.test, env, lambda e: arm(e, node.body), lambda e: arm(e, node.orelse))
        if any(t != box[0] for t in box):
            _bad("conditional expression with arms of different types %r" % box, node)
        return "(" + text + ")", box[0]
    if getattr(fn.ext, "expr", None) is not None:       # [srcloop] unit-specific expression forms (e.g. the literal [])
        r = fn.ext.expr(fn, node, env)
        if r is not None:
            return r
    _bad("expression %s" % type(node).__name__, node)


def kwargs_of(fn, node, env, allowed):
    if node.args:
        _bad("positional arguments", node)
    out = {}
    for k in node.keywords:
        if k.arg is None or k.arg not in allowed or k.arg in out:
            _bad("keyword %r" % k.arg, node)
        out[k.arg] = k.value
    return out


def is_pytz_utc(node):
    return path_of(node) == "pytz.UTC"


def tr_call(fn, node, env):
    name = path_of(node.func)
    if name in fn.ext.calls:
        return fn.ext.calls[name](fn, node, env)
    if isinstance(node.func, ast.Attribute) and name not in ("datetime.now", "pytz.timezone"):
        g0, t0 = tr_expr(fn, node.func.value, env)
        if (t0.kind, node.func.attr) in fn.ext.methods:
            return fn.ext.methods[(t0.kind, node.func.attr)](fn, node, g0, t0, env)
    if name == "datetime.now":
        kw = kwargs_of(fn, node, env, ("tz",))
        if "tz" not in kw or not is_pytz_utc(kw["tz"]):
            _bad("datetime.now without tz=pytz.UTC", node)
        if fn.now_used:
            _bad("the clock is read twice", node)
        fn.now_used = True
        return "(now_utc now0)", ADT
    if name == "timedelta":
        kw = kwargs_of(fn, node, env, ("days", "seconds", "microseconds", "milliseconds", "minutes", "hours", "weeks"))
        parts = []
        for k in ("days", "seconds", "microseconds", "milliseconds", "minutes", "hours", "weeks"):
            if k in kw:
                g, t = tr_expr(fn, kw[k], env)
                if t != INT:
                    _bad("timedelta(%s=%r)" % (k, t), node)
                parts.append(g)
            else:
                parts.append("0")
        return "(td_make %s)" % " ".join(parts), TD
    if name == "int" and len(node.args) == 1 and not node.keywords:
        a = node.args[0]
        if isinstance(a, ast.Call) and isinstance(a.func, ast.Attribute) and a.func.attr == "total_seconds" \
                and not a.args and not a.keywords:
            g, t = tr_expr(fn, a.func.value, env)
            if t == TD:
                return "(td_int_total_seconds %s)" % g, INT
        _bad("int(...) of something other than timedelta.total_seconds()", node)
    if name == "is_now" and len(node.args) == 2 and not node.keywords:
        (c, tc), (d, tdd) = tr_expr(fn, node.args[0], env), tr_expr(fn, node.args[1], env)
        if tc == CRON and tdd == ADT:
            return "(is_now %s %s)" % (c, d), BOOL
        _bad("is_now(%r, %r)" % (tc, tdd), node)
    if name == "pytz.timezone" and len(node.args) == 1 and not node.keywords:
        g, t = tr_expr(fn, node.args[0], env)
        if t == STR:
            return "(pytz_timezone %s)" % g, ZONE
        _bad("pytz.timezone(%r)" % t, node)
    if name in fn.unit.done and not node.keywords:
        sp = fn.unit.done[name]
        if len(node.args) != len(sp["params"]):
            _bad("arity of %s" % name, node)
        gs = []
        for a, (_, pt) in zip(node.args, sp["params"]):
            g, t = tr_expr(fn, a, env)
            if t != pt:
                _bad("argument of %s: %r where %r is expected" % (name, t, pt), node)
            gs.append(g)
        if sp["now"]:
            _bad("call of a clock-reading function", node)
        if sp["tz"]:
            fn.tz_used = True
        return "(%s %s)" % (name, " ".join(gs)), sp["ret"]      # inside the Section tzoff is implicit
    if isinstance(node.func, ast.Attribute):
        m = node.func.attr
        g, t = tr_expr(fn, node.func.value, env)
        if m == "replace" and t == ADT:
            kw = kwargs_of(fn, node, env, ("second", "microsecond"))
            if set(kw) != {"second", "microsecond"}:
                _bad("aware.replace needs exactly second= and microsecond=", node)
            (s, ts), (u, tu) = tr_expr(fn, kw["second"], env), tr_expr(fn, kw["microsecond"], env)
            if ts != INT or tu != INT:
                _bad("replace(second=%r, microsecond=%r)" % (ts, tu), node)
            return "(a_replace_s_us %s %s %s)" % (g, s, u), ADT
        if m == "replace" and t == NDT:
            kw = kwargs_of(fn, node, env, ("tzinfo",))
            if set(kw) != {"tzinfo"} or not is_pytz_utc(kw["tzinfo"]):
                _bad("naive.replace needs exactly tzinfo=pytz.UTC", node)
            return "(naive_as_utc %s)" % g, ADT
        if m == "astimezone" and t == ADT and len(node.args) == 1 and not node.keywords:
            z, tz = tr_expr(fn, node.args[0], env)
            if tz != ZONE:
                _bad("astimezone(%r)" % tz, node)
            fn.tz_used = True
            return "(a_astimezone tzoff %s %s)" % (g, z), ADT
        _bad("method .%s on %r" % (m, t), node)
    _bad("call of %s" % (name or type(node.func).__name__), node)


# ---- tests (decision trees)
_CUR = {"ext": Ext()}


def truthy(g, t):
    if t.kind in _CUR["ext"].truthy:
        return _CUR["ext"].truthy[t.kind] % g
    if t == BOOL:
        return g
    if t in (INT, TD):
        return "(truthy_Z %s)" % g
    if t in (STR, ZONE):
        return "(truthy_str %s)" % g
    if t in (ADT, NDT, DT, CRON) or t.kind == "rec":
        return "true"               # objects without __bool__/__len__ are true
    if t == NONE:
        return "false"
    return None


def ite(c, a, b):
    if c == "true":
        return a
    if c == "false":
        return b
    return "(if %s then\n%s\nelse\n%s)" % (c, a, b)


def tr_test(fn, node, env, kt, kf):
    if isinstance(node, ast.BoolOp):
        vs = node.values
        if len(vs) == 1:
            return tr_test(fn, vs[0], env, kt, kf)
        rest = ast.BoolOp(op=node.op, values=vs[1:])
        if isinstance(node.op, ast.And):
            return tr_test(fn, vs[0], env, lambda e: tr_test(fn, rest, e, kt, kf), kf)
        return tr_test(fn, vs[0], env, kt, lambda e: tr_test(fn, rest, e, kt, kf))
    if isinstance(node, ast.UnaryOp) and isinstance(node.op, ast.Not):
        return tr_test(fn, node.operand, env, kf, kt)
    if isinstance(node, ast.Compare) and len(node.ops) == 1 and isinstance(node.ops[0], (ast.Is, ast.IsNot)) \
            and isinstance(node.comparators[0], ast.Constant) and node.comparators[0].value is None:
        k_none, k_some = (kt, kf) if isinstance(node.ops[0], ast.Is) else (kf, kt)
        left = node.left
        p = path_of(left)
        if p is None:
            _bad("`is None` on something that is not an access path", node)
        # X.tzinfo of a datetime
        if isinstance(left, ast.Attribute) and left.attr == "tzinfo" and p not in env:
            bp = path_of(left.value)
            g, t = tr_expr(fn, left.value, env)
            if t == ADT:
                return k_some(env)
            if t == NDT:
                return k_none(env)
            if t == DT:
                w, a = fn.fresh(bp + "_wall"), fn.fresh(bp + "_aware")
                return "match %s with\n| Naive %s =>\n%s\n| Aware %s =>\n%s\nend" % (
                    g, w, k_none(narrow(env, bp, w, NDT)), a, k_some(narrow(env, bp, a, ADT)))
            _bad(".tzinfo of %r" % t, node)
        g, t = tr_expr(fn, left, env)
        # [srcgate] unit hook: `is None` on a value of a unit-specific type (an inductive with a None constructor)
        hook = getattr(fn.ext, "is_none", None)
        if hook is not None:
            r = hook(fn, p, g, t, env, k_none, k_some)
            if r is not None:
                return r
        if t == NONE:
            return k_none(env)
        if t.kind == "opt":
            if getattr(t.arg, "may_be_none", False):      # [srclabels] d.get(k) of a dict that may hold None as a value
                _bad("`is None` on an Optional whose value may itself be None (%r)" % t, node)
            v = fn.fresh(p)
            return "match %s with\n| Some %s =>\n%s\n| None =>\n%s\nend" % (
                g, v, k_some(narrow(env, p, v, t.arg)), k_none(narrow(env, p, "None", NONE)))
        if t.kind == "union":
            arms = ["| %s =>\n%s" % (t.none_ctor, k_none(narrow(env, p, "None", NONE)))]
            for cls in sorted(t.alts):
                c, at = t.alts[cls]
                v = fn.fresh(p)
                arms.append("| %s %s =>\n%s" % (c, v, k_some(narrow(env, p, v, at))))
            return "match %s with\n%s\nend" % (g, "\n".join(arms))
        # [srclabels] a dynamically typed value (Ty attribute may_be_none: e.g. a label value, whose "other object" case
        # includes Python's None) is not known to be non-None
        if getattr(t, "may_be_none", False):
            _bad("`is None` on a value of the dynamic type %r" % t, node)
        return k_some(env)          # a value of a non-optional type is not None
    if isinstance(node, ast.Call) and path_of(node.func) == "isinstance" and len(node.args) == 2 and not node.keywords:
        p = path_of(node.args[0])
        cls = path_of(node.args[1])
        if fn.ext.isinst is not None and p is not None and cls is not None:
            g, t = tr_expr(fn, node.args[0], env)
            r = fn.ext.isinst(fn, p, g, t, cls, env, kt, kf)
            if r is not None:
                return r
        if p is None or cls not in PYCLASS:
            _bad("isinstance(%s, %s)" % (ast.unparse(node.args[0]), ast.unparse(node.args[1])), node)
        want = PYCLASS[cls]
        g, t = tr_expr(fn, node.args[0], env)
        if t.kind == "union":
            arms = ["| %s =>\n%s" % (t.none_ctor, kf(narrow(env, p, "None", NONE)))]
            for c2 in sorted(t.alts):
                c, at = t.alts[c2]
                v = fn.fresh(p)
                e2 = narrow(env, p, v, at)
                arms.append("| %s %s =>\n%s" % (c, v, kt(e2) if at == want else kf(e2)))
            return "match %s with\n%s\nend" % (g, "\n".join(arms))
        if t.kind == "opt":
            v = fn.fresh(p)
            e2 = narrow(env, p, v, t.arg)
            return "match %s with\n| Some %s =>\n%s\n| None =>\n%s\nend" % (
                g, v, kt(e2) if t.arg == want else kf(e2), kf(narrow(env, p, "None", NONE)))
        if t in (ADT, NDT) and want == DT:
            return kt(env)
        return kt(env) if t == want else kf(env)
    # truthiness of a value / a Boolean expression
    p = path_of(node)
    g, t = tr_expr(fn, node, env)
    if getattr(t, "fact", None) is not None and getattr(fn.ext, "fact_test", None) is not None:
        return fn.ext.fact_test(fn, g, t, env, kt, kf)      # a Boolean that holds the outcome of an isinstance test
    if t.kind == "opt":
        if p is None:
            _bad("truthiness of an Optional expression that is not an access path", node)
        v = fn.fresh(p)
        e2 = narrow(env, p, v, t.arg)
        tv = truthy(v, t.arg)
        if tv is None:
            _bad("truthiness of %r" % t, node)
        return "match %s with\n| Some %s =>\n%s\n| None =>\n%s\nend" % (
            g, v, ite(tv, kt(e2), kf(e2)), kf(narrow(env, p, "None", NONE)))
    if t.kind == "union":
        if p is None:
            _bad("truthiness of a Union expression that is not an access path", node)
        arms = ["| %s =>\n%s" % (t.none_ctor, kf(narrow(env, p, "None", NONE)))]
        for cls in sorted(t.alts):
            c, at = t.alts[cls]
            v = fn.fresh(p)
            e2 = narrow(env, p, v, at)
            tv = truthy(v, at)
            if tv is None:
                _bad("truthiness of %r" % at, node)
            arms.append("| %s %s =>\n%s" % (c, v, ite(tv, kt(e2), kf(e2))))
        return "match %s with\n%s\nend" % (g, "\n".join(arms))
    tv = truthy(g, t)
    if tv is None:
        _bad("truthiness of %r" % t, node)
    return ite(tv, kt(env), kf(env))


# ---- statements
def coerce_ret(fn, g, t, node=None, env=None):
    if fn.effects:
        # a function translated for its effects: it must return None; its value is the list of effects so far
        if t != NONE:
            _bad("a value is returned by a function that is translated for its effects", node)
        return "(Some %s)" % env["__eff"][0]
    r = fn.spec["ret"]
    if t == r:
        return g
    if r.kind == "opt":
        if t == NONE:
            return "None"
        if t == r.arg:
            return "(Some %s)" % g
    _bad("return of %r where %r is declared" % (t, r), node)


def is_logging(node):
    return isinstance(node, ast.Expr) and isinstance(node.value, ast.Call) and isinstance(node.value.func, ast.Attribute) \
        and path_of(node.value.func.value) in ("logger", "logging") \
        and node.value.func.attr in ("debug", "info", "warning", "error", "exception", "critical", "log")


def tr_block(fn, stmts, env, k):
    if not stmts:
        return k(env)
    s, rest = stmts[0], stmts[1:]
    if isinstance(s, ast.Expr) and isinstance(s.value, ast.Constant) and isinstance(s.value.value, str):
        return tr_block(fn, rest, env, k)              # docstring
    if is_logging(s):
        return tr_block(fn, rest, env, k)              # logging does not influence the result
    if isinstance(s, ast.Return):
        if rest:
            _bad("statements after return", rest[0])
        if s.value is None:
            return coerce_ret(fn, "None", NONE, s, env)
        g, t = tr_expr(fn, s.value, env)
        return wrap_pending(fn, fn.take_pending(), coerce_ret(fn, g, t, s, env))
    if isinstance(s, ast.If):
        cont = lambda e: tr_block(fn, rest, e, k)     # noqa: E731
        if fn.pending:
            _bad("internal: pending partial calls before a test", s)
        text = tr_test(fn, s.test, env, lambda e: tr_block(fn, s.body, e, cont),
                       lambda e: tr_block(fn, s.orelse, e, cont))
        if fn.pending:
            _bad("a primitive that may raise inside a test (bind it to a variable first)", s)
        return text
    if fn.ext.stmt is not None:
        r = fn.ext.stmt(fn, s, env)
        if r is not None:
            prefix, e2 = r
            pend = fn.take_pending()
            return wrap_pending(fn, pend, prefix + tr_block(fn, rest, e2, k))
    if isinstance(s, (ast.Assign, ast.AugAssign, ast.AnnAssign)):
        if isinstance(s, ast.Assign):
            if len(s.targets) != 1:
                _bad("multiple assignment", s)
            tgt, val = s.targets[0], s.value
        elif isinstance(s, ast.AnnAssign):
            if s.value is None:
                _bad("annotation without value", s)
            tgt, val = s.target, s.value
        else:
            tgt, val = s.target, ast.BinOp(left=s.target, op=s.op, right=s.value)
            ast.copy_location(val, s)
            ast.fix_missing_locations(val)
        if not isinstance(tgt, ast.Name):
            _bad("assignment to something that is not a local variable", s)
        g, t = tr_expr(fn, val, env)
        pend = fn.take_pending()
        v = fn.fresh(tgt.id)
        e2 = forget(env, tgt.id)
        e2[tgt.id] = (v, t)
        return wrap_pending(fn, pend, "let %s := %s in\n%s" % (v, g, tr_block(fn, rest, e2, k)))
    if isinstance(s, ast.Pass):
        return tr_block(fn, rest, env, k)
    # [srclabels] `raise <expr>` in a pure function whose value says whether an exception left it (Ext.raise_): the unit
    # decides whether it can read the raised expression (Ext.raise_stmt(fn, stmt, env): returns, or raises Unsupported)
    if isinstance(s, ast.Raise) and getattr(fn.ext, "raise_stmt", None) is not None:
        if rest:
            _bad("statements after raise", rest[0])
        fn.ext.raise_stmt(fn, s, env)
        return wrap_pending(fn, fn.take_pending(), fn.ext.raise_)
    _bad("statement %s" % type(s).__name__, s)


class Unit:
    def __init__(self):
        self.done = {}
        self.ext = Ext()


def translate(repo, spec):
    """-> (gallina text, info dict).  Raises Unsupported."""
    import os
    src = open(os.path.join(repo, spec["file"])).read()
    tree = ast.parse(src)
    defs = {n.name: n for n in tree.body if isinstance(n, (ast.FunctionDef, ast.AsyncFunctionDef))}
    for c in tree.body:
        if isinstance(c, ast.ClassDef):
            for n in c.body:
                if isinstance(n, (ast.FunctionDef, ast.AsyncFunctionDef)):
                    defs[c.name + "." + n.name] = n
    unit = Unit()
    unit.ext = spec.get("ext") or Ext()
    _CUR["ext"] = unit.ext
    out, info = [], dict(file=spec["file"], sha256=hashlib.sha256(src.encode()).hexdigest(), functions={})
    uses_tz = False
    for fs in spec["functions"]:
        nd = defs.get(fs["name"])
        if nd is None:
            raise Unsupported("function %s not found in %s" % (fs["name"], spec["file"]))
        if not isinstance(nd, ast.FunctionDef) and not fs.get("effects"):
            _bad("async function", nd)     # awaits are translated only as effects of an effect-translated function
        if nd.decorator_list:
            _bad("decorated function", nd)
        a = nd.args
        if a.vararg or a.kwarg or a.kwonlyargs or a.posonlyargs or a.defaults or a.kw_defaults:
            _bad("parameter list of %s" % nd.name, nd)
        if [x.arg for x in a.args] != [p for p, _ in fs["params"]]:
            _bad("parameters of %s are %r" % (nd.name, [x.arg for x in a.args]), nd)
        fn = Fn(unit, fs)
        env = {p: (p, t) for p, t in fs["params"]}
        if fn.effects:
            env["__eff"] = ("[]", NONE)
        body = tr_block(fn, nd.body, env, lambda e: coerce_ret(fn, "None", NONE, nd, e))
        ps = ("(now0 : Z) " if fn.now_used else "") + " ".join("(%s : %s)" % (p, gty(t)) for p, t in fs["params"])
        gname = fs.get("gname", nd.name)
        out.append("(* %s, lines %d-%d *)\nDefinition %s %s : %s :=\n%s." % (
            spec["file"], nd.lineno, nd.end_lineno, gname, ps, gty(fs["ret"]), body))
        unit.done[nd.name] = dict(params=fs["params"], ret=fs["ret"], now=fn.now_used, tz=fn.tz_used)
        uses_tz = uses_tz or fn.tz_used
        info["functions"][nd.name] = dict(lines=[nd.lineno, nd.end_lineno], reads_clock=fn.now_used, uses_tzoff=fn.tz_used)
    head = "(* GENERATED on every run by harness/pygal.py from %s (sha256 %s) - do not edit *)\n" % (
        spec["file"], info["sha256"][:16])
    head += "From Coq Require Import ZArith Bool String List.\nImport ListNotations.\nFrom TQ Require Import %s.\n%s\n" % (
        " ".join(spec.get("imports", ["SchedDelay", "Civil", "Cron", "PyPrelude"])), spec.get("scope", "Open Scope Z_scope."))
    text = head + "\nSection Gen.\nVariable tzoff : string -> Z -> Z.\n\n" + "\n\n".join(out) + "\n\nEnd Gen.\n"
    return text, info
