"""Shared property-side code of the receiver family (C01 C03 C04 C05): scenario generator, raw-log facts,
Coq emission for trace acceptance, coverage counting, replay printing.  The direct oracles themselves live in
harness/props/Cxx.py (one literal transcription of each statement)."""
import json
import random
import zlib

import common as C
import pipeline_lib as PL       # the registry of parameter-annotation kinds (PARAM_KINDS / gen_param_list), shared with the pipeline family
from cli_args import add_harmless, cli_argv, pool_facts, POOL_SIZES

US = 10**6
EPS = 10_000            # 10 ms of slack on every timed clause (virtual time is exact; this only absorbs jitter)
POLL = 300_000          # the prefetcher's poll period (receiver.py: asyncio.wait(..., timeout=0.3))


# --------------------------------------------------------------------------------------------- scenarios
# malformed payloads: things a broker can really deliver that are not a task message - including the value of the
# receiver's own end-of-queue sentinel (b"-1"), empty, JSON scalars / containers, an object missing fields, wrong
# types, non-UTF-8
BAD_PAYLOADS = [b"-1", b"", b"null", b"0", b"{}", b"[]", b'"x"', b'{"task_name": "ta"}',
                b'{"task_id": 1, "task_name": "ta", "labels": [], "args": 5, "kwargs": null}', b"\xff\xfe\x00garbage", b"-1 ", b"true"]


AW_STYLES = ["future", "future", "task", "task", "awaitobj", "gencoro", "async"]
AW_DELAYS = [0, 1, 50_000, 300_000, 300_000, US, 2 * US]


def decorate(sc, prof):
    """all later generation stages; every stage draws from its own generator seeded with a hash of the BASE scenario, so each
    stage leaves the base stream and the other stages' draws bit-identical"""
    h = zlib.crc32(json.dumps(sc, sort_keys=True).encode())
    sc = decorate_flavour(sc, prof)
    sc = decorate_wire(sc, prof, random.Random(h ^ 0x5A17E))
    sc = decorate_mw(sc, prof, random.Random(h ^ 0x3C0FFEE))
    sc = decorate_config(sc, prof, random.Random(h ^ 0xC0F16))
    sc = decorate_reg(sc, prof, random.Random(h ^ 0x2E615))
    sc = decorate_dup(sc, prof, random.Random(h ^ 0xD0B1E))
    sc = decorate_params(sc, prof, random.Random(h ^ 0x9A2A35))
    sc = decorate_early(sc, prof, random.Random(h ^ 0xEA217))
    return sc


# --------------------------------------------------------------------------------------------- fifth stage: how the worker is started
def decorate_config(sc, prof, rr):
    """prof: cfg_p (default .6), api_p (default .15).  Touches nothing but the way the Receiver gets its configuration; the
    Receiver the scenario describes (A, P, N, wait_tasks_timeout, acknowledge type) is the same.
      command-line scenarios (sc["cli"]): with probability cfg_p further worker options that exist in taskiq/cli/worker/args.py
        and configure something else than the Receiver are mixed into the argv, in any position and either spelling
        (`--opt value`, `--opt=value`, short forms): the size of the pool that runs sync functions (--max-threadpool-threads,
        --max-process-pool-processes with and without --use-process-pool), --workers, --shutdown-timeout, --hardkill-count,
        --max-fails, --log-level, --log-format, --no-configure-logging, --tasks-pattern, --fs-discover, --reload,
        --do-not-use-gitignore, module names.
      directly configured scenarios that taskiq.api.run_receiver_task can express (no max_tasks_to_execute, no
        wait_tasks_timeout): with probability api_p the worker is started through the real run_receiver_task
        (sc["api"] = its keyword arguments: max_async_tasks, max_prefetch, ack_time, sync_workers, use_process_pool, ...)."""
    if sc.get("cli") is not None:
        if rr.random() < prof.get("cfg_p", .6):
            sc["cli"], _ = add_harmless(sc["cli"], rr)
        # (drawn last: the argv above is what it was)  How far the command-line path is followed: until now start_listen was only
        # asked for the keyword arguments it gives the Receiver, and the Receiver ran on the driver's own loop.  With probability
        # entry_p (default .4) the real start_listen RUNS the worker: on the event loop it creates and configures itself, with the
        # pool it builds, stopped through the signal handler it installs (cli_glue.run_start_listen).
        #   sc["entry"] = "start_listen"; sc["entry_opts"] = dict(sig: INT | TERM | HUP (which signal requests the stop),
        #   broker_as: object | factory (the broker path names a function returning the broker), again_us: the signal is
        #   repeated that much later - still below the hard-kill count)
        if rr.random() < prof.get("entry_p", .4) and not pool_facts(sc["cli"])["process_pool"]:
            sc["entry"] = "start_listen"
            eo = dict(sig=rr.choice(["INT", "INT", "TERM", "TERM", "HUP"]), broker_as=rr.choice(["object", "object", "factory"]))
            if (sc.get("stop_us") is not None or sc.get("stop_on")) and hardkill_count(sc["cli"]) >= 1 and rr.random() < .25:
                eo["again_us"] = rr.choice([0, 1, 50_000, POLL, US])
            sc["entry_opts"] = eo
    elif sc["N"] is None and sc.get("wtt_us") is None and rr.random() < prof.get("api_p", .15):
        kw = api_kwargs(sc, rr)
        sc["api"] = kw
    # (drawn last: everything above is what it was)  The host environment: the event loop of the application that runs the worker
    # already HAS a task factory of its own when listening starts (a tracing / naming factory; not an eager one) - for the
    # scenarios whose loop is the driver's (start_listen makes and configures its own).  By default the loop has none, and
    # whatever the code under test sets on the running loop takes effect (vloop.VLoop keeps the harness' tagging apart).
    if sc.get("entry") is None and rr.random() < prof.get("appfactory_p", .06):
        sc["app_task_factory"] = rr.choice(["function", "function", "task-subclass"])
    return sc


def hardkill_count(argv):
    """--hardkill-count of an argv (default 3): that many repeated signals are still a soft stop"""
    for k, t in enumerate(argv):
        head, _, val = t.partition("=")
        if head == "--hardkill-count":
            return int(val) if val else int(argv[k + 1])
    return 3


def api_kwargs(sc, rr):
    """keyword arguments for taskiq.api.run_receiver_task (its own parameter names) that describe the scenario's Receiver"""
    A = sc["A"]
    kw = dict(max_async_tasks=rr.choice([0, -1]) if A is None else A)
    if sc["P"] or rr.random() < .5:
        kw["max_prefetch"] = sc["P"]
    if sc["ack_type"] is not None or rr.random() < .3:
        kw["ack_time"] = sc["ack_type"]
    if rr.random() < .65:
        kw["sync_workers"] = rr.choice(POOL_SIZES)
    elif rr.random() < .3:
        kw["sync_workers"] = None
    if rr.random() < .12:
        kw["use_process_pool"] = True
    elif rr.random() < .2:
        kw["use_process_pool"] = False
    for k in ("validate_params", "propagate_exceptions"):
        if rr.random() < .2:
            kw[k] = True
    if rr.random() < .2:
        kw["run_startup"] = False
    return kw


def decorate_flavour(sc, prof):
    """Second generation stage, applied to a modest fraction of the scenarios (prof: aw_p, default .15; outage_p, default .06).
    All draws come from a generator seeded with a hash of the base scenario, so the base stream of every profile is what
    it was (the other scenarios are bit-identical) and the result is still a function of (seed, index).
      awaitables: ack callables / middleware hooks that are plain functions returning an awaitable which is NOT a coroutine
        object (asyncio.Future resolved later, Task from ensure_future, object with __await__, generator-based coroutine) or
        an `async def` that takes time; the acknowledgement / hook completes `us` later.  More messages become ackable.
      outage: the result backend rejects set_result for a run of consecutive messages (sometimes after hanging for a
        while), sometimes together with acknowledgements that take time."""
    aw_p, out_p = prof.get("aw_p", .15), prof.get("outage_p", .06)
    rr = random.Random(zlib.crc32(json.dumps(sc, sort_keys=True).encode()))
    k = rr.random()
    if k >= aw_p + out_p:
        return sc
    msgs = [m for m in sc["msgs"] if not m.get("probe")]
    extra = 0
    if k < aw_p:
        sc["flavour"] = "awaitables"
        style1 = rr.choice(AW_STYLES) if rr.random() < .4 else None         # one client library for the whole broker, or a mix
        for m in msgs:
            if m["ack"] == "none" and rr.random() < .6:
                m["ack"] = "sync"
            if m["ack"] != "none" and rr.random() < .8:
                m["ack"] = style1 or rr.choice(AW_STYLES)
                m["ack_us"] = rr.choice(AW_DELAYS)
                extra += m["ack_us"]
            if m["kind"] == "ok" and rr.random() < .3:
                fails = m["out"] != "ret" or (m.get("tlabel_us") is not None and m["tlabel_us"] < m["dur"])
                where = rr.choice(["pre", "post", "post", "post_save"] + (["on_error", "on_error"] if fails else []))
                m["hook_aw"] = dict(where=where, style=rr.choice(AW_STYLES[:-1]), us=rr.choice(AW_DELAYS))
                extra += m["hook_aw"]["us"]
    else:
        sc["flavour"] = "outage"
        ok = [j for j, m in enumerate(msgs) if m["kind"] == "ok"]
        if ok:
            lo = rr.choice(ok[:max(1, len(ok) // 2)])
            n = rr.choice([1, 2, 3, len(msgs), len(msgs)])
            slow_ack = rr.random() < .3
            for m in msgs[lo:lo + n]:
                if m["kind"] != "ok" or m.get("pre_fail") or m.get("post_fail") or m.get("psave_fail") or m.get("onerr_fail") \
                        or m.get("fail_exc"):
                    continue
                m["save_fail"] = True
                if rr.random() < .3 and not m.get("fail_after_us"):
                    m["fail_after_us"] = rr.choice([1, 50_000, 300_000, US])       # the backend call hangs, then fails
                    extra += m["fail_after_us"]
                if slow_ack and m["ack"] != "none":
                    m["ack"] = rr.choice(["async", "future", "task"])
                    m["ack_us"] = rr.choice(AW_DELAYS[1:])
                    extra += m["ack_us"]
    if extra:
        # everything the horizon / the probe instant were computed from has become longer by at most `extra`
        sc["horizon_us"] += extra
        if "probe_at" in sc:
            sc["probe_at"] += extra
            for m in sc["msgs"]:
                if m.get("probe"):
                    m["at"] += extra
    return sc


# --------------------------------------------------------------------------------------------- third stage: wire form
# How a VALID message looks on the wire is varied the way real producers vary it.  Every message built here is well-formed
# by construction (it has the six fields of taskiq.message.TaskiqMessage with values of the declared types, every label that
# has a declared type carries the string that type's writer produces, no declared type is outside LabelType) - nothing here
# asks the code under test whether it would accept the message.
LT = dict(any=1, int=2, str=3, float=4, bool=5, bytes=6)      # taskiq.labels.LabelType as every released client writes it
LABEL_KEYS = ["prio", "ratio", "tenant", "trace_id", "correlation_id", "x-b3-traceid", "retry_on_error", "max_retries", "queue",
              "ключ", "a.b", "X-Request-ID", "n", ""]
LABEL_VALUES = dict(int=[0, 3, -1, 10**12], str=["", "x", "007", "true", "-1", "req-ü-✓", "a b", "null"],
                    float=[0.5, -3.25, 1e-07, 2.0], bool=[True, False],
                    bytes=["", "00ff10", "68656c6c6f"],                       # hex of the bytes value
                    any=[None, [1, "a"], {"k": 1}])                           # any other type: the client writes str(value)
STAMP_VALUES = ["req-17", "", 17, 0.25, True, None, ["a", 1], {"span": {"id": "ab", "sampled": False}}, "00-4bf9-00f0-01"]
EXTRA_VALUES = [0, "", "ü✓", [1, [2, [3, {"k": None}]]], {"a": {"b": {"c": [1.5, True, None, "x"]}}}, 2**53 + 1, -1.5e300, [], {},
                {"i": 99, "dur": 5, "out": "raise"}]
TOP_FIELDS = [{"version": 2}, {"meta": {"lang": "go", "v": [1, 2]}}, {"eta": None}, {"reply_to": "q1", "priority": 5},
              {"labels_types_v2": {"a": "int"}}]
FORMATS = ["proxy-json", "proxy-json", "json", "json", "proxy-pickle"]


def task_id_of(shape, i, rr, earlier):
    if shape == "uuid":
        return "%032x" % rr.getrandbits(128)
    if shape == "unicode":
        return "задача-%d-✓" % i
    if shape == "long":
        return "t%d-" % i + "x" * 300
    if shape == "special":
        return "a b/c:%d\n\t\"q\"\\{}" % i
    if shape == "odd":
        return rr.choice(["-1", "", "0", " ", "null"])          # may coincide with another message's id: both stay valid
    if shape == "dup" and earlier:
        return rr.choice(earlier)
    return str(i)


def decorate_wire(sc, prof, rr):
    """prof: wire_p (default .2).  Touches nothing but the bytes of valid (known-task / unknown-task) messages: schedule,
    durations, outcomes, horizon stay what they were, so no existing coverage is traded away.
      sc["fmt"]: proxy-json (ProxyFormatter + JSONSerializer, the default) | json (JSONFormatter) | proxy-pickle
      m["wire"] = dict(via, tid, labels, lt, ghost, stamps, top, argform, extra, text)
        via    model: TaskiqMessage(...) through broker.formatter.dumps | kicker: the real AsyncKicker.kiq on the worker's
               broker object, with a pre_send middleware that stamps / removes labels AFTER the kicker computed labels_types;
               what broker.kick receives is the wire message | raw: a hand-written mapping (another client implementation)
        labels [[key, type name, value, typed]]: typed -> the key is in labels_types and the value is written the way
               prepare_label writes that type; else the plain value, no labels_types entry
        lt     dict | null | omit (field absent): labels_types covers all / some / none of the keys, is {} or is not there
        ghost  [[key, type]]: labels_types entries whose key is not among the labels
        stamps [[key, value]]: labels without a declared type added after typing (tracing / correlation / tenant headers)
        top    extra top-level fields (raw); argform pos | kw | mixed; extra: nested JSON passed as keyword argument
        text   dict(ascii, compact, order, proto): JSON escaping / spacing / key order, pickle protocol (raw)"""
    if rr.random() >= prof.get("wire_p", .2):
        return sc
    sc["fmt"] = rr.choice(FORMATS)
    earlier = []
    for i, m in enumerate(sc["msgs"]):
        if m["kind"] == "bad" or m.get("probe") or rr.random() >= .75:
            continue
        via = rr.choice(["model", "model", "model", "kicker", "kicker", "kicker", "kicker", "raw", "raw", "raw"])
        lt = "dict" if via == "kicker" else rr.choice(["dict", "dict", "dict", "null"] + (["omit"] if via == "raw" else []))
        keys = rr.sample(LABEL_KEYS, rr.choice([0, 0, 1, 1, 2, 3, 5]))
        mode = rr.choice(["all", "all", "some", "none"]) if lt == "dict" and via != "kicker" else ("all" if lt == "dict" else "none")
        labels = []
        for k in keys:
            tn = rr.choice(list(LT))
            typed = mode == "all" or (mode == "some" and rr.random() < .5)
            labels.append([k, tn, rr.choice(LABEL_VALUES[tn]), typed])
        free = [k for k in LABEL_KEYS if k not in keys]
        rr.shuffle(free)
        stamps = [[free.pop(), rr.choice(STAMP_VALUES)] for _ in range(rr.choice([0, 0, 1, 1, 1, 2]))]
        ghost = [[free.pop(), rr.choice(list(LT.values()))] for _ in range(rr.choice([0, 0, 0, 1, 2]))] if lt == "dict" else []
        w = dict(via=via, tid=task_id_of(rr.choice(["plain", "plain", "uuid", "uuid", "unicode", "long", "special", "odd", "dup"]),
                                         i, rr, earlier),
                 labels=labels, lt=lt, ghost=ghost, stamps=stamps,
                 # the timeout label (when the base scenario has one) is typed FLOAT or left a plain number
                 timeout_typed=lt == "dict" and (via == "kicker" or rr.random() < .5),
                 argform=rr.choice(["pos", "pos", "kw", "mixed"]))
        if rr.random() < .35:
            w["extra"] = rr.choice(EXTRA_VALUES)
        if via == "raw":
            if rr.random() < .5:
                w["top"] = rr.choice(TOP_FIELDS)
            w["text"] = dict(ascii=rr.random() < .5, compact=rr.random() < .5, order=rr.randrange(720),
                             proto=rr.choice([0, 2, 4, 5]))
        if via == "kicker":
            w["pre_send"] = rr.choice(["sync", "sync", "async"])
        earlier.append(w["tid"])
        m["wire"] = w
    return sc


def wire_cover(w, has_timeout=False):
    """how labels_types relates to the labels of one wire message (evidence only)"""
    if w["lt"] != "dict":
        return "labels_types-" + w["lt"]
    keys = [(l[0], l[3]) for l in w["labels"]] + [(s[0], False) for s in w["stamps"]] + ([("timeout", w["timeout_typed"])] if has_timeout else [])
    n, t = len(keys), sum(1 for _, ty in keys if ty)
    return "labels_types-" + ("{}-no-labels" if not n and not w["ghost"] else "{}-labels-present" if not t and not w["ghost"]
                              else "covers-all" if t == n else "covers-some" if t else "covers-none")


# --------------------------------------------------------------------------------------------- fourth stage: middlewares
MW_HOOKS = ("pre", "post", "post_save", "on_error")


def decorate_mw(sc, prof, rr):
    """prof: mw_p (default 0: opt-in, the profiles without the key are untouched).  Several recording middlewares on the
    worker's broker; per message, each hook invocation of each of them is independently an ordinary return, a suspension
    for a virtual delay, or a failure (at once, or after the delay).
      sc["mws"] = [dict(decl: def | async, hooks: [pre | post | post_save | on_error])]   (which hooks the class overrides,
                  declared `async def` or plain `def` - a plain one hands back a value or an awaitable)
      m["mw"]   = [per middleware: {hook: dict(style: sync | coro | future | task | awaitobj | gencoro, us, fail: error |
                  cancel | base, fail_at: begin | end)}]   (no entry: the hook returns at once)
    Raw log: `hook.begin i "k:hook"` when the invocation begins, `hook.end i "k:hook"` when it has REALLY finished (whoever
    awaits it, however it ends)."""
    if rr.random() >= prof.get("mw_p", 0):
        return sc
    K = rr.choice([2, 2, 3, 3, 4])
    shared = rr.choice(["post_save", "post_save", "post_save", "post", "pre", "on_error"])
    mws = []
    for k in range(K):
        hooks = {shared} if k < 2 or rr.random() < .6 else set()
        for h in MW_HOOKS:
            if rr.random() < .3:
                hooks.add(h)
        if not hooks:
            hooks.add(shared)
        mws.append(dict(decl=rr.choice(["def", "async", "async"]), hooks=[h for h in MW_HOOKS if h in hooks]))
    sc["mws"] = mws
    extra = 0

    def spec(k, susp, fail):
        d = {}
        if susp or (fail and rr.random() < .3):
            d["us"] = rr.choice([1, 50_000, 300_000, US, 2 * US, 3 * US]) if susp else rr.choice([1, 50_000])
        d["style"] = "coro" if mws[k]["decl"] == "async" else \
            rr.choice(["coro", "future", "task", "awaitobj", "gencoro"] + ([] if d.get("us") else ["sync", "sync"]))
        if fail:
            d["fail"] = fail
            d["fail_at"] = "begin" if not d.get("us") or rr.random() < .3 else "end"
        return d

    for m in sc["msgs"]:
        if m["kind"] != "ok" or m.get("probe") or rr.random() >= .7:
            continue
        fails = m["out"] != "ret" or (m.get("tlabel_us") is not None and m["tlabel_us"] < m["dur"])
        per = [{} for _ in range(K)]
        # a hook that several middlewares have: one of them fails while another is slow (either order) ...
        for h, p in (("pre", .1), ("post", .2), ("post_save", .5), ("on_error", .3)):
            having = [k for k in range(K) if h in mws[k]["hooks"]]
            if len(having) >= 2 and (h != "on_error" or fails) and rr.random() < p:
                a, b = rr.sample(having, 2)
                per[a][h] = spec(a, True, None)
                per[b][h] = spec(b, rr.random() < .3, rr.choice(["error", "error", "error", "cancel", "base"]))
        # ... and independent draws for the rest
        for k in range(K):
            for h in mws[k]["hooks"]:
                if h in per[k] or rr.random() >= .2:
                    continue
                per[k][h] = spec(k, rr.random() < .6, rr.choice(["error", "error", "cancel", "base"]) if rr.random() < .2 else None)
        for d in per:
            for s in d.values():
                extra += s.get("us", 0)
        m["mw"] = per
    if extra:
        sc["horizon_us"] += extra
        if "probe_at" in sc:
            sc["probe_at"] += extra
            for m in sc["msgs"]:
                if m.get("probe"):
                    m["at"] += extra
    return sc


# --------------------------------------------------------------------------------------------- sixth stage: when and where tasks get registered
REG_WHERE = ["shared", "shared", "shared", "shared", "decorator", "register_task", "other"]


def decorate_reg(sc, prof, rr):
    """prof: reg_p (default 0: opt-in).  Touches nothing but WHICH task a message names and WHEN / WHERE that task is registered;
    schedule, durations, outcomes, wire decoration stay what they were.  Until now the two task functions were registered on the
    worker's broker before the Receiver existed.  A real worker also finds tasks that are registered later (a plugin / lazily
    imported module) and tasks registered through the process-wide shared broker:
      sc["late"] = [dict(name, style, where, when, at_us)]
        where  shared: @async_shared_broker.task (global registry) | decorator: @broker.task on the worker's broker |
               register_task: broker.register_task(...) | other: @other_broker.task on ANOTHER broker object (its local registry: the
               worker's broker does not know it - messages naming it are unknown-task messages and must be skipped)
        when   pre: before the Receiver exists | post: after it exists, before anything is listened to | at: at the virtual instant
               at_us while listen() runs (between messages; strictly before the arrival of the first message that names the task)
      sc["shared_default"] = before | after | None: async_shared_broker.default_broker(worker's broker) before the registrations,
               after the Receiver exists, or never
      m["task"] = name: the message names that task (same function shape as the built-in one of its style).
    A message naming a task that is registered - anywhere AsyncBroker.find_task on the worker's broker looks: its own registry, then
    the global one - strictly before the message arrives is a valid known-task message."""
    if rr.random() >= prof.get("reg_p", 0):
        return sc
    msgs = sc["msgs"]
    late = []
    for t in range(rr.choice([1, 1, 2, 3])):
        where = rr.choice(REG_WHERE)
        kind = "unk" if where == "other" else "ok"
        cand = [i for i, m in enumerate(msgs) if m["kind"] == kind and not m.get("probe") and "task" not in m]
        if not cand:
            continue
        # the first message that names the task: rather a later one, so that the worker has handled something before
        i0 = rr.choice(cand[len(cand) // 2:]) if rr.random() < .7 else rr.choice(cand)
        style = msgs[i0].get("style", "async")
        name = "plugins.mod%d:late_%s" % (t, style)
        mine = [i0] + [i for i in cand if i > i0 and msgs[i].get("style", "async") == style and rr.random() < .5]
        when = rr.choice(["pre", "post", "at", "at", "at", "at"])
        at_us = None
        if when == "at":
            hi = msgs[i0]["at"] - 1
            if hi < 0:
                when = "post"
            else:
                # right after an earlier arrival, or as late as possible
                earlier = [m["at"] for m in msgs[:i0] if m["at"] <= hi]
                k = rr.random()
                if earlier and k < .6:
                    at_us = min(hi, rr.choice(earlier) + rr.choice([0, 0, 1, 50_000, POLL, US]))
                elif k < .85:
                    at_us = hi
                else:
                    at_us = rr.randrange(0, hi + 1)
        for i in mine:
            msgs[i]["task"] = name
        late.append(dict(name=name, style=style, where=where, when=when, at_us=at_us))
    if late:
        sc["late"] = late
        sc["shared_default"] = rr.choice(["before", "before", "after", None])
    return sc


# --------------------------------------------------------------------------------------------- seventh stage: one task NAME, two functions
DEP_POOL = [("state", "state"), ("state", "state"), ("context", "context"), ("conn", "custom-sync"), ("session", "custom-async"),
            ("db", "custom-gen"), ("cache", "custom-asyncgen")]
DUP_RELATIONS = ["hidden-has-more", "hidden-has-more", "hidden-has-more", "designated-has-more", "designated-has-more", "same", "disjoint"]


def dup_shapes(rr):
    """parameter lists of the two functions registered under one name: (designated, hidden, relation of their injected parameters).
    shape = dict(hints, opt_kw, varkw, deps = [[parameter, kind, form]]) - see recv_driver.shaped_function"""
    rel = rr.choice(DUP_RELATIONS)
    pool = {}
    for pname, kind in DEP_POOL:
        pool.setdefault(pname, kind)
    names = list(pool)
    rr.shuffle(names)

    def dep(pname):
        return [pname, pool[pname], rr.choice(["default", "default", "annotated"])]

    common = [dep(names.pop()) for _ in range(rr.choice([0, 0, 0, 1]) if rel != "same" else rr.choice([0, 1, 1, 2]))]
    more = [dep(names.pop()) for _ in range(rr.choice([1, 1, 2]))]
    more2 = [dep(names.pop()) for _ in range(rr.choice([1, 1, 2]))]
    a = dict(deps=[list(d) for d in common])        # designated
    b = dict(deps=[list(d) for d in common])        # hidden
    if rel == "hidden-has-more":
        b["deps"] += more
    elif rel == "designated-has-more":
        a["deps"] += more
    elif rel == "disjoint":
        a["deps"] += more
        b["deps"] += more2
    for sh in (a, b):
        rr.shuffle(sh["deps"])
        sh["hints"] = rr.random() < .7
        sh["opt_kw"] = rr.random() < .3
        sh["varkw"] = rr.random() < .08
    return a, b, rel


def dup_stale(lo, wi, rebuilt=False):
    """a Receiver may be BUILT while the hidden function is visible under the name and the designated one is not yet: the hidden
    registration is visible to the worker's broker (global registry / its own) before the Receiver exists, the designated one
    comes later.  rebuilt: taskiq.api.run_receiver_task builds a new Receiver whenever listen() failed (recv_props.gen_live) - at
    instants the scenario does not fix; then: whenever the hidden one is registered at an earlier step than the designated one
    (not back to back in one synchronous step: both pre, both post, two timers of one instant)"""
    if lo["where"] == "other":
        return False
    if rebuilt:
        rank = dict(pre=0, post=1, at=2)
        return (rank[lo["when"]], lo["at_us"] or 0) < (rank[wi["when"]], wi["at_us"] or 0)
    return lo["when"] == "pre" and wi["when"] != "pre"


def decorate_dup(sc, prof, rr):
    """prof: dup_p (default 0: opt-in).  Touches nothing but which task some valid known-task messages name and what is
    registered under that name; schedule, durations, outcomes, wire decoration stay what they were.  Until now every task name
    had ONE function.  A worker's application also OVERRIDES a task a library publishes through async_shared_broker by
    registering its own implementation under the same name on its broker (documented: local tasks have higher priority), a
    re-imported / reloaded module registers a name again, and another broker object of the process may hold the name too.
    Two entries are appended to sc["late"] (same keys as decorate_reg's, plus role and shape), both under one name:
      role designated: the function AsyncBroker.find_task(name) on the worker's broker hands out on the unchanged tree once both
                       are registered - the worker's own registry first, then the global one; within one registry the later
                       registration.  where: decorator | register_task (the worker's broker) | shared (only when the other one
                       sits on another broker object)
      role shadowed:   ANOTHER function (own parameter list, own sync / async style) that find_task never hands out.  where:
                       shared (the published default that the application overrides) | decorator / register_task (the SAME
                       local registry, strictly earlier: re-registration) | other (another broker object)
      shape            parameter lists differ: injected parameters (TaskiqDepends: TaskiqState, Context, own providers - plain,
                       async, generator, async generator; `= TaskiqDepends()` defaults or keyword-only Annotated[...] ones)
                       that only one of the two has / both have / each has its own; annotated or bare message parameters; a
                       further optional parameter; a **catch-all
      when             each of the two: pre | post | at (decorate_reg's meaning), in either order - shared first / local first,
                       both before the Receiver exists (the majority), one before and one after, both after.
    Every message naming that name arrives strictly after BOTH registrations and is a valid known-task message: it must enter
    the designated function exactly once (the driver logs the shadowed function's entries as shadow.in).
    Generated only when the profile sets dup_stale_any (C01 does since /repo 7e92bc1 repaired the stale per-name cache, defect
    D19): the hidden function visible at Receiver.__init__, the
    designated one registered only afterwards, and parameter lists whose INJECTED parameters differ - the Receiver keeps the
    dependency graph it prepared for the name (dup_stale: such pairs get equal injected parameters; under run_receiver_task,
    which builds a new Receiver after every failed listen(), that is every pair whose hidden function is registered at an earlier
    step than the designated one)."""
    if rr.random() >= prof.get("dup_p", 0):
        return sc
    msgs = sc["msgs"]
    cand = [i for i, m in enumerate(msgs) if m["kind"] == "ok" and not m.get("probe") and "task" not in m]
    if not cand:
        return sc
    i0 = rr.choice(cand[:max(1, len(cand) // 2)]) if rr.random() < .6 else rr.choice(cand)
    style = msgs[i0].get("style", "async")
    mine = [i0] + [i for i in cand if i > i0 and msgs[i].get("style", "async") == style and rr.random() < .6]
    name = "jobs.shared:process_%s" % style
    a, b, rel = dup_shapes(rr)
    lo_where = rr.choice(["shared"] * 7 + ["local", "local", "other"])
    wi_where = rr.choice(["decorator", "decorator", "register_task"] + (["shared", "shared"] if lo_where == "other" else []))
    if lo_where == "local":
        lo_where = rr.choice(["decorator", "register_task"])
    k = rr.random()
    phases = ("pre", "pre") if k < .55 else ("pre", "late") if k < .7 else ("late", "pre") if k < .8 else ("late", "late")
    hi = msgs[i0]["at"] - 1

    def late_when():
        """(when, at_us): after the Receiver exists - before anything is listened to, or at an instant while listen() runs"""
        if hi < 0 or rr.random() < .4:
            return "post", None
        earlier = [m["at"] for m in msgs[:i0] if m["at"] <= hi]
        x = rr.random()
        if earlier and x < .6:
            return "at", min(hi, rr.choice(earlier) + rr.choice([0, 0, 1, 50_000, POLL, US]))
        return "at", hi if x < .85 else rr.randrange(0, hi + 1)

    lo = dict(name=name, style=rr.choice(["async", "async", "sync"]) if rr.random() < .5 else style, where=lo_where, when="pre", at_us=None,
              role="shadowed", shape=b)
    wi = dict(name=name, style=style, where=wi_where, when="pre", at_us=None, role="designated", shape=a)
    if phases[0] == "late":
        lo["when"], lo["at_us"] = late_when()
    if phases[1] == "late":
        wi["when"], wi["at_us"] = late_when()
    same_registry = lo["where"] in ("decorator", "register_task")
    order = [lo, wi] if same_registry or rr.random() < .5 else [wi, lo]
    if same_registry:
        # re-registration in one registry: the hidden one strictly earlier (same pre / post phase: the order of the list)
        rank = dict(pre=0, post=1, at=2)
        kl, kw = (rank[lo["when"]], lo["at_us"] or 0), (rank[wi["when"]], wi["at_us"] or 0)
        if kl > kw or (kl == kw and lo["when"] == "at"):
            lo["when"], lo["at_us"] = ("post", None) if wi["when"] == "at" else (wi["when"], None)
    if dup_stale(lo, wi, prof.get("dup_rebuilt")) and not prof.get("dup_stale_any"):
        # (see the docstring; dup_stale_any: probing switch, no profile of a check sets it) equal injected parameters; everything else still differs
        lo["shape"]["deps"] = [list(d) for d in wi["shape"]["deps"]]
        rel = "same(designated-registered-after-the-Receiver-exists)"
    for i in mine:
        msgs[i]["task"] = name
    sc["late"] = (sc.get("late") or []) + order
    sc.setdefault("shared_default", rr.choice(["before", "before", "after", None]))
    sc["dup"] = dict(name=name, relation=rel, first=order[0]["role"])
    return sc


# --------------------------------------------------------------------------------------------- eighth stage: annotated message parameters
def decorate_params(sc, prof, rr):
    """prof: params_p (default 0: opt-in).  Touches nothing but which task some valid known-task messages name, the parameter list
    of that task's function and the values the messages carry for those parameters; schedule, durations, outcomes, wire decoration
    stay what they were.  Until now the task functions of the receiver family took (i: int, dur: int, out: str, extra: Any): the
    receiver's parameter validation (parse_params -> pydantic, run by run_task BEFORE its try block) only ever saw int / str / Any.
    Here 1-2 tasks get 1-3 FURTHER message parameters annotated with the kinds of the pipeline family's registry
    (pipeline_lib.PARAM_KINDS / gen_param_list; the annotation objects are pipeline_driver.ANNOT, imported - not copied): plain
    classes, generic aliases, Optional / Union, TypedDict classes, Protocol classes, NewType, Literal, Annotated, pydantic models,
    dataclasses, enums, classes whose metaclass answers / refuses isinstance(), special forms, forward references written as strings.
      sc["late"] entry: dict(name, style, where: decorator | register_task | shared, when: pre | post, shape = dict(hints, opt_kw,
                        params = dict(list = [dict(ann, by: pos | kw | kwonly | star, default, fresh)], future, ret)))
      m["task"] = name; m["params"] = [dict(val, by)] per parameter of that function: the JSON value this message carries for it (of
                        the annotated type, convertible to it, not convertible - then the function gets it as sent -, or null) and
                        how: pos (appended to args after i, dur, out) | kw / kwonly (in kwargs) | absent (not sent, the default
                        applies) | star (0-2 further positional values taken by *rest).  A message whose first three arguments go
                        by keyword (wire argform kw / mixed) passes everything by keyword.
    Every such message is a valid known-task message: whatever the annotation and the value, it must enter the function once."""
    if rr.random() >= prof.get("params_p", 0):
        return sc
    msgs = sc["msgs"]
    late = []
    for t in range(rr.choice([1, 1, 2])):
        cand = [i for i, m in enumerate(msgs) if m["kind"] == "ok" and not m.get("probe") and "task" not in m]
        if not cand:
            break
        i0 = rr.choice(cand)
        style = msgs[i0].get("style", "async")
        mine = sorted([i0] + [i for i in cand if i != i0 and msgs[i].get("style", "async") == style and rr.random() < .5])
        plist = PL.gen_param_list(rr)
        fparams = []
        for p in plist:
            fp = dict(ann=p["ann"], by="kw" if p["by"] == "absent" else p["by"])
            for k in ("default", "fresh"):
                if p.get(k):
                    fp[k] = True
            fparams.append(fp)
        P = dict(list=fparams)
        if rr.random() < .2:
            P["future"] = True
        if rr.random() < .15:
            P["ret"] = rr.choice(PL.PARAM_RET)
        name = "typed.mod%d:handle_%s" % (t, style)
        for n, i in enumerate(mine):
            m = msgs[i]
            all_kw = ((m.get("wire") or {}).get("argform", "pos")) != "pos"
            vals = []
            for p0, fp in zip(plist, fparams):
                pool = PL.PARAM_KINDS[fp["ann"]][2]
                if fp["by"] == "star":
                    v = [] if all_kw else ([rr.choice(pool) for _ in range(rr.choice([0, 1, 2]))] if n else p0["val"])
                    vals.append(dict(val=v, by="star"))
                    continue
                v = p0["val"] if n == 0 else (rr.choice(pool) if rr.random() >= .08 else None)
                by = fp["by"]
                if by == "pos" and all_kw:
                    by = "kw"
                elif by == "kw" and (p0["by"] == "absent" if n == 0 else rr.random() < .15):
                    by = "absent"
                vals.append(dict(val=v, by=by))
            m["task"] = name
            m["params"] = vals
        late.append(dict(name=name, style=style, where=rr.choice(["decorator", "decorator", "register_task", "shared"]),
                         when=rr.choice(["pre", "pre", "pre", "post"]), at_us=None,
                         shape=dict(hints=rr.random() < .8, opt_kw=rr.random() < .2, params=P)))
    if late:
        sc["late"] = (sc.get("late") or []) + late
        sc.setdefault("shared_default", rr.choice(["before", "before", "after", None]))
        sc["typed"] = [t["name"] for t in late]
    return sc


# --------------------------------------------------------------------------------------------- ninth stage: a message that comes BEFORE its task is registered
EARLY_WHERE = ["shared", "shared", "shared", "shared", "decorator", "register_task"]


def decorate_early(sc, prof, rr):
    """prof: early_p (default 0: opt-in).  Until now every registration was placed strictly before the first message that names the
    task (decorate_reg), so the worker never looked a name up BEFORE it was registered and found it LATER.  A real worker does: a
    shared task whose module is imported lazily / a plugin loaded while the worker runs, a stale message redelivered before the
    module is there.  One task T (one function, registered once, while listen() runs):
      sc["late"] entry: dict(name, style, where: shared | decorator | register_task, when: at, at_us = R, early = True)
      1-2 EARLY messages (m["early"] = True, m["task"] = T, kind ok) arrive at or before R.  The worker either skips such a message
           like an unknown-task one (its callback looked the name up before R) or executes it like a valid one (its callback started
           after R: it was queued while the slots were busy, or it is taken late) - BOTH are what the unchanged code may do and
           neither is claimed: no claim about execution / acknowledgement of an early message (Facts.must_run, ack_in_quantifier
           exclude it; "never twice" still holds under either outcome).
      1-3 LATER messages (m["task"] = T, kind ok) arrive strictly after R (arrival = the broker yields it; never before
           max(at of it and of everything in front of it) >= R + 1): ordinary valid known-task messages with the full claims.
    mode convert: existing valid messages are re-named (schedule, durations, outcomes, wire decoration stay what they were; needs
                  two candidates of one style with different arrival instants);
    mode tail:    new messages are appended behind the last one (the worker has handled the rest of the scenario before);
                  the horizon grows by what they add."""
    if rr.random() >= prof.get("early_p", 0):
        return sc
    msgs = sc["msgs"]
    n0 = sum(1 for m in msgs if not m.get("probe"))
    eff, t = [], 0
    for m in msgs:
        t = max(t, m["at"])
        eff.append(t)               # the broker yields message i not before eff[i]
    cand = [i for i in range(n0) if msgs[i]["kind"] == "ok" and "task" not in msgs[i]]
    firsts = []
    for j in cand:
        st = msgs[j].get("style", "async")
        es = [i for i in cand if i < j and msgs[i].get("style", "async") == st and eff[i] < eff[j]]
        if es:
            firsts.append((j, es))
    where = rr.choice(EARLY_WHERE)
    deltas = [0, 1, 1, 1000, 50_000, POLL, US]
    if firsts and rr.random() < prof.get("early_convert_p", .5):
        mode = "convert"
        j, es = rr.choice(firsts)
        style = msgs[j].get("style", "async")
        early = sorted(rr.sample(es, min(len(es), rr.choice([1, 1, 2]))))
        lo, hi = max(eff[i] for i in early), eff[j] - 1
        k = rr.random()
        R_ = min(hi, lo + rr.choice(deltas)) if k < .6 else hi if k < .85 else rr.randrange(lo, hi + 1)
        later = [j] + [i for i in cand if i > j and msgs[i].get("style", "async") == style and rr.random() < .5][:2]
    elif "probe_at" in sc:
        return sc
    else:
        mode = "tail"
        style = "sync" if rr.random() < .15 else "async"
        t = eff[n0 - 1] if n0 else 0
        t0 = t

        def fresh(at):
            return dict(at=at, kind="ok", style=style, dur=0 if style == "sync" else rr.choice([0, 50_000, 300_000, US]),
                        out=rr.choice(["ret", "ret", "ret", "raise", "nores"]), ack=rr.choice(["none", "sync", "sync", "async", "async"]))

        early, later, new = [], [], []
        # right behind the last message (the slots may still be busy: the early message's callback may start after the registration),
        # or when everything taken so far has finished (unless it never ends): the worker is idle, the look-up happens at once
        idle = sum(max(m["dur"], 0) + m.get("cleanup_us", 0) + m.get("fail_after_us", 0) for m in msgs[:n0]) + US
        t += rr.choice([0, 1, 50_000, POLL, US, US, idle, idle, idle])
        for _ in range(rr.choice([1, 1, 2])):
            early.append(n0 + len(new))
            new.append(fresh(t))
            t += rr.choice([0, 0, 1, 1000])
        R_ = new[-1]["at"] + rr.choice(deltas + [3 * US])
        t = R_ + 1 + rr.choice([0, 0, 1, 50_000, POLL, US])
        for _ in range(rr.choice([1, 2, 2, 3])):
            later.append(n0 + len(new))
            new.append(fresh(t))
            t += rr.choice([0, 1, 1000, POLL])
        msgs[n0:n0] = new
        sc["horizon_us"] += (t - t0) + sum(m["dur"] for m in new)
    name = "lazy.mod:deferred_%s" % style
    for i in early:
        msgs[i]["task"] = name
        msgs[i]["early"] = True
    for i in later:
        msgs[i]["task"] = name
    sc["late"] = (sc.get("late") or []) + [dict(name=name, style=style, where=where, when="at", at_us=R_, early=True)]
    sc.setdefault("shared_default", rr.choice(["before", "before", "after", None]))
    sc["early"] = dict(name=name, mode=mode)
    return sc


def count_early(rep, sc, obs):
    """evidence: what the worker really did with the messages of decorate_early (from the raw log)"""
    if not sc.get("early") or "_crash" in obs:
        return
    f = Facts(sc, obs)
    name = sc["early"]["name"]
    reg_k = next((k for k, e in enumerate(f.raw) if e[1] == "REG" and e[2] == name), None)
    for i, m in enumerate(sc["msgs"]):
        if m.get("task") != name:
            continue
        who = "early" if m.get("early") else "later"
        if i not in f.take_t:
            rep.count("early:%s-message-never-taken" % who)
            continue
        cb_k = next((k for k, e in enumerate(f.raw) if e[1] == "cb.start" and e[2] == i), None)
        if m.get("early"):
            rep.count("early:early-message-%s" % ("executed" if f.bodyin.get(i) else "not-executed") + (
                "(its-callback-started-%s-the-registration)" % ("before" if reg_k is None or cb_k < reg_k else "after") if cb_k is not None
                else "(no-callback-started)"))
        else:
            rep.count("early:later-message-%s" % ("executed" if f.bodyin.get(i) else "not-executed"))



def typed_params(sc, m):
    """[dict(ann, by, val, ...)] of one message that names a task with annotated message parameters (decorate_params): the
    function's parameters merged with what this message carries for them - the form pipeline_driver.call_args reads"""
    if not m.get("params"):
        return []
    t = next(t for t in sc["late"] if t["name"] == m["task"] and (t.get("shape") or {}).get("params"))
    return [dict(fp, val=mp["val"], by=mp["by"]) for fp, mp in zip(t["shape"]["params"]["list"], m["params"])]


# --------------------------------------------------------------------------------------------- the worker's life cycle: run_receiver_task
LIVE_EXC = ["connection", "connection", "runtime", "timeout", "os", "eof", "custom", "falsy", "group", "broker"]


def gen_live(r, prof, base=None, n_faults=None):
    """Scenario family (own random stream, the caller passes its own generator): the REAL taskiq.api.run_receiver_task coroutine
    runs for the whole scenario on the virtual loop, over the scripted broker whose listen() raises - a dropped connection - at
    scripted points; run_receiver_task then builds / starts its receiver again and the remaining messages are served to that one.
      sc["live"] = dict(kw = run_receiver_task's keyword arguments, faults = [dict(k, at_us, exc, hold)])
        fault   listen() raises LISTEN_FAULTS[exc] when it is asked for message k (k = number of messages served so far; several
                faults may have one k: the re-started listen() fails again at once), not before the virtual instant at_us (None:
                at once, i.e. right after message k-1 was taken, or as the first thing a session does); hold: not before every
                message taken so far has been started (nothing sits in the failing session's hand-over queue)
        N, wait_tasks_timeout: run_receiver_task has no such parameter; the receiver class handed to it sets them (what
                functools.partial(Receiver, max_tasks_to_execute=N) does).  A stop request sets the finish event
                run_receiver_task gave to listen().
    Every listen() call is one *session*; the LTS models one session, so these runs are decided by the direct oracles only."""
    if base is None:
        base = gen_base(r, dict(prof, cli_p=0))
    # (dup_rebuilt: run_receiver_task builds a new Receiver per failed listen() - see dup_stale; gen_relisten's supervisor does not)
    sc = decorate(base, dict(prof, api_p=0, dup_rebuilt=prof.get("dup_rebuilt", True)))
    msgs = sc["msgs"]
    n0 = sum(1 for m in msgs if not m.get("probe"))
    last_at = msgs[n0 - 1]["at"] if n0 else 0
    # upper bound on the time all the work of the scenario takes (the horizon was computed from it)
    work = sc["horizon_us"] - last_at - (sc["stop_us"] or 0) - (sc["wtt_us"] or 0)
    faults, extra = [], 0
    for _ in range(r.choice([0, 1, 1, 1, 1, 2, 2, 3]) if n_faults is None else n_faults):
        k = r.randint(0, n0)
        if r.random() < .25:
            k = r.choice([0, n0])
        elif prof.get("live_early") and r.random() < prof["live_early"]:
            # the connection drops while the first tasks are running and most of the backlog is still in the broker
            k = r.randint(1, min(n0, (sc["A"] or 3) + sc["P"] + 2))
        prev_at = msgs[k - 1]["at"] if k else 0
        mode = r.choice(["after-take", "after-take", "arrival", "mid", "idle", "idle"])
        if mode == "after-take":
            at = None
        elif mode == "arrival":
            at = msgs[k]["at"] if k < n0 else prev_at + r.choice([0, 1, POLL, US])
        elif mode == "mid":
            at = prev_at + r.choice([1, 50_000, POLL, US])
        else:
            # everything taken so far has finished (unless it never ends): the worker is idle
            at = prev_at + sum(max(m["dur"], 0) + m.get("cleanup_us", 0) for m in msgs[:k]) + r.choice([POLL, US, 2 * US])
        f = dict(k=k, at_us=at, exc=r.choice(LIVE_EXC), hold=r.random() < .6, mode=mode)
        if at is not None:
            extra += max(0, at - (msgs[k]["at"] if k < n0 else prev_at))
        if f["hold"]:
            extra += work
        faults.append(f)
    faults.sort(key=lambda f: (f["k"], -1 if f["at_us"] is None else f["at_us"]))
    kw = api_kwargs(sc, r)
    kw.pop("use_process_pool", None)        # the task functions are closures of the driver: a thread pool runs the sync ones
    if r.random() < .5:
        kw.pop("run_startup", None)
    elif r.random() < .5:
        kw["run_startup"] = True
    sc["live"] = dict(kw=kw, faults=faults)
    if extra:
        sc["horizon_us"] += extra
        if "probe_at" in sc:
            sc["probe_at"] += extra
            for m in msgs:
                if m.get("probe"):
                    m["at"] += extra
    return sc


def gen_live_cancel(r, prof):
    """Scenario family (own random stream): an application EMBEDS the receiver - the real taskiq.api.run_receiver_task coroutine
    runs as one task of its loop (gen_live) - and later CANCELS that task, the only way it has to end it, while its loop goes on
    running.  What is new next to gen_live:
      * SYNC task functions that take (virtual) time: m["style"] = "sync" with m["dur"] > 0 - the body runs in a thread of the
        pool run_receiver_task builds (the real ThreadPoolExecutor with the clock account of vloop.VPool: sc["live"]["vpool"]);
      * that pool has sync_workers = 1..3 threads, in most scenarios FEWER than the sync tasks in flight (max_async_tasks is
        larger or unlimited, the messages arrive in a burst), so sync functions wait queued inside the pool;
      * sc["live"]["cancel"] = dict(at_us) | dict(on = dict(tag, msg, plus_us)): the worker task is cancelled at an instant / that
        long after the first raw-log entry (tag, msg) - mostly while a sync body is running (others queued behind it), also
        right when a callback starts, at an arrival, after everything has finished; the run is then observed until the horizon
        (the callbacks the worker left behind go on in the application's loop).  Raw log: CANCEL, pool.shutdown wait cancel_futures.
    Most messages are ackable, all acknowledge types (when_executed more often).  0-1 listen() faults, now and then a stop request /
    budget / stream end before the cancellation."""
    base = gen_base(r, dict(prof, cli_p=0, never=0, probe=False, backlog=r.random() < .7))
    msgs = base["msgs"]
    k = r.choice([1, 1, 1, 2, 2, 3])
    base["A"] = r.choice([None, 0, k + 1, k + 2, k + 3, 8, 2, 3, 4])
    sync_p = r.choice([.3, .6, .6, .9])
    for m in msgs:
        if m["kind"] == "ok" and "tlabel_us" not in m and r.random() < sync_p:
            m["style"] = "sync"
            m["dur"] = r.choice([50_000, 300_000, US, US, 3 * US])
        if m["kind"] == "ok" and m["ack"] == "none" and r.random() < .8:
            m["ack"] = r.choice(["sync", "async"])
    base["ack_type"] = r.choice([None, "when_received", "when_executed", "when_executed", "when_executed", "when_saved"])
    t_last = msgs[-1]["at"]
    work = sum(m["dur"] + m.get("cleanup_us", 0) for m in msgs if m["dur"] > 0) + sum(m.get("fail_after_us", 0) for m in msgs)
    base["horizon_us"] = t_last + work + 8 * US + (base["stop_us"] or 0) + (base["wtt_us"] or 0)
    syncs = [i for i, m in enumerate(msgs) if m["kind"] == "ok" and m["style"] == "sync" and not m.get("pre_fail")]
    oks = [i for i, m in enumerate(msgs) if m["kind"] == "ok"]
    x = r.random()
    if syncs and x < .65:
        i = r.choice(syncs[:max(1, len(syncs) // 2)]) if r.random() < .7 else r.choice(syncs)
        d = msgs[i]["dur"]
        cancel = dict(on=dict(tag="body.in", msg=i, plus_us=r.choice([0, 1, 1000, d // 2, d // 2, d - 1, d, d + 1])))
    elif oks and x < .8:
        cancel = dict(on=dict(tag="cb.start", msg=r.choice(oks), plus_us=r.choice([0, 0, 1, 50_000, POLL])))
    elif x < .9:
        cancel = dict(at_us=r.choice(msgs)["at"] + r.choice([0, 1, 2, 50_000, POLL, US]))
    else:
        cancel = dict(at_us=r.randrange(0, t_last + work + 2 * US))
    sc = gen_live(r, prof, base=base, n_faults=r.choice([0, 0, 0, 1]))
    sc["live"]["kw"]["sync_workers"] = k
    sc["live"]["vpool"] = True
    sc["live"]["cancel"] = cancel
    # Known finding D16 (known_findings.json, signature sync_function_submitted_after_pool_shutdown; replay
    # corpus/C02/known/d16_sync_function_submitted_after_pool_shutdown.json): a callback of a SYNC-function message that is still
    # suspended BEFORE it hands its function to the pool (in an awaiting pre_execute hook, in a when_received acknowledgement
    # that takes time) when the cancellation shuts the pool down gets "cannot schedule new futures after shutdown" as its
    # result and is acknowledged without having run.  Such inputs ARE generated (the neighbourhood is explored; the property
    # file classifies exactly that shape as the known finding) unless the profile says presubmit_restricted - a property
    # that has no `known` entry for it keeps sync-function messages reaching the pool without suspending: an awaiting
    # pre_execute hook becomes a post_execute one, a when_received acknowledgement completes at once.
    if prof.get("presubmit_restricted"):
        for m in sc["msgs"]:
            if m["kind"] == "ok" and m.get("style") == "sync":
                if (m.get("hook_aw") or {}).get("where") == "pre":
                    m["hook_aw"]["where"] = "post"
                if sc["ack_type"] == "when_received" and (m.get("ack_us") or m["ack"] not in ("none", "sync", "async")):
                    m["ack"] = "async"
                    m.pop("ack_us", None)
    return sc


def gen_relisten(r, prof):
    """Scenario family (own random stream): ONE Receiver object runs SEVERAL listen() sessions.  The application supervises
    listen() itself (sc["live"]["supervisor"], run by the driver in place of run_receiver_task, which builds a new Receiver per
    attempt): it calls listen() again on the same object
      mode fault: after listen() raised because the broker's stream failed - scripted for a moment at which every slot is busy
                  (fault = dict(k, busy=True, until): the connection drops instead of delivering message k or a later one when,
                  at its arrival, max_async_tasks callbacks are inside long bodies, the runner waits for a slot and the prefetcher
                  for this fetch; needs max_prefetch >= 1), 1-3 times, at once or after a back-off, with the same finish event or a
                  fresh one; the callbacks of the failed session go on running, the remaining messages go to the new session;
                  the history ends with the saturation probe.  In a minority of the scenarios the faults are placed as in
                  gen_live (any moment).
      mode stop:  after listen() RETURNED from a graceful stop whose wait_tasks_timeout expired while 1..A-1 long callbacks were
                  in flight (the runner was waiting for a message, not for a slot); after a pause the application resumes the
                  worker with a fresh / the cleared event and a backlog arrives while those callbacks are still running.
    The worker the statements speak about is the Receiver object: its sessions share the slots.  Decided by the direct oracles
    (no LTS trace: the LTS models one session).  What Receiver does not promise is not demanded: when the raw log shows that a
    session ended while its runner held a slot no callback had been given (listen() failed / returned with the runner waiting for
    a message) that slot is gone by construction of runner(): only the limit is demanded then (Facts.slot_lost), and in mode stop
    only the limit is demanded at all."""
    mode = "stop" if r.random() < prof.get("relisten_stop_p", .25) else "fault"
    if mode == "fault":
        A, P = r.choice([1, 2, 2, 2, 3, 3, 4]), r.choice([1, 1, 1, 2, 2, 3])
    else:
        A, P = r.choice([2, 2, 3, 4]), r.choice([0, 1, 1, 2])
    base = gen_base(r, dict(prof, cli_p=0, never=0, probe=mode == "fault", stop_p=0, n_p=0, ends_p=0, backlog=True, A_choices=[A],
                            P_choices=[P], wtt_p=.2 if mode == "fault" else 0))
    msgs = base["msgs"]
    n0 = sum(1 for m in msgs if not m.get("probe"))

    def long_valid(m, durs):
        for k in ("pre_fail", "tlabel_us", "cleanup_us", "payload", "fail_exc", "fail_after_us", "post_fail", "save_fail", "psave_fail",
                  "onerr_fail"):
            m.pop(k, None)
        old = max(m["dur"], 0)
        m.update(kind="ok", style="async", dur=r.choice(durs))
        if m["ack"] not in ("none", "sync", "async"):
            m["ack"] = "sync"
        return m["dur"] - old

    extra = 0
    faults = []
    if mode == "fault":
        for m in msgs[:A]:
            extra += long_valid(m, [US, 3 * US, 3 * US, 5 * US])
            m["at"] = r.choice([0, 0, 1])
        # the rest of the backlog arrives a little later, one after the other: the broker is asked for each of them while the
        # first A are running
        gap = r.choice([1, 1000, 20_000, 50_000])
        t = max(m["at"] for m in msgs[:A])
        for m in msgs[A:n0]:
            t += gap + r.choice([0, 0, 1, 1000])
            m["at"] = t
        extra += t
        if r.random() < prof.get("relisten_any_p", .15):
            sc = gen_live(r, dict(prof, dup_rebuilt=False), base=base, n_faults=r.choice([1, 1, 2]))
            faults = sc["live"]["faults"]
            placed = "any"
        else:
            k = A + r.randint(0, P - 1)
            for _ in range(r.choice([1, 1, 1, 2, 2, 3])):
                faults.append(dict(k=min(k, n0 - 1), busy=True, until=n0, exc=r.choice(LIVE_EXC), hold=False, at_us=None, mode="all-slots-busy"))
                k += r.choice([0, 0, 1, 1, 2])
            sc = gen_live(r, dict(prof, dup_rebuilt=False), base=base, n_faults=0)
            placed = "busy"
        sv = dict(mode="fault", placed=placed, event=r.choice(["shared", "shared", "fresh"]), backoff_us=r.choice([0, 0, 1, 50_000, POLL, US]))
        extra += sv["backoff_us"] * len(faults)
    else:
        j = r.randint(1, A - 1)
        for m in msgs[:j]:
            long_valid(m, [3 * US, 5 * US, 5 * US])
            m["at"] = 0
        stop = r.choice([50_000, POLL, US])
        wtt = r.choice([0, 0, 500_000])
        pause = r.choice([0, 1, 50_000, POLL])
        t = stop + r.choice([0, 1, 400_000, US])
        for m in msgs[j:]:
            t += r.choice([0, 0, 1, 1000])
            m["at"] = t
            if m["kind"] == "ok" and r.random() < .7:
                long_valid(m, [US, US, 3 * US])
        base["stop_us"], base["wtt_us"] = stop, wtt
        base["horizon_us"] = t + stop + wtt + pause + sum(max(m["dur"], 0) + m.get("cleanup_us", 0) for m in msgs) + 10 * US
        sc = gen_live(r, dict(prof, dup_rebuilt=False), base=base, n_faults=0)
        sv = dict(mode="stop", event=r.choice(["fresh", "fresh", "cleared"]), pause_us=pause, relistens=1, old_in_flight=j)
    sc["live"]["faults"] = faults
    sc["live"]["supervisor"] = sv
    sc["live"]["kw"] = {}
    if extra:
        sc["horizon_us"] += extra
        if "probe_at" in sc:
            sc["probe_at"] += extra
            for m in sc["msgs"]:
                if m.get("probe"):
                    m["at"] += extra
    return sc


def gen_rebuild(r, prof):
    """Scenario family (own random stream): a NEW Receiver with a DIFFERENT configuration is built on the SAME broker object for
    every listening session of one process.  taskiq.api.run_receiver_task builds a new Receiver after every failed listen() (with
    the same arguments); a supervisor that restarts the worker with a lowered / raised limit, or an application that runs one
    worker after the other on its broker, does so with other arguments.  Run by a supervisor of the driver
    (sc["live"]["rebuild"]):
      configs   [[max_async_tasks, max_prefetch]] of the Receiver built for session 0, 1, ... (2-3; limits go down, up, or stay)
      prebuilt  [A, P] | None: a Receiver that somebody built on the broker EARLIER and never listened with (a health check, a
                broker's own helper)
      session s ends at the scripted point sc["live"]["faults"][s] = dict(k, at_us, exc | stop, hold): when the broker is asked for
                message k the stream fails (listen() raises, as in gen_live) or - stop - the supervisor requests a graceful stop of
                THAT session (its finish event; the session waits for its tasks, listen() returns); right after message k-1 was
                taken (its tasks in flight) or when everything taken so far has finished; then the next Receiver is built, after a
                back-off or at once, and the remaining backlog goes to it.  Every session gets more than A+P+1 long messages.
    sc["A"], sc["P"] are session 0's; session_cfg(sc, s) gives each session's own.  Every Receiver is held to the statements by
    ITS OWN configuration and its own messages (the per-session reading of gen_live).  Direct oracles only."""
    ns = r.choice([2, 2, 2, 3])
    x = r.random()
    As = [r.choice([1, 1, 2, 2, 3, 4]) for _ in range(ns)]
    if x < .5:
        As.sort(reverse=True)           # the limit is lowered from session to session
    elif x < .65:
        As.sort()
    Ps = [r.choice([0, 0, 1, 1, 2, 3]) for _ in range(ns)]
    if r.random() < .3:
        Ps = [Ps[0]] * ns
    configs = [[a, p] for a, p in zip(As, Ps)]
    mA, mP = max(As), max(Ps)
    base = gen_base(r, dict(prof, cli_p=0, never=0, probe=False, stop_p=0, n_p=0, wtt_p=0, ends_p=prof.get("ends_p", .2), backlog=True,
                            backlog_extra=(ns - 1) * (mA + mP + 3), A_choices=[mA], P_choices=[mP]))
    base["A"], base["P"] = configs[0]
    sc = gen_live(r, dict(prof, dup_rebuilt=True), base=base, n_faults=0)
    msgs = sc["msgs"]
    n0 = len(msgs)
    work = sum(max(m["dur"], 0) + m.get("cleanup_us", 0) + m.get("fail_after_us", 0) for m in msgs)
    faults, k, extra = [], 0, 0
    for s in range(ns - 1):
        a, p = configs[s]
        k = min(k + a + p + 1 + r.choice([0, 1, 1, 2, 3]), n0 - (mA + mP + 3))
        idle = r.random() < .3
        at = None if not idle else msgs[k - 1]["at"] + work + US
        f = dict(k=k, at_us=at, hold=r.random() < .5, mode="idle" if idle else "after-take")
        if r.random() < .45:
            f["stop"] = True
            f["exc"] = "graceful-stop"
        else:
            f["exc"] = r.choice(LIVE_EXC)
        extra += work + US
        faults.append(f)
    sc["live"]["faults"] = faults
    sc["live"]["kw"] = {}
    sc["live"]["rebuild"] = dict(configs=configs, prebuilt=[r.choice([1, 2, 4, 8]), r.choice([0, 1, 3])] if r.random() < .25 else None,
                                 backoff_us=r.choice([0, 0, 1, 50_000, POLL, US]))
    extra += sc["live"]["rebuild"]["backoff_us"] * len(faults)
    sc["horizon_us"] += extra
    return sc


def session_cfg(sc, s):
    """(max_async_tasks, max_prefetch) of the Receiver that listens in session s: the scenario's, unless a new Receiver with its own
    configuration is built per session (gen_rebuild)"""
    rb = (sc.get("live") or {}).get("rebuild")
    if not rb:
        return sc["A"], sc["P"]
    a, p = rb["configs"][min(s, len(rb["configs"]) - 1)]
    return a, p


def is_live(sc):
    return sc.get("live") is not None


def same_receiver(sc):
    """one Receiver object over all listen() sessions of the run (gen_relisten)"""
    return bool((sc.get("live") or {}).get("supervisor"))


# known finding D16 (known_findings.json): shared by the property files that see runs of gen_live_cancel
SIG_D16 = "sync_function_submitted_after_pool_shutdown"
POOL_CLOSED = "RuntimeError: cannot schedule new futures after shutdown"


def d16_facts(sc, f, i, ack_t):
    """the elements of D16's signature for message i whose ack callable was invoked at ack_t (all read from the scenario and
    the raw log): live run_receiver_task run | the worker task was cancelled before that ack | sync function | it never
    started | the error its result carries is the RuntimeError of a shut-down executor | when_executed / when_saved"""
    return dict(live=is_live(sc), worker_cancelled_before_ack=f.cancel_t is not None and ack_t is not None and ack_t >= f.cancel_t,
                sync=sc["msgs"][i].get("style") == "sync", never_started=not f.bodyin.get(i), error=f.err.get(i),
                ack_type=sc.get("ack_type") or "when_saved")


def sig_d16(fl):
    """EXACTLY the known finding, nothing wider (a cancelled pool future - CancelledError - is not it)"""
    d = (fl.get("sig") or {}).get("d16") or {}
    return (d.get("live") is True and d.get("worker_cancelled_before_ack") is True and d.get("sync") is True
            and d.get("never_started") is True and d.get("error") == POOL_CLOSED
            and d.get("ack_type") in ("when_executed", "when_saved"))


def d16_registered(pid):
    return any(k.get("property") == pid and k.get("status") == "known" and k.get("signature") == SIG_D16 for k in C.load_known())


def mw_pre_fails(m):
    """a pre_execute hook of one of the extra middlewares fails: the message never reaches its task function (C10's business)"""
    return any(d.get("pre", {}).get("fail") for d in m.get("mw") or [])


def ack_in_quantifier(m):
    """messages an exactly-one-acknowledgement clause speaks about: well-formed, known task, delivered with an acknowledge
    callback, no failing middleware hook (hook failure is outside the quantifier; a failing post_save hook is swallowed by the
    code but stays exempt), result-backend failure = an ordinary exception (not CancelledError / another BaseException)"""
    return (m["kind"] == "ok" and m.get("ack", "none") != "none" and not m.get("probe") and not m.get("early")
            and not (m.get("pre_fail") or m.get("post_fail") or m.get("onerr_fail") or m.get("psave_fail"))
            and m.get("fail_exc") not in ("cancel", "base")
            and not any(s.get("fail") for d in m.get("mw") or [] for s in d.values()))


def count_inputs(rep, sc):
    """evidence distribution of the second-stage input kinds"""
    rep.count("input-flavour:" + sc.get("flavour", "base"))
    for m in sc["msgs"]:
        if m.get("ack", "none") not in ("none", "sync", "async") or m.get("ack_us"):
            rep.count("ack-callable:%s%s" % (m["ack"], "/completes-later" if m.get("ack_us") else "/completes-at-once"))
        if m.get("hook_aw"):
            h = m["hook_aw"]
            rep.count("hook-returning-awaitable:%s/%s%s" % (h["where"], h["style"], "/completes-later" if h.get("us") else ""))
    if sc.get("flavour") == "outage":
        rep.count("backend-outage:%d-messages" % min(sum(1 for m in sc["msgs"] if m.get("save_fail")), 6))
    if sc.get("fmt"):
        rep.count("wire:scenario-with-varied-wire-form")
        rep.count("wire:formatter=" + sc["fmt"])
    tids = [m["wire"]["tid"] if m.get("wire") else str(i) for i, m in enumerate(sc["msgs"]) if m["kind"] != "bad"]
    if len(set(tids)) < len(tids):
        rep.count("wire:scenario-with-duplicate-task-ids")
    for i, m in enumerate(sc["msgs"]):
        w = m.get("wire")
        if not w:
            continue
        rep.count("wire:via=" + w["via"])
        rep.count("wire:" + wire_cover(w, m.get("tlabel_us") is not None))
        if w["stamps"]:
            rep.count("wire:label-without-declared-type-beside-typed-ones" if w["lt"] == "dict" else "wire:stamped-label")
            if w["via"] == "kicker":
                rep.count("wire:label-stamped-by-pre_send-middleware-after-typing")
        if w["ghost"]:
            rep.count("wire:labels_types-entry-for-absent-label")
        for l in w["labels"]:
            rep.count("wire:label-%s:%s" % ("typed" if l[3] else "untyped", l[1]))
        if w["tid"] != str(i):
            rep.count("wire:task-id-not-plain")
        rep.count("wire:args=" + w["argform"])
        if "extra" in w:
            rep.count("wire:nested-json-argument")
        if w.get("top"):
            rep.count("wire:extra-top-level-field")
    if sc.get("cli") is not None:
        pf = pool_facts(sc["cli"])
        if pf["threads"] is not None and not pf["process_pool"]:
            rep.count("config:cli-sync-pool-size-given:--max-threadpool-threads")
        if pf["procs"] is not None:
            rep.count("config:cli-sync-pool-size-given:--max-process-pool-processes" +
                      ("+--use-process-pool" if pf["process_pool"] else "-but-thread-pool-in-use"))
        known = ("--receiver", "--ack-type", "--max-async-tasks", "--max-prefetch", "--max-tasks-per-child", "--wait-tasks-timeout",
                 "--no-parse", "--no-propagate-errors")
        more = [t.partition("=")[0] for t in sc["cli"][1:] if t.startswith("-") and not t.lstrip("-").replace(".", "", 1).isdigit()
                and t.partition("=")[0] not in known]
        rep.count("config:cli-worker-options-beside-the-receiver's:%s" % (min(len(more), 5) if len(more) < 5 else "5+"))
        for t in more:
            rep.count("config:cli-option:" + t)
    if sc.get("entry"):
        eo = sc.get("entry_opts") or {}
        rep.count("entry:start_listen-runs-the-worker-on-the-loop-it-created")
        rep.count("entry:stop-by-signal-handler=SIG%s%s" % (eo.get("sig", "INT"), "/repeated" if eo.get("again_us") is not None else "")
                  if sc.get("stop_us") is not None or sc.get("stop_on") else "entry:no-stop-request")
        rep.count("entry:broker-path-names-" + eo.get("broker_as", "object"))
    if sc.get("app_task_factory"):
        rep.count("host:the-application's-loop-has-its-own-task-factory=" + sc["app_task_factory"])
    if sc.get("api") is not None:
        a = sc["api"]
        rep.count("config:api-sync_workers=%s" % ("given" if a.get("sync_workers") else "default"))
        if a.get("use_process_pool"):
            rep.count("config:api-use_process_pool")
    if sc.get("stop_on"):
        rep.count("stop-relative-to-event:%s" % sc["stop_on"]["tag"])
    for t in sc.get("late") or []:
        if t.get("role"):
            continue
        rep.count("registration:%s/%s" % (t["where"], t["when"] if t["when"] != "at" else "while-listening"))
    if sc.get("early"):
        t = next(t for t in sc["late"] if t.get("early"))
        rep.count("early:scenario-with-messages-naming-a-task-before-AND-after-its-registration")
        rep.count("early:mode=" + sc["early"]["mode"])
        rep.count("early:registered-through=" + t["where"])
        rep.count("early:early-messages=%d" % sum(1 for m in sc["msgs"] if m.get("early")))
        rep.count("early:later-messages=%d" % sum(1 for m in sc["msgs"] if m.get("task") == t["name"] and not m.get("early")))
    if sc.get("typed"):
        rep.count("task-parameters:scenario-with-annotated-message-parameters")
        for t in sc["late"]:
            P = (t.get("shape") or {}).get("params")
            if not P or t.get("role"):
                continue
            rep.count("task-parameters:function-with-%d(%s,%s)" % (len(P["list"]), t["style"], t["where"]))
            if P.get("future"):
                rep.count("task-parameters:from-__future__-import-annotations")
            if P.get("ret"):
                rep.count("task-parameters:return-annotation:" + P["ret"])
        for m in sc["msgs"]:
            valued = False
            for p in typed_params(sc, m):
                rep.count("task-parameter:annotation:" + p["ann"])
                rep.count("task-parameter:annotation-group:" + PL.PARAM_KINDS[p["ann"]][0])
                rep.count("task-parameter:passed:%s%s" % (p["by"], ",null" if p["val"] is None else ""))
                if p["by"] != "absent" and p["val"] is not None and p["val"] != [] and PL.param_raises_on_isinstance(p):
                    valued = True
            if valued:
                rep.count("task-parameters:message-carries-a-value-for-a-class-that-refuses-isinstance(TypedDict/Protocol/metaclass)")
    if sc.get("dup"):
        d = sc["dup"]
        lo = next(t for t in sc["late"] if t.get("role") == "shadowed")
        wi = next(t for t in sc["late"] if t.get("role") == "designated")
        wh = lambda t: t["when"] if t["when"] != "at" else "while-listening"
        rep.count("override:scenario-with-one-task-name-registered-with-two-functions")
        rep.count("override:messages-naming-it=%d" % min(4, sum(1 for m in sc["msgs"] if m.get("task") == d["name"])))
        rep.count("override:hidden=%s/%s,designated=%s/%s" % (lo["where"], wh(lo), wi["where"], wh(wi)))
        rep.count("override:registered-first=" + d["first"])
        rep.count("override:injected-parameters=" + d["relation"])
        rep.count("override:styles:designated=%s,hidden=%s" % (wi["style"], lo["style"]))
        for t, who in ((lo, "hidden"), (wi, "designated")):
            for _, kind, form in t["shape"]["deps"]:
                rep.count("override:%s-injected-parameter:%s/%s" % (who, kind, form))
            if t["shape"].get("varkw"):
                rep.count("override:%s-has-**catch-all" % who)
            if t["shape"].get("opt_kw"):
                rep.count("override:%s-has-further-optional-parameter" % who)
            if not t["shape"].get("hints", True):
                rep.count("override:%s-message-parameters-not-annotated" % who)
    if any(not t.get("role") for t in sc.get("late") or []):
        rep.count("registration:scenario-with-late-or-shared-task")
        rep.count("registration:shared-broker-default=%s" % sc.get("shared_default"))
    if same_receiver(sc):
        sv = sc["live"]["supervisor"]
        rep.count("relisten:one-Receiver-object-over-several-listen()-sessions")
        rep.count("relisten:mode=%s%s" % (sv["mode"], "/faults-placed-%s" % sv["placed"] if sv.get("placed") else ""))
        rep.count("relisten:finish-event=%s" % sv.get("event"))
        if sv["mode"] == "fault":
            rep.count("relisten:back-off=%s" % ("none" if not sv.get("backoff_us") else "some"))
            rep.count("relisten:faults-scripted=%d" % len(sc["live"]["faults"]))
        else:
            rep.count("relisten:stop-with-%d-of-%d-slots-busy,wait_tasks_timeout=%s" % (sv["old_in_flight"], sc["A"], sc["wtt_us"]))
    elif is_live(sc) and sc["live"].get("rebuild"):
        rb = sc["live"]["rebuild"]
        cf = rb["configs"]
        rep.count("rebuild:a-new-Receiver-with-its-own-configuration-per-session-on-one-broker")
        rep.count("rebuild:sessions-scripted=%d" % len(cf))
        for (a0, p0), (a1, p1) in zip(cf, cf[1:]):
            rep.count("rebuild:max_async_tasks-%s,max_prefetch-%s" % ("lowered" if a1 < a0 else "raised" if a1 > a0 else "same",
                                                                       "lowered" if p1 < p0 else "raised" if p1 > p0 else "same"))
        for f in sc["live"]["faults"]:
            rep.count("rebuild:session-ends-by-%s/%s" % ("graceful-stop" if f.get("stop") else "listen()-failing", f["mode"]))
        rep.count("rebuild:a-Receiver-built-earlier-on-the-broker-that-never-listened=%s" % bool(rb.get("prebuilt")))
    elif is_live(sc):
        fl = sc["live"]["faults"]
        rep.count("live:run_receiver_task-runs-for-the-whole-scenario")
        rep.count("live:listen-faults-scripted=%d" % len(fl))
        for f in fl:
            rep.count("live:fault-point=%s%s" % (f.get("mode", "?"), "/held-until-queue-empty" if f.get("hold") else ""))
            rep.count("live:fault-exception=" + f["exc"])
        cn = sc["live"].get("cancel")
        if cn:
            rep.count("live-cancel:worker-task-cancelled-" + ("at-an-instant" if not cn.get("on") else "relative-to-%s" % cn["on"]["tag"]))
            rep.count("live-cancel:sync_workers=%s" % sc["live"]["kw"].get("sync_workers"))
            rep.count("live-cancel:sync-functions-taking-time=%s" % min(6, sum(1 for m in sc["msgs"] if m.get("style") == "sync" and m["dur"] > 0)))
        rep.count("live:trigger=" + ("stop" if sc.get("stop_us") is not None or sc.get("stop_on") else "-") + ("+N" if sc["N"] else "")
                  + ("+end" if sc.get("ends") else "") + ("+probe" if "probe_at" in sc else ""))
    if sc.get("mws"):
        rep.count("middlewares:%d-extra" % len(sc["mws"]))
        for mw in sc["mws"]:
            rep.count("middleware-hooks-declared:" + mw["decl"])
        for m in sc["msgs"]:
            for k, d in enumerate(m.get("mw") or []):
                for h, s in d.items():
                    rep.count("mw-hook:%s/%s/%s/%s" % (h, s["style"], "suspends" if s.get("us") else "at-once",
                                                       ("fails-%s-%s" % (s["fail"], s["fail_at"])) if s.get("fail") else "returns"))
            per = m.get("mw") or []
            for h in MW_HOOKS:
                ss = [d[h] for d in per if h in d]
                if any(x.get("fail") for x in ss) and any(x.get("us") and not x.get("fail") for x in ss):
                    rep.count("message:one-%s-hook-fails-another-suspends" % h)


def gen_scenario(r, prof):
    """prof: dict(limited_only, backlog, backlog_extra, never, stop_p, n_p, ends_p, probe, faults, wtt_p, slowcancel, abort_p, equal_p, A_choices, P_choices, aw_p, outage_p,
    wire_p, mw_p, cfg_p, api_p)"""
    return decorate(gen_base(r, prof), prof)


def gen_base(r, prof):
    A = r.choice(prof.get("A_choices") or ([1, 1, 2, 2, 3, 4] if prof.get("limited_only") else [None, 0, 1, 1, 1, 2, 2, 3, 4]))
    P = r.choice(prof.get("P_choices") or [0, 0, 1, 1, 2, 3, 4])
    a_eff = A if A else 4
    N = r.choice([1, 2, 2, 3, 4, 5, 6]) if r.random() < prof.get("n_p", .25) else None
    wtt = r.choice([0, 500_000, 2 * US, 3 * US]) if r.random() < prof.get("wtt_p", .3) else None
    if prof.get("backlog"):
        x = prof.get("backlog_extra", 0)        # (opt-in: a longer backlog; the draw itself is the same)
        n = r.randint(a_eff + P + 3 + x, a_eff + P + 8 + x)
    else:
        n = r.randint(1, 12)
    burst = prof.get("backlog") or r.random() < .4
    durs = [0, 50_000, 300_000, US, US, 3 * US]
    t = 0
    msgs = []
    never = 0
    pays = list(BAD_PAYLOADS)
    r.shuffle(pays)
    if r.random() < .5:     # the sentinel-looking payload first in half of the scenarios that have malformed messages
        pays.remove(b"-1")
        pays.insert(0, b"-1")
    # (opt-in per profile: no random draw without the key) lock-step scenarios: the messages arrive at one instant and most of
    # them take the same time, so several running tasks finish in the same event-loop iteration and several slots free at once
    eq = r.choice([50_000, 300_000, US, US, 3 * US]) if prof.get("equal_p") and r.random() < prof["equal_p"] else None
    for i in range(n):
        t += (0 if r.random() < .9 else 1) if eq is not None else r.choice([0, 0, 0, 0, 1, 2]) if burst else r.choice([0, 0, 0, 100_000, 500_000, 2 * US, 300_000]) + r.choice([0, 0, 1, 3])
        kind = r.choices(["ok", "bad", "unk"], [8, 1, 1])[0] if prof.get("faults", True) else "ok"
        style = "sync" if r.random() < .12 else "async"
        dur = r.choice(durs)
        if prof.get("backlog") and r.random() < .7:
            dur = r.choice([US, 3 * US, 5 * US])
        if prof.get("never") and r.random() < prof["never"]:
            dur = -1
            style = "async"
            never += 1
        if eq is not None and style == "async" and dur >= 0 and r.random() < .85:
            dur = eq
        if style == "sync":
            dur = 0
        out = r.choice(["ret", "ret", "ret", "raise", "nores", "base"]) if prof.get("faults", True) else "ret"
        m = dict(at=t, kind=kind, style=style, dur=dur, out=out, ack=r.choice(["none", "sync", "sync", "async"]))
        if prof.get("faults", True) and kind == "ok":
            k = r.random()
            if k < .06:
                m["pre_fail"] = True
            elif k < .12:
                m["post_fail"] = True
            elif k < .2:
                m["save_fail"] = True
            elif k < .3 and style == "async" and dur > 0:
                m["tlabel_us"] = r.choice([dur // 2, dur * 2])
        if kind == "bad":
            m["payload"] = list(pays.pop(0)) if pays else None       # each payload at most once per scenario (identity by value)
            m["ack"] = r.choice(["none", "none", "sync", "async"])     # plain bytes and AckableMessage
        elif kind == "ok" and style == "async" and dur > 0 and "tlabel_us" not in m and not m.get("pre_fail") \
                and r.random() < prof.get("slowcancel", .08):
            # timeout label that fires + a body that keeps awaiting while it handles the cancellation
            m["tlabel_us"] = r.choice([dur // 2, dur // 4 or 1, 50_000 if dur > 50_000 else dur // 2])
            m["cleanup_us"] = r.choice([50_000, 300_000, US, 2 * US])
        if m.get("tlabel_us") is not None and m["tlabel_us"] < dur and "cleanup_us" not in m and r.random() < .5:
            m["cleanup_us"] = r.choice([50_000, 300_000, US])
        ap = prof.get("abort_p", 0)
        if ap and prof.get("faults", True) and kind == "ok" and r.random() < ap:
            # (opt-in per profile: no random draw without it, the other profiles' streams are unchanged)
            # a middleware hook / the result backend fails with something `except Exception` does not stop: the hook or
            # set_result raises asyncio.CancelledError itself, or awaits a future that somebody else cancels (a shared
            # connection future cancelled by a reconnect) - the message's callback task then ends in the CANCELLED state -
            # or raises another BaseException; also the two hooks the plain fault history never makes fail (post_save,
            # on_error) with an ordinary exception.  fail_exc: cancel | base | error; fail_after_us: the failing call
            # first awaits that long (async points only).
            for k in ("pre_fail", "post_fail", "save_fail"):
                m.pop(k, None)
            where = r.choice(["post_fail", "save_fail", "save_fail", "psave_fail", "onerr_fail"]
                             + ([] if "tlabel_us" in m else ["pre_fail"]))
            m[where] = True
            m["fail_exc"] = r.choice(["cancel", "cancel", "cancel", "base", "error"]) if where in ("psave_fail", "onerr_fail") \
                else r.choice(["cancel", "cancel", "cancel", "base"])
            if where == "onerr_fail" and m["out"] == "ret" and not (m.get("tlabel_us") is not None and m["tlabel_us"] < dur):
                m["out"] = r.choice(["raise", "nores", "base"])      # on_error only runs for a failed execution
            if where in ("post_fail", "save_fail", "psave_fail") and r.random() < .4:
                m["fail_after_us"] = r.choice([1, 50_000, 300_000, US])
        msgs.append(m)
    total = sum(m["dur"] + m.get("cleanup_us", 0) for m in msgs if m["dur"] > 0) + sum(m.get("fail_after_us", 0) for m in msgs)
    sc = dict(A=A, P=P, N=N, wtt_us=wtt, stop_us=None, ends=False, ack_type=r.choice([None, None, "when_received", "when_executed", "when_saved"]),
              msgs=msgs)
    if r.random() < prof.get("stop_p", .4):
        k = r.random()
        if k < .5:
            sc["stop_us"] = r.randrange(0, t + 4 * US + 1)
        elif k < .75:   # coincide with an arrival / a likely completion instant
            m = r.choice(msgs)
            sc["stop_us"] = m["at"] + r.choice([0, 0, 1, max(m["dur"], 0), max(m["dur"], 0) + 1, POLL, 2 * POLL])
        else:
            sc["stop_us"] = r.choice([0, 1, POLL, US, 2 * US, 3 * US]) + r.choice([0, 0, 1])
    if never == 0 and r.random() < prof.get("ends_p", .25):
        sc["ends"] = True
    hz = t + total + 8 * US + (sc["stop_us"] or 0) + (wtt or 0)
    if prof.get("probe") and sc["stop_us"] is None and N is None and not sc["ends"] and never == 0:
        tp = t + total + 10 * US
        k = (A if A else 3) + 1
        for j in range(k):
            msgs.append(dict(at=tp + j, kind="ok", style="async", dur=30 * US, out="ret", ack="none", probe=True))
        sc["probe_at"] = tp
        hz = tp + 10 * US
    sc["horizon_us"] = hz
    if r.random() < prof.get("cli_p", .3):
        # the worker is configured through its command line: argparse -> WorkerArgs -> start_listen -> Receiver(...)
        at = sc["ack_type"]
        sc["cli"] = cli_argv(dict(ack_type=None if at is None else r.choice([at, at, at.upper(), at.title()]),
                                  A=A, a_spelling=r.choice([0, -1]), P=P, N=N,
                                  wtt=None if wtt is None else wtt / 1e6))
    return sc


def gen_slow_cancel_shutdown(r, prof):
    """Scenario family: the shutdown trigger (stop request, max-tasks budget, end of the stream) falls before or into the
    period in which an accepted task whose `timeout` label has fired is still handling its cancellation (the body keeps
    awaiting in `except CancelledError` for cleanup_us).  A stop request can be placed relative to something that happens in
    the run: sc["stop_on"] = dict(tag, msg, plus_us) = `plus_us` after the first raw-log entry (tag, msg) - here the entry of
    that message's body or the begin of its clean-up - because the instant at which a queued message starts is decided by the
    worker, not by the scenario.  Own random stream (the caller passes its own generator), then the shared later stages."""
    sc = gen_base(r, dict(prof, never=0, probe=False))
    msgs = sc["msgs"]
    cand = [i for i, m in enumerate(msgs) if m["kind"] == "ok" and m["style"] == "async" and m["dur"] > 0 and not m.get("pre_fail")]
    if not cand:
        oks = [i for i, m in enumerate(msgs) if m["kind"] == "ok" and not m.get("pre_fail")]
        if not oks:
            return decorate(sc, prof)
        i = r.choice(oks)
        msgs[i].update(style="async", dur=r.choice([300_000, US, 3 * US]))
        sc["horizon_us"] += msgs[i]["dur"]
        cand = [i]
    k = r.random()
    slow = sorted(r.sample(cand, min(len(cand), r.choice([1, 1, 1, 2, 3]))))
    if k >= .5:
        slow = sorted(set(slow) | {cand[-1]})      # budget / end of stream: the last candidate is one of them
    for i in slow:
        m = msgs[i]
        old = m.get("cleanup_us", 0)
        m["tlabel_us"] = r.choice([m["dur"] // 2, m["dur"] // 4 or 1, 50_000 if m["dur"] > 50_000 else m["dur"] // 2, 1])
        m["cleanup_us"] = r.choice([300_000, US, US, 2 * US, 3 * US])
        sc["horizon_us"] += m["cleanup_us"] - old
    i = r.choice(slow)
    m = msgs[i]
    if k < .5:
        sc["stop_us"] = None
        if r.random() < .6:
            sc["stop_on"] = dict(tag="body.cleanup", msg=i, plus_us=r.choice([0, 0, 1, 1000, 50_000, m["cleanup_us"] // 4, m["cleanup_us"] // 2]))
        else:
            sc["stop_on"] = dict(tag="body.in", msg=i, plus_us=r.choice([0, 1, m["tlabel_us"] // 2, m["tlabel_us"], m["tlabel_us"] + 1]))
        sc["horizon_us"] += sum(x["dur"] + x.get("cleanup_us", 0) for x in msgs if x["dur"] > 0)    # the stop instant is not known here
    elif k < .75:
        sc["N"] = cand[-1] + 1          # the budget is reached when the last slow-cancelling message is taken
        if r.random() < .7:
            sc["stop_us"] = None
    else:
        sc["ends"] = True
        if r.random() < .7:
            sc["stop_us"] = None
    if sc.get("cli") is not None:
        sc["cli"] = cli_argv(dict(ack_type=sc["ack_type"], A=sc["A"], a_spelling=r.choice([0, -1]), P=sc["P"], N=sc["N"],
                                  wtt=None if sc["wtt_us"] is None else sc["wtt_us"] / 1e6))
    return decorate(sc, prof)


def limited(sc):
    return sc["A"] is not None and sc["A"] > 0


# --------------------------------------------------------------------------------------------- raw-log facts
class Facts:
    """what the oracles read: everything comes from the shims' raw log, nothing from the model"""

    def __init__(self, sc, obs):
        self.sc = sc
        raw = obs["raw"]
        tags = [e[1] for e in raw]
        self.returned = "RETURN" in tags
        if not self.returned and "CUTMARK" in tags:
            raw = raw[:tags.index("CUTMARK")]
        self.raw = raw
        self.end_t = raw[-1][0] if raw else 0
        self.takes = [(e[0], e[2]) for e in raw if e[1] == "TAKE"]
        self.take_t = {i: t for t, i in self.takes}
        self.stop_t = next((e[0] for e in raw if e[1] == "STOP"), None)
        self.brk_end_t = next((e[0] for e in raw if e[1] == "END"), None)
        self.ret_t = next((e[0] for e in raw if e[1] == "RETURN"), None)
        # the application cancelled the run_receiver_task task (gen_live_cancel)
        self.cancel_t = next((e[0] for e in raw if e[1] == "CANCEL"), None)

        def times(tag):
            d = {}
            for e in raw:
                if e[1] == tag:
                    d.setdefault(e[2], []).append(e[0])
            return d

        self.cbstart, self.cbend, self.cbdone = times("cb.start"), times("cb.end"), times("cb.done")
        self.bodyin, self.bodyout, self.acks = times("body.in"), times("body.out"), times("ack")
        # entries of a function registered under the message's task name that find_task does not designate (decorate_dup)
        self.shadowin = times("shadow.in")
        self.ackend = times("ack.end")       # `ack` = the ack callable was invoked, `ack.end` = the acknowledgement completed
        self.save, self.saveend = times("save"), times("save.end")     # set_result entered / the attempt has completed
        # class and message of the error the execution of message i ended with, as post_execute / the result backend saw it
        self.err = {}
        for e in raw:
            if e[1] in ("hook.post", "save") and e[3]:
                self.err.setdefault(e[2], e[3])
        N = sc["N"]
        self.budget_t = self.takes[N - 1][0] if N and len(self.takes) >= N else None
        # run_receiver_task life cycle (sc["live"]): every call of the broker's listen() is one session
        self.live = is_live(sc)
        self.sess = {e[2]: (e[3] or 0) for e in raw if e[1] == "TAKE"}            # message -> session that took it
        self.faults = [(e[0], e[2], e[3]) for e in raw if e[1] == "FAULT"]        # (instant, session, exception name)
        self.failed = {s for _, s, _ in self.faults}
        self.sess_start = {e[2]: e[0] for e in raw if e[1] == "SESSION"}           # session -> instant Receiver.listen was called
        self.last_s = max(list(self.sess_start) + [0])
        handed = {e[2] for e in raw if e[1] == "q.get"}
        # taken by a session whose listen() then failed while the message was still in that session's hand-over queue (the
        # runner of that session never took it out): dropped together with the session
        self.dropped = {i for i, s in self.sess.items() if s in self.failed and i not in handed}
        if self.live:
            mine = [t for t, i in self.takes if self.sess[i] == self.last_s]
            self.budget_t = mine[N - 1] if N and len(mine) >= N else None
        cands = [x for x in (self.stop_t, self.budget_t, self.brk_end_t) if x is not None]
        self.t0 = min(cands) if cands else None      # instant at which shutdown was triggered
        # ONE Receiver object over all sessions (gen_relisten): the sessions share the slots
        sv = (sc.get("live") or {}).get("supervisor") or {}
        self.same_rcv = bool(sv)
        self.limit_only = sv.get("mode") == "stop"
        # sessions of that object that ended while the runner held a slot it had given to no callback: per session, the runner's
        # slot acquisitions minus the callbacks it created
        self.slot_lost = []
        if self.same_rcv:
            cur, acq, spawned = None, {}, {}
            for e in raw:
                if e[1] == "SESSION":
                    cur = e[2]
                elif e[1] == "sem.acq" and e[2] == "rn":
                    acq[cur] = acq.get(cur, 0) + 1
                elif e[1] == "spawn":
                    spawned[cur] = spawned.get(cur, 0) + 1
            self.slot_lost = [s for s in sorted(self.sess_start) if s != self.last_s and acq.get(s, 0) > spawned.get(s, 0)]

    def kind(self, i):
        return self.sc["msgs"][i]["kind"]

    def must_run(self, i):
        m = self.sc["msgs"][i]
        # (an EARLY message - it names a task that is registered only after it arrived, decorate_early - may be skipped or run: no claim)
        return m["kind"] == "ok" and not m.get("pre_fail") and not mw_pre_fails(m) and not m.get("early")

    def processing_at_end(self):
        return [i for i in self.cbstart if i not in self.cbend]

    def session_of(self, i):
        """the session message i belongs to: the one that took it; a message never taken would be the last session's"""
        return self.sess.get(i, self.last_s)

    def final(self, i):
        return self.session_of(i) == self.last_s


# --------------------------------------------------------------------------------------------- Coq side
COQ_HEADER = """From Coq Require Import List Arith Bool. Import ListNotations.
From TQ Require Import RecvLTS."""


def coq_body(check):
    return """Definition chk (x : cfg * list ev) : bool := let (c, tr) := x in scan c (%s c) (init c) tr.
Fixpoint bad (i : nat) (l : list (cfg * list ev)) : list nat :=
  match l with [] => [] | x :: t => if chk x then bad (S i) t else i :: bad (S i) t end.
Eval vm_compute in bad 0 cases.""" % check


def coq_cfg(sc):
    A, N = sc["A"], sc["N"]
    return "(mkcfg %s %d %s %s)" % (C.copt(A, C.cn), sc["P"], C.copt(N, C.cn), C.cb(sc.get("wtt_us") is not None))


def coq_case(sc, obs):
    return "(%s, [%s])" % (coq_cfg(sc), "; ".join(obs["lts"]))


def shape(e):
    """event constructor with the arguments that select a model branch"""
    p = e.split()
    if p[0] in ("ETake", "ECbEnd"):
        return p[0]
    if p[0] == "EPfGot":
        return "EPfGot newla=" + p[2]
    if p[0] == "ECbDone":
        return "ECbDone rel=" + p[2]
    if p[0] == "ERnGet":
        return "ERnGet IDone" if "IDone" in e else "ERnGet IMsg"
    return e


PF = ("EPfCheck", "EPfAcquire", "EPfTimeout", "EPfGot", "EPfExhausted", "EPfExit")
RN = ("ERnAcquire", "ERnGet", "ERnWaited", "EReturn")


def coverage(rep, lts):
    """which model transitions / branches the accepted real traces exercised (successor pairs per task)"""
    lp = lr = None
    for e in lts:
        s = shape(e)
        rep.count("ev:" + s)
        h = e.split()[0]
        if h in PF:
            if lp:
                rep.count("pf:%s>%s" % (lp, s))
            lp = s
        elif h in RN:
            if lr:
                rep.count("rn:%s>%s" % (lr, s))
            lr = s


def acceptance(ctx, rep, label, scs, obss, check):
    """trace acceptance + Boolean property form inside Coq; returns list of indices (into scs) that failed"""
    lits, keep, pre_bad = [], [], []
    for k, (sc, o) in enumerate(zip(scs, obss)):
        if "_crash" in o:
            continue
        if is_live(sc):
            # several listen() sessions, some ended by an exception: the LTS models one session - direct oracles only
            count_live(rep, sc, o)
            continue
        if any(e.startswith("EBad") for e in o["lts"]):
            pre_bad.append(k)       # raw log has a shape no model step produces
            continue
        lits.append(coq_case(sc, o))
        keep.append(k)
    bad, fails = [], []
    if lits:
        bad, fails, _ = C.coq_eval(ctx, label, COQ_HEADER, lits, coq_body(check), shard=150)
    badk = sorted(pre_bad + [keep[i] for i in bad])
    allk = sorted(keep + pre_bad)
    if not allk and any(is_live(sc) for sc in scs):
        return [], []
    rep.corr(label, len(allk), badk, fails, lambda k: dict(case=scs[k], lts=obss[k]["lts"][:400]))
    badset = set(badk)
    for k in keep:
        if k not in badset:
            coverage(rep, obss[k]["lts"])
            rep.count("config:via-command-line" if scs[k].get("cli") is not None else
                      "config:via-run_receiver_task" if scs[k].get("api") is not None else "config:direct")
    rep.traces += len(keep) - len(bad)
    return badk, fails


def count_live(rep, sc, o):
    """evidence: what really happened in a run under run_receiver_task (from the raw log)"""
    f = Facts(sc, o)
    rep.count("live:listen-faults-happened=%d" % len(f.faults))
    rep.count("live:sessions=%d" % (f.last_s + 1))
    for t, s, name in f.faults:
        if s + 1 not in f.sess_start:
            rep.count("live:fault-not-noticed-by-the-worker-within-the-run")
            continue
        t = f.sess_start[s + 1]         # the instant the worker noticed (the prefetcher may be waiting for a permit meanwhile)
        busy = [i for i in f.cbstart if f.cbstart[i][0] <= t and not (f.cbdone.get(i) and f.cbdone[i][0] <= t)]
        rep.count("live:fault-while-%s" % ("tasks-in-flight" if busy else "idle"))
        if busy and any(f.cbdone.get(i) and f.cbdone[i][0] > t for i in busy):
            rep.count("live:task-of-a-failed-session-finished-during-a-later-session")
    if f.dropped:
        rep.count("live:scenario-with-message-dropped-with-the-failed-session's-queue")
    if any(f.sess.get(i, 0) > 0 for i in f.bodyin):
        rep.count("live:message-executed-by-a-replacement-session")
    # the reading of the statements that the oracles do NOT demand (whole process instead of one listening session)
    A = sc["A"] if limited(sc) else None
    if A is not None:
        cur, peak = set(), 0
        for e in f.raw:
            if e[1] == "cb.start":
                cur.add(e[2])
            elif e[1] == "cb.end":
                cur.discard(e[2])
            peak = max(peak, len(cur))
        if peak > A:
            rep.count("live:callbacks-of-old-and-new-session-together-exceed-A(not-demanded)")
    if sc["live"].get("cancel"):
        count_cancel(rep, sc, o, f)
    if f.same_rcv:
        # one Receiver object over the sessions: what each re-listen found (from the raw log)
        rep.count("relisten:sessions-of-the-one-Receiver=%d" % (f.last_s + 1))
        for s in sorted(f.sess_start):
            if s == 0:
                continue
            t = f.sess_start[s]
            busy = [i for i in f.cbstart if f.cbstart[i][0] <= t and not (f.cbdone.get(i) and f.cbdone[i][0] <= t)]
            rep.count("relisten:callbacks-of-earlier-sessions-in-flight-at-a-re-listen=%s" % (
                "0" if not busy else "all-%s-slots" % "A" if A is not None and len(busy) >= A else "some"))
        rep.count("relisten:%s" % ("a-session-ended-with-the-runner-holding-a-slot(limit-only)" if f.slot_lost or f.limit_only
                                   else "no-slot-lost(limit+saturation+progress-demanded)"))
    rep.count("live:" + ("returned" if o["returned"] else "cut"))


def count_cancel(rep, sc, o, f=None):
    """evidence: what the cancellation of the worker task found (from the raw log)"""
    f = f or Facts(sc, o)
    if f.cancel_t is None:
        rep.count("live-cancel:run-ended-before-the-cancellation")
        return
    k = next(j for j, e in enumerate(f.raw) if e[1] == "CANCEL")
    before = f.raw[:k]

    def n(tag, i):
        return sum(1 for e in before if e[1] == tag and e[2] == i)

    inflight = [i for i in f.cbstart if n("cb.start", i) and not n("cb.end", i)]
    sync = [i for i in inflight if sc["msgs"][i].get("style") == "sync" and sc["msgs"][i]["kind"] == "ok"]
    running = [i for i in sync if n("body.in", i) and not n("body.out", i)]
    waiting = [i for i in sync if n("hook.pre", i) and not n("body.in", i)]
    rep.count("live-cancel:sync-bodies-running-at-the-cancellation=%d" % min(len(running), 4))
    rep.count("live-cancel:sync-functions-queued-in-the-pool-at-the-cancellation=%s" % ("0" if not waiting else "1" if len(waiting) == 1 else "2+"))
    rep.count("live-cancel:async-callbacks-in-flight-at-the-cancellation=%s" % ("0" if len(inflight) == len(sync) else "1+"))
    for e in f.raw:
        if e[1] == "pool.shutdown":
            rep.count("live-cancel:pool.shutdown(wait=%s,cancel_futures=%s)" % (e[2], e[3]))
    late = [i for i in waiting if f.bodyin.get(i)]
    if late:
        rep.count("live-cancel:queued-sync-function-ran-after-the-cancellation")


def replay_print(ctx, path, oracle, check):
    rec = json.load(open(path))
    sc = rec["case"] if "case" in rec and "msgs" in rec.get("case", {}) else rec
    obs = C.run_driver(ctx, "recv_driver", [sc], nproc=1)[0]
    print("scenario:", json.dumps({k: v for k, v in sc.items() if k != "msgs"}))
    for i, m in enumerate(sc["msgs"]):
        print("  msg %d: %s" % (i, json.dumps(m)))
    for i, b in sorted((obs.get("wire") or {}).items(), key=lambda x: int(x[0])):
        print("  msg %s on the wire: %s" % (i, b))
    if "_crash" in obs:
        print("driver crashed:", obs["_crash"])
        return 1
    print("implementation raw log (t_us, event):")
    raw = obs["raw"]
    shown = [e for e in raw if e[1] not in ("fin?", "poll", "semp.acq", "semp.rel") or e[0] == 0]
    for e in shown[:300]:
        print("  %10d %s %s%s" % (e[0], e[1], "" if e[2] is None else e[2],
                                   " (the callback task ended CANCELLED)" if e[1] == "cb.done" and e[3] == "cancelled" else
                                   " (%s)" % e[3] if e[1] in ("ack", "hook.aw", "hook.aw.end", "hook.begin", "hook.end", "FAULT", "REG", "WORKER.END", "LISTEN.FAILED") and e[3] else
                                   " (wait=%s, cancel_futures=%s)" % (e[2], e[3]) if e[1] == "pool.shutdown" else
                                   " (result carries the error %s)" % e[3] if e[1] in ("hook.post", "save") and e[3] else
                                   " (taken by listen() session %d)" % e[3] if e[1] == "TAKE" and e[3] is not None else
                                   " (a task was created while this message's callback task was running)" if e[1] == "bg.new" else ""))
    print("  (%d raw events, idle polling omitted)" % len(raw))
    lts = obs["lts"]
    print("LTS trace (%d events): %s%s" % (len(lts), "; ".join(lts[:120]), " ..." if len(lts) > 120 else ""))
    fails = oracle(sc, obs)
    for f in fails:
        print("ORACLE:", f["what"], "| observed:", f.get("observed"), "| expected:", f.get("expected"))
    if is_live(sc):
        print("model: not applicable - %s over %d listen() sessions (the LTS models one session); direct oracles only" % (
            "ONE Receiver object was run by a supervisor of the driver" if same_receiver(sc) else
            "a supervisor of the driver built a new Receiver with its own configuration per session" if sc["live"].get("rebuild") else
            "run_receiver_task ran for real",
            1 + max([e[2] for e in raw if e[1] == "SESSION"] + [0])))
        print("holds" if not fails else "VIOLATED")
        return 0 if not fails else 1
    if any(e.startswith("EBad") for e in lts):
        print("model: the raw log contains step shapes no model transition produces (EBad markers above)")
        print("holds" if not fails else "VIOLATED")
        return 0 if not fails else 1
    rc, out = C.coq_eval_raw(ctx, "replay", COQ_HEADER + "\nDefinition c := %s.\nDefinition tr := [%s].\n"
                             "Eval vm_compute in (firstbad c (init c) 0 tr, scan c (%s c) (init c) tr).\n" % (
                                 coq_cfg(sc), "; ".join(obs["lts"]), check))
    print("model: (index of first rejected event, Boolean property form along the trace) ", out.strip()[-200:])
    print("holds" if not fails else "VIOLATED")
    return 0 if not fails else 1


def grid_scenarios():
    """thorough tier: small-scope grid A<=3 x P<=2 x N in {None,1,2,3} x wtt x stop on a 13-point grid x 4 message patterns
    (5 messages, durations from {0, short, long, never})"""
    pats = [
        [(0, US), (0, US), (0, US), (0, US), (0, US)],
        [(0, 0), (0, 300_000), (1, 3 * US), (2, 0), (US, US)],
        [(0, 3 * US), (0, -1), (100_000, 300_000), (500_000, US), (2 * US, 0)],
        [(0, 300_000), (300_000, 300_000), (600_000, 300_000), (900_000, -1), (1_200_000, US)],
    ]
    stops = [None, 0, 1, 150_000, 300_000, 300_001, 600_000, 999_999, US, US + 1, 1_300_000, 2 * US, 3_500_000]
    out = []
    for A in (1, 2, 3):
        for P in (0, 1, 2):
            for N in (None, 1, 2, 3):
                for k, pat in enumerate(pats):
                    for st in stops:
                        wtt = [None, 500_000, 3 * US][(A + P + k + (st or 0)) % 3]
                        msgs = [dict(at=at, kind="ok", style="async", dur=d, out="ret", ack="sync") for at, d in pat]
                        hz = 12 * US + (st or 0) + (wtt or 0)
                        out.append(dict(A=A, P=P, N=N, wtt_us=wtt, stop_us=st, ends=False, ack_type=None, msgs=msgs, horizon_us=hz))
    return out
