"""pygal unit "procman": taskiq/cli/worker/process_manager.py (C17, C18) - ReloadAllAction.handle, ReloadOneAction.handle,
ProcessManager.prepare_workers and ProcessManager.start, translated by the monadic backend (pygal_m.py) into the
state + writer + exception monad of coq/theories/PyPreludeProcMan.v (state = the hand-written model's ProcMan.state
plus what is left of the tick's script of asynchronous events; effects = ProcMan.effect).

`start` is an endless loop.  It is split - by shape, fail-closed - into
    start_init_py   the statements before `while True:`           (restarts = 0; self.prepare_workers())
    start_iter_py   the body of `while True:` = ONE iteration; its value says how the iteration ended: None = go on
                    with the next one (fell off the end / `continue`), Some r = start() returned r
and nothing may follow the loop.  A local of start() that is assigned before the loop (`restarts`) lives across the
iterations: it is a cell of the state (load_restarts / store_restarts), not a Gallina variable.

On top of pygal_m's statements this unit translates (hook Ext.stmt_blk; everything here is fail-closed too):
    while t: B                     while_ (fun state => t) (fun state => B) state0     (fuelled, see the prelude)
    continue                       continue_ state
    for x in range(n) / for w in self.workers / for i, w in enumerate(self.workers) / for w, e in zip(self.workers, l)
    workers[i] = p                 workers_setitem; every reference to an element of the list is dropped, `p` now
                                   refers to position i
    return e / return              in a function declared Optional[int]: return_v (Some e) / return_v None
    l = []                         an empty list of Events
    tests and arguments that call primitives: the calls are bound first, in Python's evaluation order
    (`v <~ lift prim ;; ...`); `a and b` / `a or b` / `not a` over such tests become mand / mor / mnot (short circuit);
    a primitive under and / or / if-else inside an expression that is not a test is rejected
    logging calls are ignored only if their arguments call nothing

Every table entry below has its Gallina meaning in PyPreludeProcMan.v (part 2)."""
import ast
import copy
import hashlib
import os
import re

import pygal
import pygal_m
from pygal import BOOL, INT, NONE, Ext, Opt, Ty, Unsupported, _bad, gty, is_logging, narrow, path_of, tr_expr
from pygal_m import assigned, bind_outs, names_used, next_of, out_types, paren, rebind, tup

PMGR = Ty("pmgr", g="cfg")                  # the ProcessManager `self`: its configuration
WARGS = Ty("wargs", g="cfg")                # self.args
QUEUE = Ty("aqueue", g="unit")              # self.action_queue (a reference; the content is in the state)
WLIST = Ty("wlist", g="unit")               # self.workers (a reference; the content is in the state)
FUNC = Ty("wfunc", g="unit")                # self.worker_function
IDX = Ty("idx", g="nat")                    # an int that is >= 0 by construction: range / enumerate / len / worker_num
PID = Ty("pid", g="nat")                    # worker.pid (0 = None)
WREF = Ty("wref", g="nat")                  # a Process that is an element of self.workers: its position
POBJ = Ty("pobj", g="pobj")                 # a Process that is not (yet) in the list: by value
ACTION = Ty("action", g="action")
RALL = Ty("rall", g="unit")                 # action narrowed to ReloadAllAction
RONE = Ty("rone", g="rone")                 # ... to ReloadOneAction
SHUT = Ty("shut", g="unit")                 # ... to ShutdownAction
SET = Ty("idxset", g="list nat")
EVENT = Ty("event", g="unit")
EVLIST = Ty("evlist", g="list unit")
SIG = Ty("signum", g="signum")
RET = Opt(INT)                              # start() -> Optional[int]

LOAD, STORE = "__pm_load_restarts", "__pm_store_restarts"

ATTRS = {("pmgr", "action_queue"): ("(action_queue_of %s)", QUEUE), ("pmgr", "workers"): ("(workers_of %s)", WLIST),
         ("pmgr", "args"): ("%s", WARGS), ("pmgr", "worker_function"): ("(worker_function_of %s)", FUNC),
         ("wargs", "max_fails"): ("(max_fails %s)", INT), ("wargs", "workers"): ("(nworkers %s)", IDX),
         ("rone", "worker_num"): ("(ro_num %s)", IDX), ("rone", "is_reload_all"): ("(ro_all %s)", BOOL)}
_Z = {"int": "%s", "idx": "(Z.of_nat %s)"}
_OPS = {"LtE": "(%s <=? %s)", "Lt": "(%s <? %s)", "GtE": "(%s >=? %s)", "Gt": "(%s >? %s)", "Eq": "(%s =? %s)",
        "NotEq": "(negb (%s =? %s))"}
COMPARE = {("In", "idx", "idxset"): "(set_mem %s %s)", ("NotIn", "idx", "idxset"): "(negb (set_mem %s %s))"}
for _op, _f in _OPS.items():
    for _a, _b in (("idx", "int"), ("int", "idx"), ("idx", "idx")):
        COMPARE[(_op, _a, _b)] = _f % (_Z[_a], _Z[_b])
GLOBALS = {"signal.SIGINT": ("SIGINT", SIG)}
NARROW = {"ReloadAllAction": RALL, "ReloadOneAction": RONE, "ShutdownAction": SHUT}
# methods of this module that are translated themselves: (receiver kind, method) -> python name.  What such a method
# does to self.workers ("set" = assigns positions, "append" = changes the length) is read off its text (list_effect)
METHODS = {("rall", "handle"): "ReloadAllAction.handle", ("rone", "handle"): "ReloadOneAction.handle",
           ("pmgr", "prepare_workers"): "ProcessManager.prepare_workers"}


def list_effect(nd, done):
    eff = None
    for n in ast.walk(nd):
        if isinstance(n, ast.Subscript) and isinstance(n.ctx, (ast.Store, ast.Del)):
            eff = eff or "set"
        if isinstance(n, ast.Call) and isinstance(n.func, ast.Attribute):
            if n.func.attr in ("append", "extend", "insert", "pop", "remove", "clear", "sort", "reverse"):
                p = path_of(n.func.value)
                if p is None or p == "workers" or p.endswith(".workers"):
                    return "append"
            for (_, m), py in METHODS.items():
                if n.func.attr == m and py in done and done[py]["effect"] is not None:
                    if done[py]["effect"] == "append":
                        return "append"
                    eff = eff or "set"
    return eff


# ------------------------------------------------------------------------------------------------ pure calls
def _args(fn, c, env, pos, kw=()):
    """positional / keyword arguments of exactly the given types -> their Gallina texts"""
    if len(c.args) != len(pos) or sorted(k.arg or "" for k in c.keywords) != sorted(n for n, _ in kw) \
            or any(isinstance(a, ast.Starred) for a in c.args):
        _bad("arguments of %s" % ast.unparse(c.func), c)
    byname = {k.arg: k.value for k in c.keywords}
    out = []
    for a, t in list(zip(c.args, pos)) + [(byname[n], t) for n, t in kw]:
        g, ta = tr_expr(fn, a, env)
        if ta != t:
            _bad("argument %s of %s has type %r, %r expected" % (ast.unparse(a), ast.unparse(c.func), ta, t), c)
        out.append(g)
    return out


def _by_params(fn, c, env, params):
    """arguments of a call bound to the named parameters (positional, then keywords), each of exactly its type"""
    if any(isinstance(a, ast.Starred) for a in c.args) or any(k.arg is None for k in c.keywords) \
            or len(c.args) > len(params):
        _bad("arguments of %s" % ast.unparse(c.func), c)
    given = dict(zip([p for p, _ in params], c.args))
    for k in c.keywords:
        if k.arg in given or k.arg not in [p for p, _ in params]:
            _bad("keyword %s of %s" % (k.arg, ast.unparse(c.func)), c)
        given[k.arg] = k.value
    out = []
    for p, t in params:
        if p not in given:
            _bad("argument %s of %s is missing" % (p, ast.unparse(c.func)), c)
        g, ta = tr_expr(fn, given[p], env)
        if ta != t:
            _bad("argument %s of %s has type %r, %r expected" % (p, ast.unparse(c.func), ta, t), c)
        out.append(g)
    return out


def new_set(fn, node, env):
    _args(fn, node, env, [])
    return "set_new", SET


def new_event(fn, node, env):
    _args(fn, node, env, [])
    return "Event_new", EVENT


def new_reload_one(fn, node, env):
    a = _by_params(fn, node, env, [("worker_num", IDX), ("is_reload_all", BOOL)])
    return "(ReloadOneAction %s %s)" % (a[0], a[1]), ACTION


def new_process(fn, node, env):
    """Process(target=<worker function>, kwargs={"args": <args>}, name=f"worker-{<slot>}", daemon=False)"""
    kw = {k.arg: k.value for k in node.keywords}
    if node.args or len(kw) != len(node.keywords) or set(kw) != {"target", "kwargs", "name", "daemon"}:
        _bad("arguments of Process(...)", node)
    _, tt = tr_expr(fn, kw["target"], env)
    d = kw["kwargs"]
    if tt != FUNC or not isinstance(d, ast.Dict) or len(d.keys) != 1 or not isinstance(d.keys[0], ast.Constant) \
            or d.keys[0].value != "args" or tr_expr(fn, d.values[0], env)[1] != WARGS:
        _bad("Process(target=, kwargs=) other than the worker function with {'args': args}", node)
    n = kw["name"]
    if not (isinstance(n, ast.JoinedStr) and len(n.values) == 2 and isinstance(n.values[0], ast.Constant)
            and n.values[0].value == "worker-" and isinstance(n.values[1], ast.FormattedValue)
            and n.values[1].conversion == -1 and n.values[1].format_spec is None):
        _bad("Process(name=) other than f\"worker-{<slot>}\"", node)
    gs, ts = tr_expr(fn, n.values[1].value, env)
    if ts != IDX:
        _bad("the slot in the name of a Process has type %r" % ts, node)
    if not (isinstance(kw["daemon"], ast.Constant) and kw["daemon"].value is False):
        _bad("Process(daemon=) other than False", node)
    return "(Process_new %s)" % gs, POBJ


def isinst(fn, p, g, t, cls, env, kt, kf):
    if cls not in NARROW:
        return None
    if t == ACTION:
        if cls == "ReloadOneAction":
            i, ra = fn.fresh("worker_num"), fn.fresh("is_reload_all")
            pat, val = "ReloadOne %s %s" % (i, ra), "(mkRone %s %s)" % (i, ra)
        else:
            pat, val = {"ReloadAllAction": "ReloadAll", "ShutdownAction": "Shutdown"}[cls], "tt"
        return "match %s with\n| %s =>\n%s\n| _ =>\n%s\nend" % (g, pat, kt(narrow(env, p, val, NARROW[cls])), kf(env))
    if t in (RALL, RONE, SHUT):
        return kt(env) if t == NARROW[cls] else kf(env)
    return None


# ------------------------------------------------------------------------------------------------ primitives
def _recv(fn, node, env):
    try:
        return tr_expr(fn, node, env)
    except Unsupported:
        return None, None


def prim(fn, node, env):
    """-> None | (Gallina term of type PM T, Ty of T, name of the local whose object is mutated or None)"""
    if isinstance(node, ast.Attribute):
        if path_of(node) in env:
            return None
        g0, t0 = _recv(fn, node.value, env)
        if t0 == WREF and node.attr == "pid":
            return "(proc_pid %s)" % g0, PID, None
        return None
    if isinstance(node, ast.Subscript):
        if not isinstance(node.ctx, ast.Load):
            return None
        g0, t0 = _recv(fn, node.value, env)
        if t0 == WLIST:
            gi, ti = tr_expr(fn, node.slice, env)
            if ti != IDX:
                _bad("index of type %r into the list of workers" % ti, node)
            return "(workers_getitem %s %s)" % (g0, gi), WREF, None
        return None
    if not isinstance(node, ast.Call):
        return None
    name = path_of(node.func)
    if name == "sleep":
        return "(sleep %s)" % _args(fn, node, env, [INT])[0], NONE, None
    if name == "os.kill":
        return "(os_kill %s)" % " ".join(_args(fn, node, env, [PID, SIG])), NONE, None
    if name == "len" and len(node.args) == 1 and not node.keywords:
        g0, t0 = _recv(fn, node.args[0], env)
        if t0 == WLIST:
            return "(workers_len %s)" % g0, IDX, None
        return None
    if name == "_wait_for_worker_startup":
        if len(node.args) != 2 or node.keywords:
            _bad("arguments of _wait_for_worker_startup", node)
        (g0, t0), (g1, t1) = tr_expr(fn, node.args[0], env), tr_expr(fn, node.args[1], env)
        if t1 != EVENT or t0 not in (WREF, POBJ):
            _bad("_wait_for_worker_startup(%r, %r)" % (t0, t1), node)
        return "(wait_for_worker_startup%s %s %s)" % ("_obj" if t0 == POBJ else "", g0, g1), NONE, None
    if name == LOAD:
        return "load_restarts", INT, None
    if name == STORE:
        return "(store_restarts %s)" % _args(fn, node, env, [INT])[0], NONE, None
    if isinstance(node.func, ast.Attribute):
        g0, t0 = _recv(fn, node.func.value, env)
        if t0 is None:
            return None
        m = node.func.attr
        simple = {("aqueue", "empty"): ("queue_empty", [], BOOL), ("aqueue", "get"): ("queue_get", [], ACTION),
                  ("aqueue", "put"): ("queue_put", [ACTION], NONE),
                  ("wref", "is_alive"): ("proc_is_alive", [], BOOL), ("wref", "terminate"): ("proc_terminate", [], NONE),
                  ("wref", "join"): ("proc_join", [], NONE), ("wlist", "append"): ("workers_append", [POBJ], NONE)}
        if (t0.kind, m) in simple:
            f, pos, rt = simple[(t0.kind, m)]
            return "(%s)" % " ".join([f, g0] + _args(fn, node, env, pos)), rt, None
        mutating = {("pobj", "start"): ("pobj_start", [], POBJ), ("idxset", "add"): ("set_add", [IDX], SET),
                    ("evlist", "append"): ("list_append", [EVENT], EVLIST)}
        if (t0.kind, m) in mutating:
            f, pos, rt = mutating[(t0.kind, m)]
            if not isinstance(node.func.value, ast.Name):
                _bad(".%s() on something that is not a local variable" % m, node)
            return "(%s)" % " ".join([f, g0] + _args(fn, node, env, pos)), rt, node.func.value.id
        if (t0.kind, m) in METHODS:
            sp = fn.unit.done.get(METHODS[(t0.kind, m)])
            if sp is None:
                _bad("call of %s before it is translated" % METHODS[(t0.kind, m)], node)
            a = _by_params(fn, node, env, sp["params"][1:])
            return "(%s)" % " ".join([sp["gname"], g0] + a), NONE, None
    return None


def mutates(s):
    """which local's object an expression statement mutates (syntactic; cross-checked against prim())"""
    v = s.value
    if isinstance(v, ast.Call) and isinstance(v.func, ast.Attribute) and isinstance(v.func.value, ast.Name) \
            and v.func.attr in ("start", "add", "append"):
        return {v.func.value.id}
    return set()


# ------------------------------------------------------------------------------------------------ hoisting
class Hoist:
    """binds the primitive calls inside an expression to fresh variables, in Python's evaluation order"""

    def __init__(self, fn, env):
        self.fn, self.env, self.binds = fn, env, []

    def sub(self, node):
        h = Hoist(self.fn, self.env)
        h.expr(node)
        return bool(h.binds)

    def expr(self, node, top=False):
        if isinstance(node, ast.UnaryOp) and isinstance(node.op, ast.USub) and isinstance(node.operand, ast.Constant) \
                and type(node.operand.value) is int:
            return ast.copy_location(ast.Constant(value=-node.operand.value), node)      # -1 is a literal
        if isinstance(node, (ast.Constant, ast.Name)) or (path_of(node) is not None and path_of(node) in self.env):
            return node
        if isinstance(node, (ast.BoolOp, ast.IfExp)):
            if any(self.sub(c) for c in ast.iter_child_nodes(node) if isinstance(c, ast.expr)):
                _bad("a primitive call under and / or / if-else inside an expression", node)
            return node
        if isinstance(node, ast.Compare) and len(node.ops) != 1:
            _bad("chained comparison", node)
        if isinstance(node, (ast.Lambda, ast.ListComp, ast.SetComp, ast.DictComp, ast.GeneratorExp, ast.Await,
                             ast.Yield, ast.YieldFrom, ast.NamedExpr, ast.Starred)):
            _bad("expression %s" % type(node).__name__, node)
        new = copy.copy(node)
        for field, val in ast.iter_fields(node):
            if isinstance(node, ast.Call) and field == "func":
                if isinstance(val, ast.Attribute):          # a method call: the receiver, not the bound method
                    f2 = copy.copy(val)
                    f2.value = self.expr(val.value)
                    new.func = f2
                continue
            if isinstance(val, ast.expr):
                setattr(new, field, self.expr(val))
            elif isinstance(val, list) and val and all(isinstance(x, (ast.expr, ast.keyword)) for x in val):
                out = []
                for x in val:
                    if isinstance(x, ast.keyword):
                        k2 = copy.copy(x)
                        k2.value = self.expr(x.value)
                        out.append(k2)
                    else:
                        out.append(self.expr(x))
                setattr(new, field, out)
        if top:
            return new
        r = prim(self.fn, new, self.env)
        if r is None:
            return new
        g, t, mut = r
        if mut is not None:
            _bad("a call that changes a local object inside an expression", node)
        v = self.fn.fresh("t")
        name = "__pm_" + v
        self.binds.append((v, g))
        self.env = rebind(self.env, name, v, t)
        return ast.copy_location(ast.Name(id=name, ctx=ast.Load()), node)

    def prefix(self):
        return "".join("%s <~ lift %s ;;\n" % (v, g) for v, g in self.binds)


def _simplify_bool(text):
    m = re.fullmatch(r"\(if (.*) then\ntrue\nelse\nfalse\)", text, re.S)
    if m and "\n" not in m.group(1):
        return m.group(1)
    m = re.fullmatch(r"\(if (.*) then\nfalse\nelse\ntrue\)", text, re.S)
    if m and "\n" not in m.group(1):
        return "(negb %s)" % m.group(1)
    return text


def pure_bool(fn, node, env):
    text = pygal_m.test(fn, node, env, lambda e: "true", lambda e: "false")
    return _simplify_bool(text)


def mtest(fn, node, env, force=False):
    """a test that calls primitives -> Gallina text of type PM bool (None if it calls none and not force)"""
    impure = [False]

    def go(n):
        if isinstance(n, ast.BoolOp):
            parts = [go(v) for v in n.values]
            f = "mand" if isinstance(n.op, ast.And) else "mor"
            text = parts[-1]
            for p in reversed(parts[:-1]):
                text = "(%s %s %s)" % (f, p, text)
            return text
        if isinstance(n, ast.UnaryOp) and isinstance(n.op, ast.Not):
            return "(mnot %s)" % go(n.operand)
        h = Hoist(fn, env)
        new = h.expr(n)
        if h.binds:
            impure[0] = True
        b = pure_bool(fn, new, h.env)
        if h.binds and b == h.binds[-1][0]:                    # v <- prim ;; ret v   is   prim
            text, rest = h.binds[-1][1], h.binds[:-1]
        else:
            text, rest = "(ret %s)" % b, h.binds
        for v, g in reversed(rest):
            text = "(%s <- %s ;; %s)" % (v, g, text)
        return text
    text = go(node)
    return text if (impure[0] or force) else None


# ------------------------------------------------------------------------------------------------ statements
def _loads(node):
    return {n.id for n in ast.walk(node) if isinstance(n, ast.Name) and isinstance(n.ctx, ast.Load)}


def live_in(stmts, out):
    """names that may be read by the statements (or after them: `out`) before being re-bound - an over-approximation"""
    live = set(out)
    for s in reversed(stmts):
        if isinstance(s, ast.Assign) and len(s.targets) == 1 and isinstance(s.targets[0], ast.Name):
            live = (live - {s.targets[0].id}) | _loads(s.value)
        elif isinstance(s, ast.AnnAssign) and isinstance(s.target, ast.Name) and s.value is not None:
            live = (live - {s.target.id}) | _loads(s.value)
        elif isinstance(s, ast.AugAssign) and isinstance(s.target, ast.Name):
            live = live | {s.target.id} | _loads(s.value)
        elif isinstance(s, ast.If):
            live = _loads(s.test) | live_in(s.body, live) | live_in(s.orelse, live)
        elif isinstance(s, ast.For) and not s.orelse:
            tg = {n.id for n in ast.walk(s.target) if isinstance(n, ast.Name)}
            inner = set().union(*[_loads(b) for b in s.body]) if s.body else set()
            live = live | _loads(s.iter) | (live_in(s.body, live | inner) - tg)
        else:
            live = live | _loads(s)
    return live


def loop_live(body, test, out):
    """names live at the end (= at the start) of a loop body: read after the loop or by a later iteration"""
    live = set(out)
    while True:
        new = live | live_in(([ast.Expr(value=test)] if test is not None else []) + body, live)
        if new == live:
            return live
        live = new


def _drop_wrefs(env):
    return {p: x for p, x in env.items() if x[1] != WREF}


def _no_calls_in_logging(s):
    for a in list(s.value.args) + [k.value for k in s.value.keywords]:
        for n in ast.walk(a):
            if isinstance(n, ast.Call) and isinstance(n.func, ast.Name) and n.func.id == LOAD and not n.args:
                continue                    # reading the local that lives across the iterations
            if isinstance(n, (ast.Call, ast.Await, ast.NamedExpr, ast.Yield, ast.YieldFrom)):
                _bad("a logging call whose arguments call something", s)


def stmt_m(fn, s, rest, env, k, live, live_rest):
    cont = lambda e: pygal_m.tr_block(fn, rest, e, k, live)      # noqa: E731
    again = lambda stmts, e: pygal_m.tr_block(fn, stmts + rest, e, k, live)      # noqa: E731
    if is_logging(s):
        _no_calls_in_logging(s)
        return None
    if isinstance(s, ast.Continue):
        if rest:
            _bad("statements after continue", rest[0])
        if not fn.loops:
            _bad("continue outside a loop", s)
        state, types = fn.loops[-1]
        for v, t in zip(state, types):
            if v not in env or env[v][1] != t:
                _bad("variable %s at continue" % v, s)
        return "continue_ %s" % tup([env[v][0] for v in state])
    if isinstance(s, ast.While):
        return tr_while(fn, s, env, cont, live_rest, live_in(rest, live))
    if isinstance(s, ast.For):
        return tr_for(fn, s, env, cont, live_rest, live_in(rest, live))
    if isinstance(s, ast.Return) and fn.spec.get("ret") == RET:
        if rest:
            _bad("statements after return", rest[0])
        if s.value is None or (isinstance(s.value, ast.Constant) and s.value.value is None):
            return "return_v None"
        h = Hoist(fn, env)
        g, t = pygal_m.pure(fn, h.expr(s.value), h.env)
        if t != INT:
            _bad("return of %r where Optional[int] is declared" % t, s)
        return h.prefix() + "return_v (Some %s)" % g
    if isinstance(s, ast.If):
        m = mtest(fn, s.test, env)
        if m is None:
            return None
        c = fn.fresh("c")
        new = ast.copy_location(ast.If(test=ast.copy_location(ast.Name(id="__pm_" + c, ctx=ast.Load()), s.test),
                                       body=s.body, orelse=s.orelse), s)
        return "%s <~ lift %s ;;\n%s" % (c, m, again([new], rebind(env, "__pm_" + c, c, BOOL)))
    if isinstance(s, ast.Assign) and len(s.targets) == 1 and isinstance(s.targets[0], ast.Subscript):
        tgt = s.targets[0]
        if not isinstance(s.value, ast.Name):
            _bad("a subscripted store of something that is not a local variable", s)
        gv, tv = tr_expr(fn, s.value, env)
        h = Hoist(fn, env)
        (gb, tb), (gi, ti) = pygal_m.pure(fn, h.expr(tgt.value), h.env), (None, None)
        gi, ti = pygal_m.pure(fn, h.expr(tgt.slice), h.env)
        if tb != WLIST or ti != IDX or tv != POBJ:
            _bad("subscripted store %r[%r] = %r" % (tb, ti, tv), s)
        e2 = rebind(_drop_wrefs(env), s.value.id, gi, WREF)
        return h.prefix() + "_ <~ lift (workers_setitem %s %s %s) ;;\n%s" % (gb, gi, gv, cont(e2))
    if isinstance(s, (ast.Assign, ast.AnnAssign)) and isinstance(s.value, ast.List) and not s.value.elts:
        tgt = s.targets[0] if isinstance(s, ast.Assign) and len(s.targets) == 1 else getattr(s, "target", None)
        if not isinstance(tgt, ast.Name):
            _bad("assignment of a list to something that is not a local variable", s)
        v = fn.fresh(tgt.id)
        return "let %s := (@nil unit) in\n%s" % (v, cont(rebind(env, tgt.id, v, EVLIST)))
    if isinstance(s, (ast.Assign, ast.AnnAssign, ast.AugAssign, ast.Expr)):
        val = s.value
        if val is None:
            return None
        if isinstance(s, ast.AugAssign):
            if not isinstance(s.target, ast.Name):
                _bad("assignment to something that is not a local variable", s)
            val = ast.copy_location(ast.BinOp(left=ast.copy_location(ast.Name(id=s.target.id, ctx=ast.Load()), s),
                                              op=s.op, right=s.value), s)
            ast.fix_missing_locations(val)
        h = Hoist(fn, env)
        new_val = h.expr(val, top=True)
        if isinstance(s, ast.Expr):
            new = ast.copy_location(ast.Expr(value=new_val), s)
            # a call of a translated method that re-assigns positions of self.workers: references into it are dropped
            c = new_val
            if isinstance(c, ast.Call) and isinstance(c.func, ast.Attribute):
                _, t0 = _recv(fn, c.func.value, h.env)
                py = METHODS.get((t0.kind, c.func.attr)) if t0 is not None else None
                eff = fn.unit.done[py]["effect"] if py in fn.unit.done else None
                if eff is not None:
                    if eff == "append" and fn.over_workers:
                        _bad("self.workers may grow inside a loop over it", s)
                    g, _, _ = prim(fn, c, h.env)
                    return h.prefix() + "_ <~ lift %s ;;\n%s" % (g, cont(_drop_wrefs(h.env)))
                if t0 == WLIST and c.func.attr == "append" and fn.over_workers:
                    _bad("self.workers grows inside a loop over it", s)
        else:
            tgt = s.targets[0] if isinstance(s, ast.Assign) and len(s.targets) == 1 else getattr(s, "target", None)
            if not isinstance(tgt, ast.Name):
                _bad("assignment to something that is not a local variable", s)
            if prim(fn, new_val, h.env) is None:
                _, tv = pygal_m.pure(fn, new_val, h.env)
                if tv in (POBJ, SET, EVLIST) and isinstance(new_val, ast.Name):
                    _bad("a second name for a mutable local object", s)     # objects by value: no aliases
            new = ast.copy_location(ast.Assign(targets=[ast.copy_location(ast.Name(id=tgt.id, ctx=ast.Store()), s)],
                                               value=new_val), s)
        if not h.binds and not isinstance(s, ast.AugAssign):
            return None
        return h.prefix() + again([new], h.env)
    return None


def _loop_state(fn, s, env, read_after, exclude=()):
    asg = assigned(fn, s.body) - set(exclude)
    for v in sorted(asg):
        if v not in env and v in read_after:
            _bad("variable %s is first bound inside the loop and read after it" % v, s)
    state = sorted(v for v in asg if v in env)
    benv, svs = env, []
    for v in state:
        sv = fn.fresh(v)
        benv = rebind(benv, v, sv, env[v][1])
        svs.append(sv)
    pat = "_" if not svs else svs[0] if len(svs) == 1 else "'(%s)" % ", ".join(svs)
    return state, benv, pat


def tr_while(fn, s, env, cont, live_rest, read_after):
    if s.orelse:
        _bad("while ... else", s)
    state, benv, pat = _loop_state(fn, s, env, read_after)
    init = [env[v][1] for v in state]
    cond = mtest(fn, s.test, benv, force=True)
    fn.loops.append((state, init))
    box = []
    b_text = pygal_m.tr_block(fn, s.body, benv, next_of(state, box, s), loop_live(s.body, s.test, read_after))
    fn.loops.pop()
    out_types(state, box, s, want=init)
    text = "while_ (fun %s =>\n%s)\n(fun %s =>\n%s)\n%s" % (pat, cond, pat, b_text, tup([env[v][0] for v in state]))
    return bind_outs(fn, text, state, init, env, cont)


def tr_for(fn, s, env, cont, live_rest, read_after):
    if s.orelse:
        _bad("for ... else", s)
    h = Hoist(fn, env)
    it, over = s.iter, False
    fname = path_of(it.func) if isinstance(it, ast.Call) else None
    plain = isinstance(it, ast.Call) and not it.keywords and not any(isinstance(a, ast.Starred) for a in it.args)
    if fname == "range" and plain and len(it.args) == 1:
        g, t = pygal_m.pure(fn, h.expr(it.args[0]), h.env)
        if t != IDX:
            _bad("range(%r)" % t, s)
        lg, elts = "(range_ %s)" % g, [IDX]
    elif fname in ("enumerate", "zip") and plain and len(it.args) == (1 if fname == "enumerate" else 2):
        gs = [pygal_m.pure(fn, h.expr(a), h.env) for a in it.args]
        if gs[0][1] != WLIST or (fname == "zip" and gs[1][1] != EVLIST):
            _bad("%s(%s)" % (fname, ", ".join(repr(t) for _, t in gs)), s)
        lg, over = fn.fresh("items"), True
        if fname == "enumerate":
            h.binds.append((lg, "(workers_enumerate %s)" % gs[0][0]))
            elts = [IDX, WREF]
        else:
            h.binds.append((lg, "(workers_zip %s %s)" % (gs[0][0], gs[1][0])))
            elts = [WREF, EVENT]
    else:
        g, t = pygal_m.pure(fn, h.expr(it), h.env)
        if t != WLIST:
            _bad("loop over %r" % t, s)
        lg, over, elts = fn.fresh("items"), True, [WREF]
        h.binds.append((lg, "(workers_refs %s)" % g))
    tg = s.target
    names = [tg] if isinstance(tg, ast.Name) else list(tg.elts) if isinstance(tg, ast.Tuple) else None
    if names is None or len(names) != len(elts) or not all(isinstance(n, ast.Name) for n in names) \
            or len({n.id for n in names}) != len(names):
        _bad("loop target", s)
    xs = [n.id for n in names]
    for x in xs:
        if x in read_after:
            _bad("the loop variable may be read after the loop", s)
    env0 = h.env
    state, benv, pat = _loop_state(fn, s, env0, read_after, exclude=xs)
    init = [env0[v][1] for v in state]
    xvs = []
    for x, t in zip(xs, elts):
        xv = fn.fresh(x)
        benv = rebind(benv, x, xv, t)
        xvs.append(xv)
    xpat = xvs[0] if len(xvs) == 1 else "'(%s)" % ", ".join(xvs)
    fn.loops.append((state, init))
    fn.over_workers += 1 if over else 0
    box = []
    b_text = pygal_m.tr_block(fn, s.body, benv, next_of(state, box, s), loop_live(s.body, None, read_after) - set(xs))
    fn.over_workers -= 1 if over else 0
    fn.loops.pop()
    out_types(state, box, s, want=init)
    text = "for_ %s (fun %s %s =>\n%s)\n%s" % (lg, xpat, pat, b_text, tup([env0[v][0] for v in state]))
    return h.prefix() + bind_outs(fn, text, state, init, env0, cont)


EXT = Ext(calls={"set": new_set, "Event": new_event, "Process": new_process, "ReloadOneAction": new_reload_one},
          attrs=ATTRS, compare=COMPARE, isinst=isinst, truthy={"pid": "(truthy_pid %s)"},
          prim=prim, mutates=mutates, stmt_blk=stmt_m, live_in=live_in, exc_type=Ty("exc", g="pexc"),
          except_classes={"Exception": None, "ValueError": "is_ValueError"})


# ------------------------------------------------------------------------------------------------ the unit
class _Frame(ast.NodeTransformer):
    """the locals of start() that are assigned before `while True:` become cells of the state"""

    def __init__(self, names):
        self.names = names

    def visit_Name(self, n):
        if n.id in self.names:
            if not isinstance(n.ctx, ast.Load):
                _bad("%s is used as a target other than of a plain assignment" % n.id, n)
            return ast.copy_location(ast.Call(func=ast.copy_location(ast.Name(id=LOAD, ctx=ast.Load()), n),
                                              args=[], keywords=[]), n)
        return n

    def _store(self, s, tgt, val):
        call = ast.Call(func=ast.Name(id=STORE, ctx=ast.Load()), args=[self.visit(val)], keywords=[])
        new = ast.copy_location(ast.Expr(value=call), s)
        ast.fix_missing_locations(new)
        return new

    def visit_Assign(self, s):
        if len(s.targets) == 1 and isinstance(s.targets[0], ast.Name) and s.targets[0].id in self.names:
            return self._store(s, s.targets[0], s.value)
        return self.generic_visit(s)

    def visit_AnnAssign(self, s):
        if isinstance(s.target, ast.Name) and s.target.id in self.names and s.value is not None:
            return self._store(s, s.target, s.value)
        return self.generic_visit(s)

    def visit_AugAssign(self, s):
        if isinstance(s.target, ast.Name) and s.target.id in self.names:
            load = ast.copy_location(ast.Name(id=s.target.id, ctx=ast.Load()), s)
            return self._store(s, s.target, ast.copy_location(ast.BinOp(left=load, op=s.op, right=s.value), s))
        return self.generic_visit(s)


def _split_start(nd):
    """start() -> (statements before `while True:`, the body of the loop), frame variables turned into cells"""
    body = list(nd.body)
    if body and isinstance(body[0], ast.Expr) and isinstance(body[0].value, ast.Constant) \
            and isinstance(body[0].value.value, str):
        body = body[1:]
    if not body or not isinstance(body[-1], ast.While):
        _bad("start() does not end in a `while True:` loop", nd)
    loop = body[-1]
    if not (isinstance(loop.test, ast.Constant) and loop.test.value is True) or loop.orelse:
        _bad("the last statement of start() is not `while True:`", loop)
    pro = body[:-1]
    frame = set()
    for s in pro:
        if isinstance(s, ast.Assign) and len(s.targets) == 1 and isinstance(s.targets[0], ast.Name):
            frame.add(s.targets[0].id)
        elif isinstance(s, (ast.Assign, ast.AnnAssign, ast.AugAssign)):
            _bad("assignment before the loop of start()", s)
    if len(frame) > 1:
        _bad("more than one local of start() lives across the iterations: %s" % sorted(frame), nd)
    for n in ast.walk(loop):
        if isinstance(n, ast.Break):
            _bad("break", n)
    for s in pro:
        for n in ast.walk(s):
            if isinstance(n, ast.Return):
                _bad("return before the loop of start()", n)
    tr = _Frame(frame)
    pro = [tr.visit(copy.deepcopy(s)) for s in pro]
    it = [tr.visit(copy.deepcopy(s)) for s in loop.body]
    return pro, it


def translate(repo, spec):
    """-> (gallina text, info dict).  Raises Unsupported.  Same contract as pygal.translate."""
    src = open(os.path.join(repo, spec["file"])).read()
    tree = ast.parse(src)
    for n in ast.walk(tree):
        if isinstance(n, ast.Name) and n.id.startswith("__pm_"):
            _bad("a name of the translator's own name space: %s" % n.id, n)
    defs = {}
    for c in tree.body:
        if isinstance(c, ast.FunctionDef):
            defs[c.name] = c
        if isinstance(c, ast.ClassDef):
            for n in c.body:
                if isinstance(n, (ast.FunctionDef, ast.AsyncFunctionDef)):
                    defs[c.name + "." + n.name] = n
    unit = pygal.Unit()
    unit.ext = spec["ext"]
    pygal._CUR["ext"] = unit.ext
    out, info = [], dict(file=spec["file"], sha256=hashlib.sha256(src.encode()).hexdigest(), functions={})
    for fs in spec["functions"]:
        nd = defs.get(fs["name"])
        if nd is None:
            raise Unsupported("function %s not found in %s" % (fs["name"], spec["file"]))
        if not isinstance(nd, ast.FunctionDef):
            _bad("%s is not a plain def" % fs["name"], nd)
        if nd.decorator_list:
            _bad("decorated function", nd)
        a = nd.args
        if a.kwonlyargs or a.posonlyargs or a.kw_defaults or a.vararg or a.kwarg or a.defaults:
            _bad("parameter list of %s" % nd.name, nd)
        if [x.arg for x in a.args] != [p for p, _ in fs["params"]]:
            _bad("parameters of %s are %r" % (nd.name, [x.arg for x in a.args]), nd)
        for n in ast.walk(nd):
            if n is not nd and isinstance(n, (ast.FunctionDef, ast.AsyncFunctionDef, ast.Lambda, ast.ClassDef, ast.Global,
                                              ast.Nonlocal, ast.Yield, ast.YieldFrom, ast.NamedExpr, ast.Await)):
                _bad("%s inside the function" % type(n).__name__, n)
        ps = " ".join("(%s : %s)" % (p, gty(t)) for p, t in fs["params"])
        if fs.get("split"):
            pro, it = _split_start(nd)
            parts = [(fs["gname_init"], pro, None, "run_fn", "unit"), (fs["gname_iter"], it, RET, "run_iter", "(option (option Z))")]
        else:
            parts = [(fs["gname"], nd.body, None, "run_fn", "unit")]
        for gname, stmts, ret, runner, rty in parts:
            fn = pygal.Fn(unit, dict(fs, ret=ret) if ret is not None else {x: y for x, y in fs.items() if x != "ret"})
            fn.loops = [([], [])] if runner == "run_iter" else []
            fn.over_workers = 0
            env = dict(spec.get("globals", {}))
            for p, t in fs["params"]:
                env[p] = (p, t)
            body = pygal_m.tr_block(fn, stmts, env, lambda e: "next tt", set())
            out.append("(* %s, lines %d-%d *)\nDefinition %s %s : PM %s :=\n%s (\n%s)." % (
                spec["file"], nd.lineno, nd.end_lineno, gname, ps, rty, runner, pygal_m.indent(body)))
        unit.done[fs["name"]] = dict(params=fs["params"], gname=fs.get("gname"), effect=list_effect(nd, unit.done))
        info["functions"][fs["name"]] = dict(lines=[nd.lineno, nd.end_lineno], backend="monadic (state)")
    head = "(* GENERATED on every run by harness/pygal_procman.py from %s (sha256 %s) - do not edit *)\n" % (
        spec["file"], info["sha256"][:16])
    head += "From Coq Require Import ZArith Bool List.\nImport ListNotations.\nFrom TQ Require Import %s.\n" % (
        " ".join(spec["imports"]))
    head += "Local Open Scope Z_scope.\n"
    return head + "\n" + "\n\n".join(out) + "\n", info


SPEC = dict(
    file="taskiq/cli/worker/process_manager.py", module="Gen_procman", translate=translate,
    proofs={"C17": "Src_procman_C17", "C18": "Src_procman_C18"}, proof_deps=["Src_procman_common"],
    imports=["ProcMan", "PyPreludeProcMan"], ext=EXT, globals=GLOBALS,
    functions=[
        dict(name="ReloadAllAction.handle", gname="reload_all_handle_py",
             params=[("self", RALL), ("workers_num", IDX), ("action_queue", QUEUE)]),
        dict(name="ReloadOneAction.handle", gname="reload_one_handle_py",
             params=[("self", RONE), ("workers", WLIST), ("args", WARGS), ("worker_func", FUNC)]),
        dict(name="ProcessManager.prepare_workers", gname="prepare_workers_py", params=[("self", PMGR)]),
        dict(name="ProcessManager.start", split=True, gname_init="start_init_py", gname_iter="start_iter_py",
             params=[("self", PMGR)])])
