"""pygal unit "callback": Receiver.callback of taskiq/receiver/receiver.py (the per-message pipeline; C02, C07, C10),
translated by the monadic backend (pygal_m.py) into the statement monad of coq/theories/PyPreludePipeline.v.

The receiver `self` is read as the configuration `pcfg` of coq/theories/Pipeline.v; self.broker, its formatter and its
result backend are the same object seen through other attribute paths.  Every table entry below has its Gallina
meaning in PyPreludePipeline.v (part 2)."""
import ast

import pygal_m
from pygal import BOOL, NONE, Ext, Opt, Ty, _bad, narrow, path_of, tr_expr

SELF = Ty("receiver", g="pcfg")
BROKER = Ty("broker", g="pcfg")
FORMATTER = Ty("formatter", g="pcfg")
BACKEND = Ty("backend", g="pcfg")
MESSAGE = Ty("message", g="pmessage")        # Union[bytes, AckableMessage]
ACKABLE = Ty("ackable", g="pmessage")        # ... narrowed to AckableMessage
DATA = Ty("data", g="unit")                  # bytes payload (opaque)
LOADED = Ty("loaded", g="loaded")            # TaskiqMessage as returned by formatter.loads
MSG = Ty("msg", g="msg")                     # ... after parse_labels()
TASKNAME = Ty("taskname", g="unit")
TASKID = Ty("taskid", g="nat")
TASK = Ty("task", g="unit")
FUNC = Ty("func", g="unit")
MW = Ty("mw", g="(nat * mw)")
MWCLASS = Ty("mwclass", g="(nat * mw)")
RES = Ty("res", g="res")
ERR = Ty("err", g="option nat")              # result.error: None or the exception's class
ACKT = Ty("acktype", g="acktype")
EXC = Ty("exc", g="xkind")
HOOKS = {"pre_execute": "class_pre_execute", "post_execute": "class_post_execute", "post_save": "class_post_save"}
IMPL = {h: Ty("impl_" + h, g="_") for h in HOOKS}      # middleware.__class__.<hook>
BASE = {h: Ty("base_" + h, g="base_hook") for h in HOOKS}   # TaskiqMiddleware.<hook>

ATTRS = {("receiver", "broker"): ("%s", BROKER), ("receiver", "ack_time"): ("(c_ack %s)", ACKT),
         ("broker", "formatter"): ("%s", FORMATTER), ("broker", "result_backend"): ("%s", BACKEND),
         ("broker", "middlewares"): ("(middlewares %s)", pygal_m.List(MW)),
         ("ackable", "data"): ("(ackable_data %s)", DATA),
         ("msg", "task_name"): ("(task_name %s)", TASKNAME), ("msg", "task_id"): ("(m_id %s)", TASKID),
         ("task", "original_func"): ("(original_func %s)", FUNC),
         ("mw", "__class__"): ("%s", MWCLASS), ("res", "error"): ("(r_exc %s)", ERR)}
COMPARE = {("Eq", "acktype", "acktype"): "(acktype_eqb %s %s)"}
GLOBALS = {"AcknowledgeType.WHEN_RECEIVED": ("AckReceived", ACKT), "AcknowledgeType.WHEN_EXECUTED": ("AckExecuted", ACKT),
           "AcknowledgeType.WHEN_SAVED": ("AckSaved", ACKT)}
for _h, _f in HOOKS.items():
    ATTRS[("mwclass", _h)] = ("(%s %%s)" % _f, IMPL[_h])
    COMPARE[("NotEq", "impl_" + _h, "base_" + _h)] = "(differs_from_base %s %s)"
    GLOBALS["TaskiqMiddleware." + _h] = ("TaskiqMiddleware_hook", BASE[_h])


def _ack_test(cond, g, p, env, kt, kf):
    return "(if %s then\n%s\nelse\n%s)" % (cond, kt(narrow(env, p, g, ACKABLE)),
                                            kf(narrow(env, p, "(raw_data %s)" % g, DATA)))


def isinst(fn, p, g, t, cls, env, kt, kf):
    if cls == "AckableMessage":
        if t == MESSAGE:
            return _ack_test("pm_ackable %s" % g, g, p, env, kt, kf)
        if t == ACKABLE:
            return kt(env)
        if t == DATA:
            return kf(env)
    if cls == "NoResultError" and t == ERR:
        # a positive outcome is marked by the ghost event FSaveSkip (statement context only)
        return "(if exc_is_noresult %s then\n_ <~ lift mark_noresult ;;\n%s\nelse\n%s)" % (g, kt(env), kf(env))
    return None


def isinstance_value(fn, node, env):
    """`isinstance(message, AckableMessage)` as a value: a Boolean that remembers what it tested"""
    if len(node.args) != 2 or node.keywords:
        _bad("isinstance arguments", node)
    p, cls = path_of(node.args[0]), path_of(node.args[1])
    if p is not None and p in env and env[p][1] == MESSAGE and cls == "AckableMessage":
        return "(pm_ackable %s)" % env[p][0], Ty("bool", fact=(p, cls))
    _bad("isinstance(%s, %s) as a value" % (ast.unparse(node.args[0]), ast.unparse(node.args[1])), node)


def fact_test(fn, g, t, env, kt, kf):
    p, cls = t.fact
    if p in env and env[p][1] == MESSAGE and cls == "AckableMessage":
        return _ack_test(g, env[p][0], p, env, kt, kf)
    return "(if %s then\n%s\nelse\n%s)" % (g, kt(env), kf(env))


def _args(fn, c, env, pos, kw=()):
    """positional / keyword arguments of exactly the given types -> their Gallina texts"""
    if len(c.args) != len(pos) or sorted(k.arg or "" for k in c.keywords) != sorted(n for n, _ in kw) \
            or any(isinstance(a, ast.Starred) for a in c.args):
        _bad("arguments of %s" % ast.unparse(c.func), c)
    byname = {k.arg: k.value for k in c.keywords}
    out = []
    for a, t in list(zip(c.args, pos)) + [(byname[n], t) for n, t in kw]:
        g, ta = tr_expr(fn, a, env)
        if ta != t:
            _bad("argument %s of %s has type %r, %r expected" % (ast.unparse(a), ast.unparse(c.func), ta, t), c)
        out.append(g)
    return out


def _hook_call(node):
    """await maybe_awaitable(<call>) -> <call>"""
    if isinstance(node, ast.Await) and isinstance(node.value, ast.Call) and path_of(node.value.func) == "maybe_awaitable" \
            and len(node.value.args) == 1 and not node.value.keywords and isinstance(node.value.args[0], ast.Call) \
            and isinstance(node.value.args[0].func, ast.Attribute):
        return node.value.args[0]
    return None


def prim(fn, node, env):
    c = _hook_call(node)
    if c is not None:
        g0, t0 = tr_expr(fn, c.func.value, env)
        m = c.func.attr
        if t0 == MW and m == "pre_execute":
            return "(call_pre_execute %s %s)" % (g0, _args(fn, c, env, [MSG])[0]), MSG, None
        if t0 == MW and m in ("post_execute", "post_save"):
            a = _args(fn, c, env, [MSG, RES])
            if not isinstance(c.args[1], ast.Name):
                _bad("the result handed to %s is not a local variable" % m, c)
            return "(call_%s %s %s %s)" % (m, g0, a[0], a[1]), RES, c.args[1].id
        if t0 == ACKABLE and m == "ack":
            _args(fn, c, env, [])
            return "(message_ack %s)" % g0, NONE, None
        _bad("await maybe_awaitable(%s)" % ast.unparse(c)[:60], node)
    if isinstance(node, ast.Await):
        c = node.value
        if isinstance(c, ast.Call) and isinstance(c.func, ast.Attribute):
            g0, t0 = tr_expr(fn, c.func.value, env)
            if t0 == SELF and c.func.attr == "run_task":
                a = _args(fn, c, env, [], [("target", FUNC), ("message", MSG)])
                return "(self_run_task %s %s %s)" % (g0, a[0], a[1]), RES, None
            if t0 == BACKEND and c.func.attr == "set_result":
                a = _args(fn, c, env, [TASKID, RES])
                return "(set_result %s %s %s)" % (g0, a[0], a[1]), NONE, None
        _bad("await of %s" % ast.unparse(c)[:60], node)
    if isinstance(node, ast.Call) and isinstance(node.func, ast.Attribute) and path_of(node.func.value) is not None \
            and node.func.attr in ("loads", "parse_labels", "find_task"):
        g0, t0 = tr_expr(fn, node.func.value, env)
        m = node.func.attr
        if t0 == FORMATTER and m == "loads":
            return "(formatter_loads %s %s)" % (g0, _args(fn, node, env, [], [("message", DATA)])[0]), LOADED, None
        if t0 == LOADED and m == "parse_labels" and isinstance(node.func.value, ast.Name):
            _args(fn, node, env, [])
            return "(parse_labels %s)" % g0, MSG, node.func.value.id
        if t0 == BROKER and m == "find_task":
            return "(find_task %s %s)" % (g0, _args(fn, node, env, [TASKNAME])[0]), Opt(TASK), None
        _bad("call of .%s on %r" % (m, t0), node)
    return None


def mutates(s):
    """which local's object an expression statement mutates (syntactic; cross-checked against prim())"""
    v = s.value
    c = _hook_call(v)
    if c is not None and c.func.attr in ("post_execute", "post_save") and len(c.args) == 2 and isinstance(c.args[1], ast.Name):
        return {c.args[1].id}
    if isinstance(v, ast.Call) and isinstance(v.func, ast.Attribute) and v.func.attr == "parse_labels" \
            and isinstance(v.func.value, ast.Name):
        return {v.func.value.id}
    return set()


EXT = Ext(calls={"isinstance": isinstance_value}, attrs=ATTRS, compare=COMPARE, isinst=isinst,
          truthy={"task": "true", "res": "true", "msg": "true"},
          prim=prim, mutates=mutates, fact_test=fact_test, exc_type=EXC)

SPEC = dict(
    file="taskiq/receiver/receiver.py", module="Gen_callback", translate=pygal_m.translate,
    proofs={"C02": "Src_callback_C02", "C07": "Src_callback_C07", "C10": "Src_callback_C10"},
    proof_deps=["Src_callback_common"],
    imports=["Base", "Pipeline", "PyPreludePipeline"], ext=EXT, globals=GLOBALS,
    functions=[dict(name="Receiver.callback", gname="callback_py", defaults=["False"],
                    params=[("self", SELF), ("message", MESSAGE), ("raise_err", BOOL)])])
