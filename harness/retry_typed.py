"""Typed task arguments for the C11 driver (retry_driver.py): the retried task's parameters are annotated (pydantic models,
dataclasses, containers of them, plain types, no annotation), the caller sends structured values, and the task function records
the canonical form of what it RECEIVED on every attempt.  Nothing of taskiq is re-implemented: this module only declares user
types, builds the values a caller would pass, and writes the user's task function.

case["typed"] = {"params": [{"name", "ann": key of ANNS, "how": "pos" | "kw" | "omit", "val": valspec, "dflt": key of DEFAULTS | None,
                             "expect": "same" | "json" | valspec | None}...],
                 "rest": [valspec...] | None      extra positional arguments collected by *rest (no annotation)
                 "extra": {name: valspec} | None  extra keyword arguments collected by **extra (no annotation)
                 "str_ann": bool                  annotations written as strings (from __future__ import annotations style)}
valspec = {"b": "json", "v": JSON value}
        | {"b": "inst", "cls": key of CLASSES, "set": {field: valspec}, "assign": {field: valspec}}   cls(**set), then setattr
        | {"b": "validated", "cls", "set"}   cls.model_validate(dict) - every given field counts as set, the others as unset
        | {"b": "list", "v": [valspec...]} | {"b": "dict", "v": {key: valspec}} | {"b": "ref", "of": parameter name} (the same object)
        | {"b": "py", "t": "datetime"|"date"|"decimal"|"uuid"|"bytes"|"enum"|"tuple"|"set", "v": ...}   a Python value of that type

"expect" is the claim about the FIRST attempt ("what was sent after the documented conversion"): "same" = the value the caller
passed, as an instance of the annotated type (when the worker validates parameters); "json" = its documented wire form
(pydantic's own model_dump(mode="json") / dataclasses.asdict, asked of the libraries directly, never through taskiq.compat);
a valspec = that value when the worker validates parameters (else the wire form); None = no claim.  Every later attempt must receive what the first one received - that needs no claim.

Default factories are the point: a field the caller leaves unset is filled by a factory that yields a fresh value per
construction (idempotency key, uuid, timestamp, sequence number).  The factories are deterministic per run (reset())."""
import dataclasses
import datetime
import decimal
import enum
import json
import random
import uuid
from typing import Any, Dict, FrozenSet, List, Optional, Set, Tuple, Union  # noqa: F401

import pydantic
import pydantic.dataclasses
from pydantic import BaseModel, ConfigDict, Field, field_validator

# ------------------------------------------------------------------ non-constant defaults
_STATE = {"n": 0, "rng": random.Random(0)}


def reset():
    _STATE["n"] = 0
    _STATE["rng"] = random.Random(0)


def next_req():
    _STATE["n"] += 1
    return "req-%d" % _STATE["n"]


def next_seq():
    _STATE["n"] += 1
    return _STATE["n"]


def next_uuid():
    return uuid.UUID(int=_STATE["rng"].getrandbits(128), version=4)


def next_time():
    _STATE["n"] += 1
    return datetime.datetime(2024, 1, 1) + datetime.timedelta(seconds=_STATE["n"], microseconds=_STATE["rng"].randrange(10 ** 6))


# ------------------------------------------------------------------ the user's types
class Colour(enum.Enum):
    RED = "red"
    BLUE = "blue"


class MConst(BaseModel):
    """constant defaults only"""

    a: int
    b: str = "dflt"
    c: Optional[int] = None
    d: List[int] = [1, 2]
    e: Optional[str] = "e"                                  # None is a value the caller may set, not the default


class MFactory(BaseModel):
    """an idempotency key the caller normally leaves to the factory"""

    amount: int
    request_id: str = Field(default_factory=next_req)
    note: Optional[str] = None


class MStamp(BaseModel):
    name: str = "n"
    uid: uuid.UUID = Field(default_factory=next_uuid)
    created: datetime.datetime = Field(default_factory=next_time)
    seq: int = Field(default_factory=next_seq)
    tags: List[str] = Field(default_factory=list)          # a factory whose value is a constant


class MNested(BaseModel):
    inner: MFactory
    others: List[MFactory] = Field(default_factory=list)
    opt: Optional[MStamp] = None
    by_key: Dict[str, MConst] = {}
    stamp: MStamp = Field(default_factory=MStamp)


class MRich(BaseModel):
    """fields whose Python form is not their JSON form"""

    when: datetime.date
    price: decimal.Decimal = decimal.Decimal("1.50")
    colour: Colour = Colour.RED
    pair: Tuple[int, str] = (1, "a")
    blob: bytes = b"ab"
    members: Set[int] = set()
    ratio: float = 0.1


class MAlias(BaseModel):
    model_config = ConfigDict(populate_by_name=True)
    req_id: str = Field(default_factory=next_req, alias="reqId")
    n: int = 0


class MAliasStrict(BaseModel):
    """an aliased field WITHOUT populate_by_name.  Not generated: on the unchanged tree the kicker dumps by field name
    and the worker validates by alias, so the value is lost in transit and the default (factory) takes over - see
    corpus/C11/finding_alias_field_regenerated.json.proposed"""

    req_id: str = Field(default_factory=next_req, alias="reqId")
    n: int = 0


class MExtra(BaseModel):
    model_config = ConfigDict(extra="allow")
    a: int = 1
    key: str = Field(default_factory=next_req)


class MValid(BaseModel):
    """an idempotent validator"""

    name: str
    key: str = Field(default_factory=next_req)

    @field_validator("name")
    @classmethod
    def _norm(cls, v):
        return v.strip().lower()


@dataclasses.dataclass
class DConst:
    x: int
    y: str = "y"
    z: List[int] = dataclasses.field(default_factory=list)


@dataclasses.dataclass
class DFactory:
    amount: int
    key: str = dataclasses.field(default_factory=next_req)


@dataclasses.dataclass
class DNested:
    inner: DFactory
    more: List[DConst] = dataclasses.field(default_factory=list)
    seq: int = dataclasses.field(default_factory=next_seq)


@pydantic.dataclasses.dataclass
class PDc:
    a: int
    key: str = dataclasses.field(default_factory=next_req)


CLASSES = dict(MConst=MConst, MFactory=MFactory, MStamp=MStamp, MNested=MNested, MRich=MRich, MAlias=MAlias, MExtra=MExtra,
               MAliasStrict=MAliasStrict,
               MValid=MValid, DConst=DConst, DFactory=DFactory, DNested=DNested, PDc=PDc)
ANNS = dict(CLASSES, **{
    "int": int, "str": str, "float": float, "bool": bool, "bytes": bytes, "datetime": datetime.datetime,
    "List[int]": List[int], "Dict[str,int]": Dict[str, int], "Optional[int]": Optional[int], "Union[int,str]": Union[int, str],
    "Tuple[int,str]": Tuple[int, str], "Any": Any, "none": None,
    "List[MFactory]": List[MFactory], "Dict[str,MFactory]": Dict[str, MFactory], "Optional[MFactory]": Optional[MFactory],
    "Optional[MStamp]": Optional[MStamp], "List[DFactory]": List[DFactory], "Union[MFactory,MConst]": Union[MFactory, MConst],
})
ANN_SRC = {k: k.replace(",", ", ") for k in ANNS}
ANN_SRC.update({"datetime": "datetime.datetime", "none": None})
DEFAULTS = {"none": "None", "int": "5", "str": "'d'", "list": "None"}
DEFAULT_VALUE = {"none": None, "int": 5, "str": "d", "list": None}


# ------------------------------------------------------------------ building what the caller passes
def build(spec, params):
    b = spec["b"]
    if b == "json":
        return json.loads(json.dumps(spec["v"]))
    if b == "inst":
        obj = CLASSES[spec["cls"]](**{k: build(v, params) for k, v in spec.get("set", {}).items()})
        for k, v in spec.get("assign", {}).items():
            setattr(obj, k, build(v, params))
        return obj
    if b == "validated":
        return CLASSES[spec["cls"]].model_validate({k: build(v, params) for k, v in spec.get("set", {}).items()})
    if b == "list":
        return [build(v, params) for v in spec["v"]]
    if b == "dict":
        return {k: build(v, params) for k, v in spec["v"].items()}
    if b == "ref":
        return params[spec["of"]]
    if b == "py":
        t, v = spec["t"], spec["v"]
        if t == "datetime":
            return datetime.datetime.fromisoformat(v)
        if t == "date":
            return datetime.date.fromisoformat(v)
        if t == "decimal":
            return decimal.Decimal(v)
        if t == "uuid":
            return uuid.UUID(v)
        if t == "bytes":
            return bytes(v)
        if t == "enum":
            return Colour(v)
        if t == "tuple":
            return tuple(build(x, params) for x in v)
        if t == "set":
            return {build(x, params) for x in v}
    raise ValueError(spec)


def wire_form(v):
    """the documented wire form of a value the caller passes, asked of pydantic / dataclasses directly"""
    if isinstance(v, BaseModel):
        return v.model_dump(mode="json")
    if dataclasses.is_dataclass(v) and not isinstance(v, type):
        return dataclasses.asdict(v)
    if isinstance(v, list):
        return [wire_form(x) for x in v]
    if isinstance(v, dict):
        return {k: wire_form(x) for k, x in v.items()}
    return v


# ------------------------------------------------------------------ canonical form of what the task function received
def canon(v):
    """JSON-able, by exact type; equal canonical forms <=> the user would call the arguments the same"""
    if v is None or type(v) is bool or type(v) is str:
        return v
    if type(v) is int:
        return {"i": str(v)}
    if type(v) is float:
        return {"f": "nan" if v != v else v.hex()}
    if isinstance(v, BaseModel):
        out = {"model": type(v).__name__, "fields": {k: canon(x) for k, x in sorted(v.__dict__.items())}}
        if v.__pydantic_extra__:
            out["extra"] = {k: canon(x) for k, x in sorted(v.__pydantic_extra__.items())}
        return out
    if dataclasses.is_dataclass(v) and not isinstance(v, type):
        return {"dataclass": type(v).__name__,
                "fields": {f.name: canon(getattr(v, f.name)) for f in dataclasses.fields(v)}}
    if type(v) is list:
        return {"list": [canon(x) for x in v]}
    if type(v) is tuple:
        return {"tuple": [canon(x) for x in v]}
    if type(v) in (set, frozenset):
        return {type(v).__name__: sorted((canon(x) for x in v), key=lambda c: json.dumps(c, sort_keys=True))}
    if type(v) is dict:
        return {"dict": sorted(([canon(k), canon(x)] for k, x in v.items()), key=lambda c: json.dumps(c, sort_keys=True))}
    if isinstance(v, enum.Enum):
        return {"enum": type(v).__name__, "v": canon(v.value)}
    if isinstance(v, (datetime.datetime, datetime.date)):
        return {"o": type(v).__name__, "v": v.isoformat()}
    if isinstance(v, (decimal.Decimal, uuid.UUID)):
        return {"o": type(v).__name__, "v": str(v)}
    if type(v) is bytes:
        return {"bytes": list(v)}
    return {"o": type(v).__name__, "v": repr(v)[:200]}


# ------------------------------------------------------------------ the call and the claim about the first attempt
def _json_form(v):
    """canonical form of the value's wire form after a JSON trip; NOCLAIM when the wire form is not the caller's business
    (a datetime / Decimal / ... passed as such: how the formatter spells it is not documented)"""
    try:
        return canon(json.loads(json.dumps(wire_form(v))))
    except (TypeError, ValueError):
        return NOCLAIM


NOCLAIM = object()


def build_call(typed, validate):
    """-> (args, kwargs, expect) : what the caller passes to kiq and the claim about the first attempt's arguments
    ({parameter name: canonical value}; a parameter without a claim is absent)"""
    params, args, kwargs, expect = {}, [], {}, {}
    for p in typed["params"]:
        name = p["name"]
        if p["how"] == "omit":
            expect[name] = canon(DEFAULT_VALUE[p["dflt"]])
            continue
        v = params[name] = build(p["val"], params)
        e = p.get("expect")
        if e == "same" and (not validate or p["ann"] in ("none", "Any")):
            e = "json"
        if e == "same":
            expect[name] = canon(v)
        elif e == "json":
            expect[name] = _json_form(v)
        elif e is not None:
            expect[name] = canon(build(e, params)) if validate else _json_form(v)
        if p["how"] == "pos":
            args.append(v)
        else:
            kwargs[name] = v
    if typed.get("rest") is not None:
        rest = [build(s, params) for s in typed["rest"]]
        args += rest
        expect["*rest"] = _json_form(rest)
    if typed.get("extra") is not None:
        extra = {k: build(s, params) for k, s in typed["extra"].items()}
        kwargs.update(extra)
        expect["**extra"] = _json_form(extra)
    return args, kwargs, {k: v for k, v in expect.items() if v is not NOCLAIM}


# ------------------------------------------------------------------ the user's task function
def function_source(typed, fn):
    """source text of the task function `body`; fn = shape of the function (retry_driver's env["fn"], without dep_fails)"""
    sig = []
    for p in typed["params"]:
        src = ANN_SRC[p["ann"]]
        ann = "" if src is None else ": " + (repr(src) if typed.get("str_ann") else src)
        sig.append(p["name"] + ann + ("" if p.get("dflt") is None else " = " + DEFAULTS[p["dflt"]]))
    sig.append("*rest" if typed.get("rest") is not None else "*")
    sig.append("ctx: Context = TaskiqDepends()")
    dep = {"agen_dep": "agen_dep", "gen_dep": "gen_dep", "sync_gen_dep": "gen_swallow"}.get(fn)
    if dep:
        sig.append("dep: str = TaskiqDepends(%s)" % dep)
    if typed.get("extra") is not None:
        sig.append("**extra")
    received = ["%r: canon(%s)" % (p["name"], p["name"]) for p in typed["params"]]
    if typed.get("rest") is not None:
        received.append("'*rest': canon(list(rest))")
    if typed.get("extra") is not None:
        received.append("'**extra': canon(extra)")
    is_async = fn not in ("sync", "sync_gen_dep")
    return ("%sdef body(%s):\n    act = next_act()\n    record(act, ctx, (), {%s})\n    return %s(act)\n" % (
        "async " if is_async else "", ", ".join(sig), ", ".join(received), "await aperform" if is_async else "perform"))


def make_function(typed, fn, helpers):
    """helpers: next_act, record, perform, aperform, agen_dep, gen_dep, gen_swallow (retry_driver.make_body's closures)"""
    from taskiq import Context, TaskiqDepends
    ns = dict(CLASSES)
    ns.update(helpers, Context=Context, TaskiqDepends=TaskiqDepends, canon=canon, datetime=datetime,
              List=List, Dict=Dict, Optional=Optional, Union=Union, Tuple=Tuple, Any=Any)
    src = function_source(typed, fn)
    exec(compile(src, "<typed task function>", "exec"), ns)  # noqa: S102  (the harness' own text)
    return ns["body"], src
