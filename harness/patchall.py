"""Stand-ins are put in by IDENTITY, wherever taskiq bound the real object: a function that is moved to another module
of the package (and re-exported under its old name) must meet the same controlled environment as before."""
import sys


_INSTALLED = {}     # id(real) -> the stand-in put in last time (a driver process runs many cases, each with fresh stand-ins)


def replace_everywhere(real, fake, prefix="taskiq"):
    """every attribute of every loaded module of the package that IS `real` (or the stand-in installed for it by an earlier
    call) becomes `fake`; returns the places"""
    done = []
    prev = _INSTALLED.get(id(real))
    _INSTALLED[id(real)] = fake
    for n, m in sorted(sys.modules.items()):
        if m is None or not (n == prefix or n.startswith(prefix + ".")):
            continue
        for k, v in list(vars(m).items()):
            if (v is real or (prev is not None and v is prev)) and not k.startswith("__"):
                setattr(m, k, fake)
                done.append(n + "." + k)
    return done
