"""Stand-ins are put in by IDENTITY, wherever taskiq bound the real object: a function that is moved to another module
of the package (and re-exported under its old name) must meet the same controlled environment as before."""
import sys


_INSTALLED = {}     # id(real) -> the stand-in put in last time (a driver process runs many cases, each with fresh stand-ins)


def replace_everywhere(real, fake, prefix="taskiq"):
    """every attribute of every loaded module of the package that IS `real` (or the stand-in installed for it by an earlier
    call) becomes `fake`; returns the places"""
    done = []
    prev = _INSTALLED.get(id(real))
    _INSTALLED[id(real)] = fake
    for n, m in sorted(sys.modules.items()):
        if m is None or not (n == prefix or n.startswith(prefix + ".")):
            continue
        for k, v in list(vars(m).items()):
            if (v is real or (prev is not None and v is prev)) and not k.startswith("__"):
                setattr(m, k, fake)
                done.append(n + "." + k)
    return done


import types as _types

_SHIMS = {}         # id(real module) -> forwarding stand-in module


class _Fwd(_types.ModuleType):
    """a module object that answers like `real` except for the names set on it"""

    def __init__(self, real):
        _types.ModuleType.__init__(self, real.__name__)
        self.__dict__["_real"] = real

    def __getattr__(self, n):
        return getattr(self.__dict__["_real"], n)


def patch_attr(real_module, name, fake, prefix="taskiq", later_imports=False):
    """Wherever the package reaches `real_module.<name>` it gets `fake`: the object itself bound under any name
    (`from m import name [as x]`) and the module bound under any name (`import m [as x]`, `from pkg import m`) - the latter
    becomes a forwarding stand-in module that differs from the real one in the patched names only.  Call again with the real
    object as `fake` to undo.  later_imports: see below."""
    real_obj = getattr(real_module, name)
    done = replace_everywhere(real_obj, fake, prefix)
    shim = _SHIMS.get(id(real_module))
    if shim is None:
        shim = _SHIMS[id(real_module)] = _Fwd(real_module)
    shim.__dict__[name] = fake
    done += replace_everywhere(real_module, shim, prefix)
    if later_imports:
        # an import statement that RUNS LATER - inside a function of the package, or in a module of it first imported during a
        # case - resolves through sys.modules, where the replacement of existing bindings cannot reach: it finds the forwarding
        # stand-in module there (the real module when the patch is undone).  Modules already imported keep what they bound.
        sys.modules[real_module.__name__] = real_module if fake is real_obj else shim
    return done
