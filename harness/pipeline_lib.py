"""Shared by harness/props/C02.py, C07.py, C10.py: case generators, Python->Coq printers for Pipeline.v
configurations and effect logs, per-message projections and the direct oracles (literal transcriptions of the
property statements over the implementation's log - they never look at the model)."""
import json
import random
import zlib

import common as C
from cli_args import cli_argv

E_NORESULT, E_TIMEOUT, E_DEP = 0, 1, 2
EXC_NAMES = {0: "NoResultError", 1: "TimeoutError", 2: "LookupError", 3: "ValueError", 4: "CustomError",
             5: "KeyboardInterrupt", 6: "SystemExit", 7: "CancelledError", 8: "GeneratorExit", 9: "ExceptionGroup",
             10: "BaseExceptionGroup"}
HOOK_COQ = {"pre_send": "HPreSend", "post_send": "HPostSend", "pre_execute": "HPreExec", "on_error": "HOnError",
            "post_execute": "HPostExec", "post_save": "HPostSave"}
HOOKS_MSG = ("pre_send", "pre_execute")
HOOKS_RES = ("on_error", "post_execute", "post_save")
HOOKS_ALL = ("pre_send", "post_send", "pre_execute", "on_error", "post_execute", "post_save")
KICK_COQ = {"ok": "KickOk", "dumps_fail": "DumpsFail", "kick_fail": "KickFail", "kick_fail_broker": "KickFail", "no_broker": "KickFail",
            "kick_fail_sub": "KickFail", "kick_fail_send": "KickFail"}
ACKABLE = ("sync", "async", "future", "task", "obj")     # styles of the acknowledge callable ("none" = plain bytes)
AW_STYLES = ("future", "task", "obj", "coro")           # hooks: plain functions returning a non-`async def` awaitable
ACK_COQ = {"when_received": "AckReceived", "when_executed": "AckExecuted", "when_saved": "AckSaved", None: "AckSaved"}


# ------------------------------------------------------------------------------------- labels
def typed(d):
    return {k: (float.fromhex(v["f"]) if isinstance(v, dict) else v) for k, v in d.items()}


def canon(d):
    out = []
    for k in sorted(d):
        v = d[k]
        out.append([k, type(v).__name__, v.hex() if isinstance(v, float) else v])
    return out


def ckey(c):
    return json.dumps(c, sort_keys=True)


def tmo_of_canon(c):
    """the "timeout" entry of a canonical label dict, through float(), in microseconds (None = no label)"""
    for k, tn, v in c:
        if k == "timeout":
            f = float.fromhex(v) if tn == "float" else float(v)
            return int(round(f * 1e6))
    return None


class LabelTable:
    def __init__(self, case):
        self.canons = [canon(typed(d)) for d in case["labels"]]
        self.index = {}
        for i, c in enumerate(self.canons):
            self.index.setdefault(ckey(c), i)

    def idx(self, c):
        """identifier of an observed label dict; unknown content gets an identifier the model never produces"""
        return self.index.get(ckey(c), 4000)

    def tmo(self, i):
        return tmo_of_canon(self.canons[i])

    def norm(self, i):
        """two table entries with the same content are the same label dict"""
        return self.index[ckey(self.canons[i])]


# ------------------------------------------------------------------------------------- Coq printers
def c_msg(i, lab, tmo):
    return "(mkmsg %s %s %s)" % (C.cn(min(i, 4999)), C.cn(lab), C.copt(tmo, C.cz))


def c_res(is_err, val, exc, lab):
    v = None if val is None else (val if isinstance(val, int) and not isinstance(val, bool) and 0 <= val < 4000 else 4001)
    return "(mkres %s %s %s %s)" % (C.cb(is_err), C.copt(v, C.cn), C.copt(exc, C.cn), C.cn(lab))


def c_msg_hook(h, lt):
    if h is None or h.get("inst"):
        return "None"
    a = h["act"]
    if a == "keep":
        return "(Some (fun m => Some m))"
    if a == "raise":
        return "(Some (fun _ => None))"
    if a == "raise_odd":
        return "(Some (fun m => if Nat.odd (m_id m) then None else Some m))"
    if a == "set":
        i = "(m_id m + %d)" % h["id_add"] if h.get("id_add") else "(m_id m)"
        if h.get("labels") is not None:
            return "(Some (fun m => Some (mkmsg %s %s %s)))" % (i, C.cn(lt.norm(h["labels"])), C.copt(lt.tmo(h["labels"]), C.cz))
        return "(Some (fun m => Some (mkmsg %s (m_lab m) (m_tmo m))))" % i
    raise ValueError(a)


def c_post_send_hook(h):
    if h is None or h.get("inst"):
        return "None"
    a = h["act"]
    return {"keep": "(Some (fun _ => true))", "raise": "(Some (fun _ => false))",
            "raise_odd": "(Some (fun m => negb (Nat.odd (m_id m))))"}[a]


def c_res_hook(h, real=None):
    if h is None or h.get("inst"):
        return "None"
    a = h["act"]
    if a == "real":
        # a middleware taskiq ships (the model knows hooks as arbitrary functions of the result): the function this hook
        # WAS in this run, read off its logged calls (real_hook_fns); never called = any function
        return real or "(Some (fun r => Some r))"
    return {"keep": "(Some (fun r => Some r))", "raise": "(Some (fun _ => None))",
            "raise_val_odd": "(Some (fun r => match r_val r with Some v => if Nat.odd v then None else Some r | None => Some r end))",
            "nores": "(Some (fun r => Some (mkres (r_err r) (r_val r) (Some 0) (r_lab r))))"}[a]


def c_stack(mws, lt, real=None):
    """real: {stack position: Coq function of the on_error hook of the shipped middleware there} (real_hook_fns)"""
    out = []
    for k, s in enumerate(mws):
        out.append("(mkmw %s %s %s %s %s %s)" % (
            c_msg_hook(s.get("pre_send"), lt), c_post_send_hook(s.get("post_send")), c_msg_hook(s.get("pre_execute"), lt),
            c_res_hook(s.get("on_error"), (real or {}).get(k)), c_res_hook(s.get("post_execute")),
            c_res_hook(s.get("post_save"))))
    return C.clist(out)


def real_positions(case):
    return [k for k, s in enumerate(case.get("mws") or []) if s.get("real")] if case.get("type") == "recv" else []


def real_norm(case, evs):
    """one message's events as the pipeline's own: (1) `rekick` entries (a message the shipped retry middleware sent from
    inside its on_error hook; the scripted broker's kick recorded it) are the hook's doing, not a step of the pipeline:
    dropped; (2) that hook writes into the label dict of the message it is given (AsyncKicker(labels=message.labels)
    .with_labels(_retries=n)): every later hook of this message is handed the same message object, now with the labels the
    hook left (logged at its end) - they are printed as the labels the message had before (the model's result hooks do
    not touch the message), and only if they are EXACTLY what the hook left."""
    if not real_positions(case):
        return evs
    out, back = [], {}
    for k, e in enumerate(evs):
        if e[0] == "rekick":
            continue
        if e[0] == "hook" and back and ckey(e[4]) in back:
            e = e[:4] + [back[ckey(e[4])]] + e[5:]
        if e[0] == "hook.exit" and len(e) > 5 and e[3] == "real":
            # the matching call: the last `hook` entry of this middleware before this end
            for p in reversed(out):
                if p[0] == "hook" and p[1:3] == e[1:3]:
                    if ckey(p[4]) != ckey(e[5]):
                        back[ckey(e[5])] = p[4]
                    break
        out.append(e)
    return out


def real_hook_fns(case, per, lt):
    """{stack position: Coq `option (res -> option res)`} for the shipped middlewares of a receive case: the on_error hook
    as the function of the result it was observed to be in this run - for each logged call (result labels, class of
    result.error on entry) whether the hook left result.error alone or replaced it by the no-result signal.  Two calls with
    the same argument and different outcomes, or any other change of the error: not a function of its argument - printed as
    a hook the model cannot match."""
    fns = {}
    for k in real_positions(case):
        obs, bad = {}, False
        for w, evs in enumerate(per):
            if in_d10_region(case, w, evs):
                continue              # (close mode: the hook is aborted at its first suspension - abstracted by the model)
            evs = [e for e in evs if e[0] != "rekick"]
            for j, e in enumerate(evs):
                if not (e[0] == "hook" and e[1] == "on_error" and e[2] == k):
                    continue
                x = evs[j + 1] if j + 1 < len(evs) else None
                if x is None or x[0] != "hook.exit" or x[1:3] != e[1:3] or len(x) < 5:
                    continue          # (no end logged: D10 region / abandoned coroutine)
                key = (lt.idx(e[8]), e[7])
                out = "nores" if (x[4] == E_NORESULT and e[7] != E_NORESULT) else "keep" if x[4] == e[7] else "other"
                if out == "other" or obs.setdefault(key, out) != out:
                    bad = True
        if bad:
            fns[k] = "(Some (fun _ : res => @None res))"
            continue
        fired = sorted(key for key, o in obs.items() if o == "nores" and key[1] is not None)
        if not fired:
            fns[k] = "(Some (fun r => Some r))"
        else:
            lst = C.clist(["(%s, %s)" % (C.cn(min(a, 4999)), C.cn(b)) for a, b in fired])
            fns[k] = ("(Some (fun r => Some (if existsb (fun p : nat * nat => Nat.eqb (fst p) (r_lab r) && "
                      "match r_exc r with Some x => Nat.eqb (snd p) x | None => false end) %s "
                      "then mkres (r_err r) (r_val r) (Some 0) (r_lab r) else r)))" % lst)
    return fns


def c_bout(out):
    return "(BRaise %s)" % C.cn(out["raise"]) if "raise" in out else "(BRet %s)" % C.cn(out["ret"])


def c_cfg(case, M, lt):
    kind = {"ok": "KOk", "bad": "KMalformed", "unknown": "KUnknown"}[M["kind"]]
    lab = lt.norm(M["labels"])
    dur = sum(s for s in M["segs"] if s) * 1000
    return "(mkcfg %s %s %s %s st %s %s %s %s %s %s %s %s %s)" % (
        kind, c_msg(M["id"], lab, lt.tmo(lab)), C.cb(M["ackable"] in ACKABLE), ACK_COQ[case.get("ack_type")],
        {"none": "DNone", "ok": "DOk", "fail": "DFail"}[M["dep"]], C.cb(case["propagate"]), C.cb(M["style"] == "async"),
        C.cz(dur), c_bout(M["out"]), C.cb(M.get("tie", True)), C.cb(case.get("executor") == "eager"),
        C.cb(M.get("save_ok", True)),
        C.cb(bool(M.get("raise_err"))))


def tid(s):
    return int(s[2:]) if isinstance(s, str) and s.startswith("id") and s[2:].isdigit() else 4000


UNMATCHABLE = "(FSent 4999)"      # an effect no model sequence contains


def c_eff(ev, lt, cx=None):
    """one log entry (without its `who`) -> Coq eff literal, or None for entries that are not model effects.
    cx (send side): the broker / stack the send must go through - hook indices are logged as 100 * broker + position,
    the model numbers the positions of that one stack"""
    k = ev[0]
    if cx is not None:
        if k == "hook":
            if ev[2] // 100 != cx["b"]:
                return UNMATCHABLE        # a middleware of another broker fired
            ev = ev[:2] + [ev[2] % 100] + ev[3:]
        if k in ("kick", "dumps") and len(ev) > 3 and ev[3] != cx["b"]:
            return UNMATCHABLE            # kicked into / serialised by another broker
    if k in ("save.stale", "formatter.stale"):
        return UNMATCHABLE                # the receiver used something that is not the broker's (any more)
    if k == "body.inloop":
        return UNMATCHABLE                # a sync task function was entered on the event loop's thread
    if k == "parse.fail":
        return "FParseFail"
    if k == "unknown":
        return "FUnknownTask"
    if k == "hook":
        name, i, t, labs = ev[1], ev[2], ev[3], ev[4]
        m = c_msg(tid(t), lt.idx(labs), tmo_of_canon(labs))
        if name in HOOKS_RES:
            r = c_res(ev[5], ev[6], ev[7], lt.idx(ev[8]))
            x = C.copt(ev[9], C.cn) if name == "on_error" else "None"
            return "(FHookR %s %s %s %s %s)" % (HOOK_COQ[name], C.cn(i), m, r, x)
        return "(FHookM %s %s %s)" % (HOOK_COQ[name], C.cn(i), m)
    if k == "base":      # a hook the class does not override was invoked: an effect the model never has
        return "(FHookM %s %s (mkmsg 4999 4999 None))" % (HOOK_COQ[ev[1]], C.cn(max(ev[2], 0) % 100))
    if k in ("hook.exit", "ack.exit", "rekick", "inner.start", "inner.end"):
        return None                       # (inner.*: the innermost function under the registered callable, gen_deco)
    simple = {"ack": "FAck", "exec.begin": "FExecBegin", "exec.end": "FExecEnd", "dep.open": "FDepOpen",
              "dep.saw": "FDepSaw", "dep.close": "FDepClose", "body.start": "FTaskStart", "save.exit": "FSaveOk",
              "save.raise": "FSaveErr", "done": "FDone"}
    if k in simple:
        return simple[k]
    if k == "body.end":
        if ev[1] == "cancelled":
            return "(FTaskEnd BCancelled)"
        return "(FTaskEnd (BEnded (%s %s)))" % ("BRet" if ev[1] == "ret" else "BRaise", C.cn(ev[2]))
    if k == "save.enter":
        return "(FSaveBegin %s %s)" % (C.cn(tid(ev[1])), c_res(ev[2], ev[3], ev[4], lt.idx(ev[5])))
    if k == "dumps":
        return "(FDumps %s)" % c_msg(tid(ev[1]), lt.idx(ev[2]), tmo_of_canon(ev[2]))
    if k == "kick":
        return "(FKick %s)" % c_msg(tid(ev[1]), lt.idx(ev[2]), tmo_of_canon(ev[2]))
    if k == "sent":
        return "(FSent %s)" % C.cn(tid(ev[1]))
    if k == "crash":
        x = {"CustomError": "XHook", "ConnectionError": "XBackend", "SendTaskError": "XSend", "GenExit": "XGenExit"}.get(ev[1])
        return "(FCrash %s)" % x if x else "(FSent 4999)"
    raise ValueError(ev)


def split_log(case, log):
    """per-message event lists; detached ends of sync bodies (after that message's exec.end) are set apart"""
    n = len(case["msgs"]) if case["type"] == "recv" else len(case["sends"])
    per = [[] for _ in range(n)]
    glob = []          # (who, event) in global order, detached ends removed
    late = [0] * n
    ended = [False] * n
    stray = []
    for e in log:
        w, ev = e[0], e[1:]
        if not (0 <= w < n):
            stray.append(e)
            continue
        if ev[0] == "exec.end":
            ended[w] = True
        if ev[0] == "body.end" and ended[w] and case["type"] == "recv" and case["msgs"][w]["style"] == "sync":
            late[w] += 1
            continue
        if ev[0] in ("inner.start", "inner.end") and ended[w] and case["type"] == "recv" and case["msgs"][w]["style"] == "sync":
            continue       # (the innermost function under a detached sync callable, gen_deco: evidence only)
        per[w].append(ev)
        glob.append((w, ev))
    return per, glob, late, stray


def in_d10_region(case, w, evs):
    """finding D10 (sync function raising GeneratorExit closes the callback coroutine): the model abstracts
    what still runs in close mode between the end of the body and the exception leaving callback"""
    if case["type"] != "recv":
        return False
    M = case["msgs"][w]
    return M["style"] == "sync" and M["out"] == {"raise": 8} and any(e[0] == "body.end" and e[1] == "raise" for e in evs)


def abstract_d10(case, per, glob):
    """drop, for messages in the D10 region, the events between the body's end and the crash; the crash itself
    (GeneratorExit, RuntimeError 'coroutine ignored GeneratorExit', or the exception of a hook that ran in close
    mode) becomes ["crash", "GenExit"]"""
    hit = {w for w in range(len(per)) if in_d10_region(case, w, per[w])}
    if not hit:
        return glob
    out, after = [], set()
    for w, ev in glob:
        if w in hit:
            if ev[0] == "crash" and w in after:   # GeneratorExit / RuntimeError / whatever a close-mode hook raised
                out.append((w, ["crash", "GenExit"]))
                continue
            if w in after:
                continue
            if ev[0] == "body.end":
                after.add(w)
        out.append((w, ev))
    return out


def c_case(case, obs):
    """Coq literal: let st := stack in ([(cfg, detached)...], tagged log)"""
    lt = LabelTable(case)
    per, glob, late, stray = split_log(case, obs["log"])
    g = []
    cxs = send_ctx(case) if case["type"] == "send" else None
    real = None
    if real_positions(case):
        real = real_hook_fns(case, per, lt)
        # per message: the labels the shipped retry middleware left in the message's label dict are printed as the labels
        # the message had (real_norm); positions in the global order are kept
        norm = [iter(real_norm(case, [e for e in evs if e[0] != "rekick"])) for evs in per]
        glob = [(w, next(norm[w])) for w, ev in glob if ev[0] != "rekick"]
    for w, ev in abstract_d10(case, per, glob):
        t = c_eff(ev, lt, cxs[w] if cxs else None)
        if t is not None:
            g.append("(%s, %s)" % (C.cn(w), t))
    for e in stray:   # an event nobody owns: make the run unmatchable
        g.append("(%s, FCrash XSend)" % C.cn(4999))
    if case["type"] == "recv":
        cs = []
        for M in case["msgs"]:
            det = M["style"] == "sync" and effective_tmo(case, M, lt) is not None
            cs.append("(%s, %s)" % (c_cfg(case, M, lt), C.cb(det)))
        return "(let st := %s in (%s, %s))" % (c_stack(case["mws"], lt, real), C.clist(cs), C.clist(g))
    cs, keys, sts = [], [], []
    for S, cx in zip(case["sends"], cxs):
        k = KICK_COQ[S.get("kick", "ok")]
        key = ckey(cx["stack"])
        if key not in keys:
            keys.append(key)
            sts.append(c_stack(cx["stack"], lt))
        cs.append("(%s, %s, %s)" % (C.cn(keys.index(key)), c_msg(S["id"], lt.norm(S["labels"]), lt.tmo(S["labels"])), k))
    return "(%s, %s, %s)" % (C.clist(sts), C.clist(cs), C.clist(g))


COQ_HEADER = """From Coq Require Import ZArith List Bool Arith. Import ListNotations.
From TQ Require Import Base Pipeline.
Open Scope nat_scope."""

# result list: indices of the cases where the log is not an interleaving of the model's sequences or a Boolean
# property is false on the observed sequences (coq_compare then asks Coq which of the two, per bad case)
COQ_BODY_RECV = """Definition chk (x : list (pcfg * bool) * list (nat * eff)) : bool * bool :=
  let (cs, g) := x in
  (run_matches (map fst cs) g,
   all_idx (fun i cd => match c_kind (fst cd) with
                        | KOk => let l := project i g in
                                 C02_check (fst cd) (snd cd) l && C07_check l && C10_check l
                                 && sortedb (map (phase (c_ack (fst cd))) l)
                        | _ => true end) 0 cs).
Fixpoint bad (i : nat) (l : list (list (pcfg * bool) * list (nat * eff))) : list nat :=
  match l with [] => [] | x :: t =>
    let (a, b) := chk x in
    (if a && b then [] else [i]) ++ bad (S i) t end.
Eval vm_compute in bad 0 cases."""

# a send case: the distinct middleware stacks, per send (index of the stack that is its broker's when it is sent,
# message, kick result), tagged log.  The model is stateless per send: Pipeline.kiq with that stack.
COQ_BODY_SEND = """Definition stack_of (sts : list (list mw)) (c : nat * msg * kickres) : list mw := nth (fst (fst c)) sts [].
Definition chk (x : list (list mw) * list (nat * msg * kickres) * list (nat * eff)) : bool * bool :=
  let '(sts, cs, g) := x in
  (tags_in_range (length cs) g
   && all_idx (fun i c => seq_eqb (project i g) (kiq (stack_of sts c) (snd (fst c)) (snd c))) 0 cs,
   all_idx (fun i (c : nat * msg * kickres) => let l := project i g in C10_check l && sortedb (map (phase AckSaved) l)) 0 cs).
Fixpoint bad (i : nat) (l : list (list (list mw) * list (nat * msg * kickres) * list (nat * eff))) : list nat :=
  match l with [] => [] | x :: t =>
    let (a, b) := chk x in
    (if a && b then [] else [i]) ++ bad (S i) t end.
Eval vm_compute in bad 0 cases."""


def coq_compare(ctx, label, cases, obs):
    """evaluate model and Boolean properties inside Coq; returns (corr_bad, check_bad, shard_failures)"""
    kind = cases[0]["type"] if cases else "recv"
    body = COQ_BODY_RECV if kind == "recv" else COQ_BODY_SEND
    lits = [c_case(c, o) for c, o in zip(cases, obs)]
    bad, fails, _ = C.coq_eval(ctx, label, COQ_HEADER, lits, body, shard=150)
    cb, kb = [], []
    for i in bad[:30]:
        txt = COQ_HEADER + "\n" + body.split("Fixpoint bad")[0] + "Eval vm_compute in chk %s.\n" % lits[i]
        rc, out = C.coq_eval_raw(ctx, "%s_which_%d" % (label, i), txt)
        m = __import__("re").search(r"=\s*\((true|false),\s*(true|false)\)", out)
        if not m or m.group(1) == "false":
            cb.append(i)
        if m and m.group(2) == "false":
            kb.append(i)
    cb += bad[30:]
    return cb, kb, fails


def coq_diff(ctx, case, obs):
    """replay helper: per message, the first position where implementation and model differ"""
    body = """Fixpoint fdiff (n : nat) (a b : list eff) : option (nat * option eff * option eff) :=
  match a, b with
  | [], [] => None
  | x :: a', y :: b' => if eff_eqb x y then fdiff (S n) a' b' else Some (n, Some x, Some y)
  | x :: _, [] => Some (n, Some x, None)
  | [], y :: _ => Some (n, None, Some y)
  end.
Definition the_case := %s.
""" % c_case(case, obs)
    if case["type"] == "recv":
        body += "Eval vm_compute in (let (cs, g) := the_case in map (fun ic => fdiff 0 (project (fst ic) g) " \
                "(model_obs (fst (snd ic)))) (combine (seq 0 (length cs)) cs)).\n"
    else:
        body += "Eval vm_compute in (let '(sts, cs, g) := the_case in map (fun ic => fdiff 0 (project (fst ic) g) " \
                "(kiq (nth (fst (fst (snd ic))) sts []) (snd (fst (snd ic))) (snd (snd ic)))) " \
                "(combine (seq 0 (length cs)) cs)).\n"
    rc, out = C.coq_eval_raw(ctx, "diff", COQ_HEADER + "\n" + body)
    return out


def coq_show(ctx, case, obs):
    """replay helper: print the model's sequences for one case"""
    lt = LabelTable(case)
    if case["type"] == "recv":
        real = real_hook_fns(case, split_log(case, obs["log"])[0], lt) if real_positions(case) else None
        body = "Definition st : list mw := %s.\n" % c_stack(case["mws"], lt, real)
        for i, M in enumerate(case["msgs"]):
            body += "Eval vm_compute in (%d, callback %s).\n" % (i, c_cfg(case, M, lt))
    else:
        body = ""
        for i, (S, cx) in enumerate(zip(case["sends"], send_ctx(case))):
            k = KICK_COQ[S.get("kick", "ok")]
            body += "Eval vm_compute in (%d, kiq %s %s %s).\n" % (
                i, c_stack(cx["stack"], lt), c_msg(S["id"], lt.norm(S["labels"]), lt.tmo(S["labels"])), k)
    rc, out = C.coq_eval_raw(ctx, "show", COQ_HEADER + "\n" + body)
    return out


# ------------------------------------------------------------------------------------- plan helpers (oracle side)
def class_hooks(case, name):
    """[(index, spec)] of the middlewares whose CLASS overrides `name`, in registration order"""
    return [(i, s[name]) for i, s in enumerate(case["mws"]) if s.get(name) is not None and not s[name].get("inst")]


def send_ctx(case):
    """per send: b = the broker its kicker points at when it is sent, stack = the middleware specs registered on that
    broker at that moment (scenario arithmetic only: with_broker / add_middlewares steps of the chain so far)"""
    sends = case["sends"]
    if case.get("shared"):
        return shared_ctx(case)
    stacks = [list(case["mws"])] + [list(x) for x in case.get("brokers") or []]
    adds = any((S.get("op") or {}).get("add_mws") for S in sends)
    if adds and (len({S.get("chain") for S in sends}) != 1 or sends[0].get("chain") is None):
        raise ValueError("middlewares are added between sends only in single-chain cases")
    cur, out = {}, []
    for S in sends:
        c = S.get("chain")
        if c is None or c not in cur:
            b = S.get("broker", 0)
        else:
            op = S.get("op") or {}
            b = op["broker"] if op.get("broker") is not None else cur[c]
            if op.get("add_mws"):
                stacks[b] = stacks[b] + list(op["add_mws"])
        if c is not None:
            cur[c] = b
        out.append(dict(b=b, stack=list(stacks[b])))
    return out


def shared_ctx(case):
    """send_ctx of a shared-task scenario (gen_shared; driver: shared_scenario): the broker a send must go through is the
    one its kicker is BOUND to - the default broker at the moment the kicker was obtained from the task (now, for
    task.kicker() / task.kiq(); earlier, for a kept kicker), re-pointed by with_broker; when no default broker was
    configured at that moment, the shared broker itself (index SH = number of real brokers; stack = the middlewares
    registered on the shared broker, normally none), which has no transport: that send cannot be made (kick = no_broker)"""
    sh = case["shared"]
    stacks = [list(case["mws"])] + [list(x) for x in case.get("brokers") or []] + [list(sh.get("mws") or [])]
    SH = len(stacks) - 1
    st = {"default": None}
    kept = {}

    def apply(ops):
        for op in ops or []:
            if op[0] == "default":
                st["default"] = op[1]
            elif op[0] == "unset":
                st["default"] = None
            elif op[0] == "prepare":
                kept[op[1]] = SH if st["default"] is None else st["default"]
            else:
                raise ValueError(op)
    apply(sh.get("init"))
    out = []
    for S in case["sends"]:
        h = S["sh"]
        apply(h.get("ops"))
        if h["via"] == "use":
            if h.get("rebind") is not None:
                kept[h["name"]] = h["rebind"]
            b = kept[h["name"]]
        else:
            b = SH if st["default"] is None else st["default"]
        if (b == SH) != (S.get("kick", "ok") == "no_broker"):
            raise ValueError("kick = no_broker exactly for the sends bound to the shared broker")
        out.append(dict(b=b, stack=list(stacks[b]), shared=b == SH))
    return out


def final_stacks(case):
    if case["type"] != "send":
        return [case["mws"]]
    stacks = [list(case["mws"])] + [list(x) for x in case.get("brokers") or []]
    if case.get("shared"):
        return stacks + [list(case["shared"].get("mws") or [])]
    for S, cx in zip(case["sends"], send_ctx(case)):
        if len(cx["stack"]) > len(stacks[cx["b"]]):
            stacks[cx["b"]] = cx["stack"]
    return stacks


def stack_hooks(cx, name):
    """[(logged index, spec)] of the middlewares of the send's broker whose CLASS overrides `name`"""
    return [(100 * cx["b"] + i, s[name]) for i, s in enumerate(cx["stack"])
            if s.get(name) is not None and not s[name].get("inst")]


def effective_labels_idx(case, M):
    """label table index of the message run_task receives, provided no pre_execute hook raises"""
    lab = M["labels"]
    for _, h in class_hooks(case, "pre_execute"):
        if h["act"] == "set" and h.get("labels") is not None:
            lab = h["labels"]
    return lab


def effective_tmo(case, M, lt):
    return lt.tmo(effective_labels_idx(case, M))


def pos(evs, pred):
    return [k for k, e in enumerate(evs) if pred(e)]


def is_(name):
    return lambda e: e[0] == name


# ------------------------------------------------------------------------------------- oracle: C02
def oracle_c02(case, per, late, fail):
    """statement of C02 over the implementation's per-message event sequence (total order of one message's
    events = every crash point of that message; concurrency only interleaves other messages' events)"""
    at = case.get("ack_type") or "when_saved"
    for i, M in enumerate(case["msgs"]):
        evs = per[i]
        acks = pos(evs, is_("ack"))
        if M["kind"] != "ok":
            continue                      # out of the statement's scope (C01 covers them)
        sig = dict(msg=i, ack_type=at)
        if M["ackable"] not in ACKABLE:
            continue
        completed = any(e[0] == "done" for e in evs)
        if len(acks) > 1:
            fail("acknowledged %d times" % len(acks), sig, evs)
            continue
        if completed and len(acks) != 1:
            fail("callback returned without acknowledging an ackable message", sig, evs)
            continue
        crash = [e[1] for e in evs if e[0] == "crash"]
        if crash and crash[0] != "CustomError" and not (M.get("raise_err") and crash[0] == "ConnectionError"):
            # not a hook failure (outside the quantifier) and not callback(raise_err=True): the task outcome
            # itself made callback raise
            if len(acks) != 1:
                fail("callback raised %s and left an ackable message unacknowledged" % crash[0], sig, evs)
                continue
        # every prefix = every crash point: the ack is in the prefix only if the configured point is too
        for n in range(len(evs) + 1):
            P = evs[:n]
            has_ack = any(e[0] == "ack" for e in P)
            if at == "when_received":
                st = pos(P, is_("body.start"))
                if st and not any(e[0] == "ack" for e in P[:st[0]]):
                    fail("when_received: task function started before the acknowledgement", sig, evs)
                    break
                continue
            if not has_ack:
                continue
            a = pos(P, is_("ack"))[0]
            before = P[:a]
            if at == "when_executed":
                ok = any(e[0] == "exec.end" for e in before)
                if any(e[0] == "body.start" for e in before):
                    timed_out_sync = M["style"] == "sync" and late[i] > 0
                    ok = ok and (any(e[0] == "body.end" for e in before) or timed_out_sync)
                if not ok:
                    fail("when_executed: acknowledged before the task function finished", sig, evs)
                    break
            else:
                saved = any(e[0] in ("save.exit", "save.raise") for e in before)
                skipped = (not any(e[0] == "save.enter" for e in evs)) and any(e[0] == "exec.end" for e in before) \
                    and not any(e[0] == "hook" and e[1] == "post_execute" for e in evs[a:])
                if not (saved or skipped):
                    fail("when_saved: acknowledged before the save attempt completed / was skipped", sig, evs)
                    break


def real_substituted(evs):
    """did an on_error hook of a middleware taskiq ships (the retry middleware, no_result_on_retry) replace the error of this
    message's result by the no-result signal - read off the hook's own log entries (result.error when it was called / when
    it ended); what the hook decides is the hook's business (C11), like the `nores` act of a recording hook"""
    cur = {}
    for e in evs:
        if e[0] == "hook" and e[1] == "on_error":
            cur[e[2]] = e[7]
        elif e[0] == "hook.exit" and len(e) > 5 and e[3] == "real" and e[4] == E_NORESULT and cur.get(e[2]) != E_NORESULT:
            return True
    return False


# ------------------------------------------------------------------------------------- oracle: C07
def oracle_c07(case, per, late, fail):
    lt = LabelTable(case)
    for i, M in enumerate(case["msgs"]):
        evs = per[i]
        if M["kind"] != "ok":
            if any(e[0] == "save.enter" for e in evs):
                fail("a result was stored for a message that was not executed", dict(msg=i), evs)
            continue
        sig = dict(msg=i)
        completed = any(e[0] == "done" for e in evs)
        hook_crash = any(e[0] == "crash" and e[1] == "CustomError" for e in evs)
        saves = [e for e in evs if e[0] == "save.enter"]
        if any(e[0] == "save.stale" for e in evs):
            # "stored under the message's task id": in the result backend of the broker, where clients look it up
            fail("the result was handed to a result backend that is not the broker's current one", sig, evs)
            continue
        if len(saves) > 1:
            fail("more than one result stored for one execution", sig, evs)
            continue
        # the message the task was run with: what the last pre_execute hook returned (else the parsed message)
        eff_id, eff_lab = "id%d" % M["id"], lt.canons[M["labels"]]
        for e in evs:
            if e[0] == "hook.exit" and e[1] == "pre_execute" and len(e) > 3:
                eff_id, eff_lab = e[3], e[4]
        tmo = tmo_of_canon(eff_lab)
        dur = sum(s for s in M["segs"] if s) * 1000
        # outcome of the execution according to the statement
        if M["dep"] == "fail":
            want = [(True, None, E_DEP)]
        else:
            own = (True, None, M["out"]["raise"]) if "raise" in M["out"] else (False, M["out"]["ret"], None)
            if tmo is None:
                want = [own]
            elif M["style"] == "async":
                want = [(True, None, E_TIMEOUT)] if dur > tmo else [own] if dur < tmo else [own, (True, None, E_TIMEOUT)]
            else:   # the statement makes no claim about a sync function running past its timeout label
                want = [own] if dur < tmo else [own, (True, None, E_TIMEOUT)]
        if hook_crash:
            continue                      # hook failure is outside the statement's quantifier
        if not completed:
            if not M.get("raise_err"):
                cr = [e[1] for e in evs if e[0] == "crash"]
                fail("message did not complete processing" + (" (callback raised %s)" % cr[0] if cr else ""), sig, evs)
            continue
        # no-result: raised by the function, or substituted by an on_error / post_execute hook
        subst = any(h["act"] == "nores" for _, h in class_hooks(case, "post_execute")) or \
            (any(w[0] for w in want) and any(h["act"] == "nores" for _, h in class_hooks(case, "on_error"))) or \
            real_substituted(evs)
        nores_possible = subst or any(w == (True, None, E_NORESULT) for w in want)
        nores_certain = subst or all(w == (True, None, E_NORESULT) for w in want)
        # "a failing result backend never prevents the message from completing processing": processing of an ackable
        # message under when_saved is complete only once it has been acknowledged
        if any(e[0] == "save.raise" for e in evs) and M["ackable"] in ACKABLE \
                and (case.get("ack_type") or "when_saved") == "when_saved" and not any(e[0] == "ack" for e in evs):
            fail("result backend failure prevented the message from completing processing (never acknowledged)", sig, evs)
            continue
        if not saves:
            if not nores_possible:
                fail("no result stored although the outcome is not the no-result signal", sig, evs)
            continue
        if nores_certain:
            fail("a result was stored for a no-result outcome", sig, evs)
            continue
        s = saves[0]
        got = (s[2], s[3], s[4])
        if s[1] != eff_id:
            fail("result stored under another task id", sig, evs)
        elif got not in want:
            fail("stored result does not reflect the outcome (is_err / value / exception class)",
                 dict(sig, got=list(got), want=[list(w) for w in want]), evs)
        elif ckey(s[5]) != ckey(eff_lab):
            fail("stored result does not carry the message's labels", sig, evs)


# ------------------------------------------------------------------------------------- oracle: C10
def oracle_c10_recv(case, per, late, fail):
    lt = LabelTable(case)
    for i, M in enumerate(case["msgs"]):
        evs = real_norm(case, per[i])
        sig = dict(msg=i)
        if any(e[0] == "base" for e in evs):
            fail("a hook that the middleware class does not override was invoked", sig, evs)
            continue
        if M["kind"] != "ok":
            if any(e[0] == "hook" for e in evs):
                fail("hook fired for a message that is not executed", sig, evs)
            continue
        # every hook call is awaited to completion before the pipeline goes on
        bad_await = False
        for k, e in enumerate(evs):
            if e[0] == "hook" and not (k + 1 < len(evs) and evs[k + 1][0] == "hook.exit" and evs[k + 1][1:3] == e[1:3]):
                bad_await = True
        if bad_await:
            fail("a hook was not run to completion before the next step", sig, evs)
            continue
        hook_crash = any(e[0] == "crash" and e[1] == "CustomError" for e in evs)
        # a raising hook (outside the quantifier) ends the run early: the hooks fired so far must be a prefix.  Any other
        # way callback can raise (raise_err=True with a failing backend) comes after every hook that is due.
        crashed = hook_crash or (any(e[0] == "crash" for e in evs) and is_d10(case, sig))
        seq = {n: [e[2] for e in evs if e[0] == "hook" and e[1] == n] for n in HOOKS_ALL}
        want = {n: [k for k, _ in class_hooks(case, n)] for n in HOOKS_ALL}
        raised = not any(e[0] == "body.end" and e[1] == "ret" for e in evs)   # dependency failure / raise / timeout
        saved = any(e[0] == "save.exit" for e in evs)
        if not raised:
            want["on_error"] = []
        if not saved:
            want["post_save"] = []
        want["pre_send"] = want["post_send"] = []
        for n in HOOKS_ALL:
            ok = seq[n] == want[n] if not crashed else seq[n] == want[n][:len(seq[n])]
            if n == "post_save" and not ok and seq[n] == want[n][:len(seq[n])]:
                # a raising post_save hook ends the post_save loop (swallowed by the save try-block)
                ok = any(h["act"] in ("raise", "raise_val_odd") for _, h in class_hooks(case, "post_save"))
            if not ok:
                fail("%s hooks fired %r, overridden in registration order are %r" % (n, seq[n], want[n]), sig, evs)
                break
        else:
            # message threading: each pre_execute sees what its predecessor returned
            cur = ("id%d" % M["id"], ckey(lt.canons[M["labels"]]))
            for k, e in enumerate(evs):
                if e[0] == "hook" and e[1] == "pre_execute":
                    if (e[3], ckey(e[4])) != cur:
                        fail("pre_execute did not receive its predecessor's message", sig, evs)
                        break
                    x = evs[k + 1]
                    if len(x) > 3:
                        cur = (x[3], ckey(x[4]))
                elif e[0] == "hook" and (e[3], ckey(e[4])) != cur:
                    fail("%s did not receive the message returned by the pre_execute chain" % e[1], sig, evs)
                    break
            # order between the stages
            rank = {"pre_execute": 0, "exec.begin": 1, "body.start": 2, "body.end": 3, "exec.end": 4, "dep.close": 5,
                    "on_error": 6, "post_execute": 8, "save.enter": 9, "save.exit": 10, "save.raise": 10,
                    "post_save": 11, "done": 12, "crash": 12}
            at = case.get("ack_type") or "when_saved"
            if at == "when_executed":
                rank["ack"] = 7
            last = -1
            for e in evs:
                key = e[1] if e[0] == "hook" else e[0]
                if key in rank:
                    if rank[key] < last:
                        fail("stage order violated at %s" % key, sig, evs)
                        break
                    last = rank[key]
        del hook_crash


def oracle_c10_send(case, per, fail):
    lt = LabelTable(case)
    cxs = send_ctx(case)
    for i, S in enumerate(case["sends"]):
        evs = per[i]
        sig = dict(send=i)
        if any(e[0] == "base" for e in evs):
            fail("a hook that the middleware class does not override was invoked", sig, evs)
            continue
        bad_await = False
        for k, e in enumerate(evs):
            if e[0] == "hook" and not (k + 1 < len(evs) and evs[k + 1][0] == "hook.exit" and evs[k + 1][1:3] == e[1:3]):
                bad_await = True
        if bad_await:
            fail("a hook was not run to completion before the next step", sig, evs)
            continue
        kick = S.get("kick", "ok")
        if case.get("shared") and not any(e[0] == "crash" and e[1] == "CustomError" for e in evs):
            # the statement, read on what the brokers saw: a broker that transmits a message (its kick() was entered) does so
            # after the pre_send hooks of ITS middlewares, in order, and the post_send hooks of its middlewares follow a
            # successful send; a send that cannot be made (the kicker is bound to the shared broker, which has no
            # transport) raises SendTaskError and reaches no broker
            SH = len(final_stacks(case)) - 1
            stacks = final_stacks(case)
            bad = False
            for k, e in enumerate(evs):
                if e[0] != "kick" or e[3] == SH or not (0 <= e[3] < SH):
                    continue
                b = e[3]
                if cxs[i]["shared"]:
                    fail("a send that cannot be made (kicker bound to the shared broker) reached a broker", dict(sig, broker=b), evs)
                    bad = True
                    break
                wp = [100 * b + j for j, m in enumerate(stacks[b]) if m.get("pre_send") is not None and not m["pre_send"].get("inst")]
                wq = [100 * b + j for j, m in enumerate(stacks[b]) if m.get("post_send") is not None and not m["post_send"].get("inst")]
                if [x[2] for x in evs[:k] if x[0] == "hook" and x[1] == "pre_send"] != wp:
                    fail("a broker transmitted the message without the pre_send hooks of its middlewares before it",
                         dict(sig, broker=b), evs)
                    bad = True
                    break
                if any(x[0] == "sent" for x in evs) and [x[2] for x in evs[k:] if x[0] == "hook" and x[1] == "post_send"] != wq:
                    fail("a successful send was not followed by the post_send hooks of the transmitting broker's middlewares",
                         dict(sig, broker=b), evs)
                    bad = True
                    break
            if bad:
                continue
            if cxs[i]["shared"] and not any(e[0] == "crash" and e[1] == "SendTaskError" for e in evs):
                fail("a send that cannot be made (kicker bound to the shared broker) did not raise SendTaskError", sig, evs)
                continue
        pre = [e[2] for e in evs if e[0] == "hook" and e[1] == "pre_send"]
        post = [e[2] for e in evs if e[0] == "hook" and e[1] == "post_send"]
        # the middlewares of the broker the kicker points at WHEN this send is made (indices: 100 * broker + position)
        wpre = [k for k, _ in stack_hooks(cxs[i], "pre_send")]
        wpost = [k for k, _ in stack_hooks(cxs[i], "post_send")]
        hook_crash = any(e[0] == "crash" and e[1] == "CustomError" for e in evs)
        if hook_crash:
            if pre != wpre[:len(pre)] or post != wpost[:len(post)]:
                fail("send hooks out of registration order", sig, evs)
            continue
        if pre != wpre:
            fail("pre_send hooks fired %r, overridden are %r" % (pre, wpre), sig, evs)
            continue
        cur = ("id%d" % S["id"], ckey(lt.canons[S["labels"]]))
        okthread = True
        for k, e in enumerate(evs):
            if e[0] == "hook" and e[1] == "pre_send":
                if (e[3], ckey(e[4])) != cur:
                    okthread = False
                x = evs[k + 1] if k + 1 < len(evs) else e
                if x[0] == "hook.exit" and len(x) > 3:
                    cur = (x[3], ckey(x[4]))
        if not okthread:
            fail("pre_send did not receive its predecessor's message", sig, evs)
            continue
        kicks = [e for e in evs if e[0] == "kick"]
        names = [e[1] if e[0] == "hook" else e[0] for e in evs if e[0] in ("hook", "kick", "sent", "crash")]
        if any(len(e) > 3 and e[3] != cxs[i]["b"] for e in kicks):
            fail("the message was kicked into a broker that is not the kicker's current one", sig, evs)
        elif kick == "ok":
            if len(kicks) != 1 or (kicks[0][1], ckey(kicks[0][2])) != cur:
                fail("broker did not receive exactly the message produced by the pre_send chain", sig, evs)
            elif post != wpost:
                fail("post_send hooks fired %r, overridden are %r" % (post, wpost), sig, evs)
            elif names != ["pre_send"] * len(pre) + ["kick"] + ["post_send"] * len(post) + ["sent"]:
                fail("send order violated: %r" % names, sig, evs)
            elif [e for e in evs if e[0] == "sent"][0][1] != cur[0]:
                fail("kiq returned a task with another id", sig, evs)
            elif any(e[0] == "hook" and e[1] == "post_send" and (e[3], ckey(e[4])) != cur for e in evs):
                fail("post_send did not receive the sent message", sig, evs)
        else:
            if post:
                fail("post_send fired although sending failed", sig, evs)
            elif not any(e[0] == "crash" and e[1] == "SendTaskError" for e in evs):
                fail("a failed send did not surface as SendTaskError", sig, evs)
            elif kick.startswith("kick_fail") and (len(kicks) != 1 or (kicks[0][1], ckey(kicks[0][2])) != cur):
                fail("broker did not receive exactly the message produced by the pre_send chain", sig, evs)


# ------------------------------------------------------------------------------------- generators
def g_susp(r):
    return r.choice([None, None, 0, 1, 1, 2, 3])


def gen_labels(r, strs_only=False):
    tbl = [{}]
    if strs_only:
        tbl += [{"a": "x"}, {"a": "y", "b": "zz"}, {"timeout": "0.004"}, {"q": "1", "timeout": "2"}]
        return tbl
    tbl += [{"a": "x"}, {"n": 7, "f": {"f": (0.5).hex()}}]
    for _ in range(r.randint(2, 4)):
        k = r.random()
        ms = r.choice([0, -1000, 1000]) if k < .2 else r.randint(1, 12)
        sp = r.choice(["float", "str", "int"])
        if sp == "int" and ms % 1000 == 0:
            v = ms // 1000
        elif sp == "str":
            v = repr(ms / 1000.0)
        else:
            v = {"f": (ms / 1000.0).hex()}
        d = {"timeout": v}
        if r.random() < .4:
            d["z"] = r.choice(["u", 3])
        tbl.append(d)
    return tbl


def gen_mws(r, tbl, side, p_raise=0.05, like=None):
    """like: middleware specs already registered in the same case (gen_eq: a new middleware may equal one of them)"""
    n = r.choice([0, 1, 1, 2, 2, 2, 3, 3])
    names = ("pre_send", "post_send") if side == "send" else ("pre_execute", "on_error", "post_execute", "post_save")
    out = []
    for _ in range(n):
        s = {}
        for name in names:
            if r.random() >= .6:
                continue
            h = {"async": r.random() < .5, "susp": g_susp(r)}
            if r.random() < AW_P:
                # an "async" hook that is not an `async def`: a plain function returning a Future / Task / object with
                # __await__ / coroutine object - the pipeline must wait for it exactly like for a coroutine function
                h.update({"async": True, "aw": r.choice(AW_STYLES)})
            if r.random() < .1:
                h.update(inst=True, act="keep")
                s[name] = h
                continue
            k = r.random()
            if name in HOOKS_MSG:
                if k < p_raise:
                    h["act"] = r.choice(["raise", "raise_odd"])
                elif k < .35:
                    h.update(act="set", id_add=r.choice([0, 10, 20]), inplace=r.random() < .4,
                             labels=r.choice([None] + list(range(len(tbl)))))
                else:
                    h["act"] = "keep"
            elif name == "post_send":
                h["act"] = r.choice(["raise", "raise_odd"]) if k < p_raise else "keep"
            else:
                if k < p_raise:
                    h["act"] = r.choice(["raise", "raise_val_odd"])
                elif k < (.2 if name == "on_error" else .08 if name == "post_execute" else 0):
                    h["act"] = "nores"
                else:
                    h["act"] = "keep"
            s[name] = h
        gen_shape(r, s, out)
        out.append(s)
    gen_eq(r, out, like)
    return out


AW_P = 0.08        # fraction of the hooks / ack callables that return a non-coroutine awaitable
WALL_P = 0.12      # fraction of the receive cases run under a scripted, possibly non-monotonic wall clock (gen_wall)
LATE_P = 0.2       # fraction of the receive cases in which the broker gets things after its Receiver was constructed
CHAIN_P = 0.25     # fraction of the send cases in which sends are consecutive steps on one kicker object
SHAPE_P = 0.3      # fraction of the middlewares whose hooks are not all defined on a direct subclass of TaskiqMiddleware
EQ_P = 0.12        # fraction of the stacks holding middlewares without plain identity semantics (__eq__ / __hash__ / truth)
EQ_KINDS = ["dataclass"] * 4 + ["value"] * 4 + ["always", "always", "never", "raises", "identity", "identity"]


def own_hooks(s):
    """names of the hooks the CLASS of middleware spec `s` overrides"""
    return [n for n in HOOKS_ALL if s.get(n) is not None and not s[n].get("inst")]


def gen_shape(r, s, prev):
    """class shape of one recording middleware (driver: make_mw_class).  The override mask - which hooks
    `cls.hook != TaskiqMiddleware.hook` - is the same for every shape: only WHERE in the class hierarchy the overriding
    function is defined changes (the class itself, an intermediate base class, a grandparent, a mixin), and whether two
    middlewares of the stack are instances of one class."""
    if r.random() >= SHAPE_P:
        return
    own = own_hooks(s)
    kinds = ["inherited", "inherited", "inherited+init", "mixin", "split", "split", "reoverride", "deep"]
    if prev:
        kinds += ["twin", "twin"]
    kind = r.choice(kinds)
    if kind == "twin":
        # another instance of the previous middleware's class (same hooks, same shape)
        p = prev[-1]
        for n in HOOKS_ALL:
            s.pop(n, None)
        s.update(json.loads(json.dumps({k: v for k, v in p.items() if k != "shape"})))
        sh = json.loads(json.dumps(p.get("shape") or {}))
        pk = (p.get("shape") or {}).get("kind", "direct")
        sh.update(twin=True, kind=pk if pk.startswith("twin") else "twin" if pk == "direct" else "twin+" + pk)
        s["shape"] = sh
        return
    sh = {"kind": kind}
    if kind == "inherited":
        sh.update(depth=1, at={n: "base" for n in own})
    elif kind == "inherited+init":
        sh.update(depth=r.choice([1, 1, 2]), init=True, at={n: r.choice(["base", "base", "root"]) for n in own})
    elif kind == "mixin":
        sh.update(mixin=True, mixin_mw=r.random() < .3, depth=r.choice([0, 0, 1]), at={n: "mixin" for n in own})
    elif kind == "deep":
        sh.update(depth=2, at={n: "root" for n in own})
    elif kind == "split":
        sh.update(mixin=r.random() < .5, mixin_mw=r.random() < .3, depth=r.choice([0, 1, 2]), init=r.random() < .2)
        places = ["leaf", "base", "root"] + (["mixin", "mixin"] if sh["mixin"] else [])
        sh["at"] = {n: r.choice(places) for n in own}
        if own and all(w == "leaf" for w in sh["at"].values()):
            sh["at"][r.choice(own)] = r.choice(places[1:])
    else:   # a subclass that re-overrides hooks of its base: the base's definition is shadowed, the rest is inherited
        sh.update(depth=r.choice([1, 2]), mixin=r.random() < .3, at={}, shadow={})
        for n in own:
            if r.random() < .6:
                w = r.choice(["leaf", "leaf", "mixin"] if sh["mixin"] else ["leaf"])
                sh["at"][n] = w
                sh["shadow"][n] = r.choice(["base", "root"])
            else:
                sh["at"][n] = r.choice(["base", "root"])
    s["shape"] = sh


def gen_eq(r, out, like=None):
    """middlewares that are distinct OBJECTS but do not have plain identity semantics (driver: eq_namespace).  A middleware is
    registered per object: every instance handed to add_middlewares / with_middlewares is one entry of the stack (the
    model's stack literal is unchanged), whatever ==, hash() or bool() say about it.  spec["eq"]:
      kind  dataclass - a real @dataclass with a configuration field; 2-3 positions of the stack (adjacent or not) become
                        instances of ONE such class (the spec is cloned), mostly with equal field values;
            value     - hand-written __eq__ over a configuration key, equal across different classes;
            always / never / raises - __eq__ is True for anything / False even for itself / raises;
            identity  - default equality (only hash / truth vary);
      key   the configuration (equal keys compare equal),  hash  value | none (unhashable) | id,
      truth bool (__bool__ False) | len (__len__ 0) | absent.
    like = specs registered earlier in the same case (the broker's stack when more middlewares are added between two
    sends): with probability .7 one new middleware equals one of those that have `eq` - equal instances registered in
    SEPARATE calls.  On the receive side the late-binding cases split one stack over two registration calls."""
    protos = [s for s in (like or []) if s.get("eq")]
    if not out:
        return
    if protos and r.random() < .7:
        p = r.choice(protos)
        j = r.randrange(len(out))
        if p["eq"]["kind"] == "dataclass":
            out[j] = eq_clone(p)
        else:
            out[j]["eq"] = dict(p["eq"])
        if r.random() < .6:
            eq_sync_twins(out)
            return
    elif r.random() >= EQ_P:
        return
    kind = r.choice(EQ_KINDS)
    e = dict(kind=kind, key=r.choice([0, 0, 1, 2]), hash=r.choice(["value", "none", "id"]))
    if kind == "identity" or r.random() < .2:
        e["truth"] = r.choice(["bool", "len"])
    n = len(out)
    idxs = sorted(r.sample(range(n), min(n, r.choice([2, 2, 2, 3]))))
    for k, i in enumerate(idxs):
        ek = dict(e)
        if k and r.random() < .2:
            ek["key"] = e["key"] + 1          # same class, another configuration: not equal
        if kind == "dataclass" and k:
            out[i] = eq_clone(out[idxs[0]])
        out[i]["eq"] = ek
    eq_sync_twins(out)


def eq_clone(p):
    """another instance of the class of spec p: same hooks, same shape, same special methods"""
    return json.loads(json.dumps(p))


def eq_sync_twins(out):
    """a `twin` is an instance of its predecessor's class: the two have the same special methods"""
    for _ in range(len(out)):
        for j in range(1, len(out)):
            if not (out[j].get("shape") or {}).get("twin") or hook_sig(out[j]) != hook_sig(out[j - 1]):
                continue
            a, b = out[j - 1].get("eq"), out[j].get("eq")
            if a and not b:
                out[j]["eq"] = dict(a)
            elif b and not a:
                out[j - 1]["eq"] = dict(b)
            elif a and b and {k: v for k, v in a.items() if k != "key"} != {k: v for k, v in b.items() if k != "key"}:
                out[j]["eq"] = dict(a, key=b.get("key", 0))


def hook_sig(s):
    return {n: s.get(n) for n in HOOKS_ALL}


def same_class(stack, i, j):
    """do the middlewares at positions i < j of one registration sequence share their class (driver: make_mws)"""
    a, b = stack[i], stack[j]
    ea = {k: v for k, v in (a.get("eq") or {}).items() if k != "key"}
    eb = {k: v for k, v in (b.get("eq") or {}).items() if k != "key"}
    if ea != eb or hook_sig(a) != hook_sig(b):
        return False
    sa = {k: v for k, v in (a.get("shape") or {}).items() if k not in ("twin", "kind")}
    sb = {k: v for k, v in (b.get("shape") or {}).items() if k not in ("twin", "kind")}
    if ea.get("kind") == "dataclass":
        return sa == sb
    return all((stack[k].get("shape") or {}).get("twin") and hook_sig(stack[k]) == hook_sig(a) for k in range(i + 1, j + 1))


def eq_result(stack, i, j):
    """what `stack[i] == stack[j]` evaluates to for two distinct registered instances, i < j (scenario arithmetic for the
    evidence distribution only - the oracles never use it): True / False / "raises" """
    a, b = stack[i].get("eq") or {}, stack[j].get("eq") or {}

    def one(x, y, same):
        k = x.get("kind")
        if k == "always":
            return True
        if k == "never":
            return False
        if k == "raises":
            return "raises"
        if k == "value":
            return bool(y) and y.get("key", 0) == x.get("key", 0)
        if k == "dataclass" and same:
            return y.get("key", 0) == x.get("key", 0)
        return None                      # NotImplemented
    same = same_class(stack, i, j)
    v = one(a, b, same)
    if v is None:
        v = one(b, a, same)
    return False if v is None else v


def count_eq(rep, case, per):
    """instances without plain identity semantics in the stacks, pairs of DISTINCT registered instances that compare equal
    (and how the two were registered), and hooks that fired on an instance equal to an earlier registered one"""
    stacks = final_stacks(case)
    if not any(s.get("eq") for st in stacks for s in st):
        rep.count("mw-eq:case-without(all middlewares have identity semantics)")
        return
    rep.count("mw-eq:case-with")
    late = case.get("late") or {}
    # the registration call (and its kind) that brought each position of each stack
    if case["type"] == "recv":
        nb = late.get("mws_before", len(case["mws"])) if late else len(case["mws"])
        calls = [[(0, "add_middlewares")] * nb +
                 [(1, "with_middlewares" if late.get("style", "assign") != "assign" else "add_middlewares")] *
                 (len(case["mws"]) - nb)]
    else:
        calls = [[(0, "add_middlewares")] * len(st) for st in [case["mws"]] + list(case.get("brokers") or [])]
        for k, (S, cx) in enumerate(zip(case["sends"], send_ctx(case))):
            op = S.get("op") or {}
            if op.get("add_mws"):
                calls[cx["b"]] += [(k + 1, "with_middlewares" if op.get("via_with") else "add_middlewares")] * \
                    len(op["add_mws"])
    dup = set()
    for b, st in enumerate(stacks):
        for s in st:
            e = s.get("eq")
            if e:
                rep.count("mw-eq:kind:" + e["kind"])
                rep.count("mw-eq:hash:" + ("unhashable" if e.get("hash") == "none" else e.get("hash", "id")))
                rep.count("mw-eq:truth:" + {"bool": "__bool__-false", "len": "__len__-0"}.get(e.get("truth"), "truthy"))
        for j in range(len(st)):
            for i in range(j):
                v = eq_result(st, i, j)
                if v is False:
                    continue
                if v == "raises":
                    rep.count("mw-eq:pair:==-raises")
                    continue
                dup.add(100 * b + j)
                ci, cj = calls[b][i], calls[b][j]
                how = "one-call(%s)" % cj[1] if ci[0] == cj[0] else "separate-calls(later:%s)" % cj[1]
                rep.count("mw-eq:distinct-instances-comparing-equal:registered-in-" + how)
                rep.count("mw-eq:distinct-instances-comparing-equal:" +
                          ("same-class" if same_class(st, i, j) else "different-classes"))
                rep.count("mw-eq:distinct-instances-comparing-equal:" + ("adjacent" if j == i + 1 else "not-adjacent"))
    for evs in per:
        for e in evs:
            if e[0] == "hook" and e[2] in dup:
                rep.count("mw-eq:hook-fired-on-instance-equal-to-an-earlier-one:" + e[1])


def settle(r, case, M, lt):
    """keep away from what the event loop / thread pool decides: duration = timeout (two timers tie) and a
    sync body under a non-positive timeout (pool thread races the cancel)"""
    for _ in range(4):
        t = effective_tmo(case, M, lt)
        dur = sum(s for s in M["segs"] if s) * 1000
        if t is not None and t > 0 and dur == t:
            M["segs"] = M["segs"] + [1]
        elif t is not None and t <= 0 and M["style"] == "sync":
            if case.get("executor") == "eager":
                # the body is entered for sure; it must park (virtual time) so that its end is detached
                if not M["segs"] or not M["segs"][0]:
                    M["segs"] = [r.randint(1, 4)] + [s for s in M["segs"] if s]
                break
            if case.get("executor") == "lazy":
                break              # the function never runs
            M["style"] = "async"   # default pool: genuine thread race - not generated
        else:
            break


def gen_recv(r, focus="c02", allow_d10=True):
    tbl = gen_labels(r)
    lt_dummy = None
    nm = r.choice([1, 1, 2, 2, 3, 3, 4, 5, 6])
    case = dict(type="recv", ack_type=r.choice(["when_received", "when_executed", "when_saved", "when_saved", None]),
                propagate=r.random() < .7, labels=tbl, mws=gen_mws(r, tbl, "recv", p_raise=.04 if focus != "c10" else .06))
    if r.random() < .3:
        case["executor"] = r.choice(["eager", "lazy"])
    ids = r.sample(range(10), nm)
    if nm > 1 and r.random() < .15:
        # redelivery: a second delivery of a message (same task id) while the first one may still be running
        a, b = r.sample(range(nm), 2)
        ids[b] = ids[a]
    if r.random() < .3:
        # the worker is configured through its command line: argparse -> WorkerArgs -> start_listen -> Receiver(...)
        at = case["ack_type"]
        case["cli"] = cli_argv(dict(ack_type=None if at is None else r.choice([at, at, at.upper(), at.title()]),
                                    no_propagate=not case["propagate"]))
    msgs = []
    for i in range(nm):
        k = r.random()
        kind = "ok" if k < .86 else "bad" if k < .93 else "unknown"
        M = dict(kind=kind, id=ids[i], labels=r.randrange(len(tbl)) if r.random() < .6 else r.choice([0, 1, 2]),
                 ackable=r.choice(["sync", "async", "async", "sync", "none"]) if r.random() >= AW_P else
                 r.choice(["future", "task", "obj"]), ack_susp=g_susp(r), arrive=g_susp(r),
                 style="async" if r.random() < .65 else "sync", dep=r.choice(["none", "none", "ok", "ok", "fail"]),
                 dep_async=r.random() < .5, dep_susp=g_susp(r), save_ok=r.random() < .75, save_susp=g_susp(r))
        if kind == "bad":
            M["bad"] = r.choice(["junk", "fields", "labels"])
        if r.random() < .03:
            M["raise_err"] = True
        if r.random() < (.35 if focus != "c07" else .25):
            M["out"] = {"ret": r.randrange(10)}
        else:
            M["out"] = {"raise": r.choice([0, 0, 1, 2, 3, 3, 4, 5, 6, 7, 8])}
        if M["style"] == "async":
            M["segs"] = r.choice([[], [0], [r.randint(1, 6)], [r.randint(1, 5), r.randint(0, 5)],
                                  [r.randint(1, 4), 0, r.randint(1, 4)]])
        else:
            M["segs"] = r.choice([[], [], [r.randint(1, 6)], [r.randint(1, 5), r.randint(1, 5)]])
        msgs.append(M)
    case["msgs"] = msgs
    if r.random() < LATE_P:
        case["late"] = gen_late(r, case)
    if r.random() < WALL_P:
        gen_wall(r, case)
    if not allow_d10:
        for M in msgs:   # finding D10 (sync function raising GeneratorExit) lives in the corpus, not in the random stream
            if M["style"] == "sync" and M["out"] == {"raise": 8}:
                M["out"] = {"raise": r.choice([3, 5, 6, 7])}
    # keep away from what the event loop / thread pool decides: duration = timeout (two timers tie) and a
    # sync body under a non-positive timeout (pool thread races the cancel)
    lt = LabelTable(case)
    for M in msgs:
        settle(r, case, M, lt)
    del lt_dummy
    gen_exotic(r, case)
    gen_real(case)
    gen_wire(case)
    gen_rereg(case)
    gen_life(case)
    gen_params(case)
    gen_deco(case)
    return case


PARAMS_P = 0.2     # fraction of the receive cases whose task functions TAKE ARGUMENTS from the message, with annotated parameters
NOPARSE_P = 0.12   # fraction of those run with parameter validation switched off (--no-parse / validate_params=False)
_TD = [{"user_id": 1, "amount": "7"}, {"user_id": "2", "amount": 9}, {"user_id": 3, "amount": 4}, {"user_id": "x"}, {}, 5]
# annotation kind (driver: ANNOT) -> (group for the evidence, weight, JSON values a message may carry for such a parameter:
# of the annotated type, convertible to it, not convertible - then the function gets the value as it was sent)
PARAM_KINDS = {
    "int": ("class", 6, ["5", 5, "abc", 0, True]), "str": ("class", 4, ["s", 5, ""]), "float": ("class", 2, ["1.5", 2, "x"]),
    "bool": ("class", 2, ["true", 1, True, False, "maybe"]), "bytes": ("class", 1, ["abc"]),
    "list": ("class", 1, [["1", 2], []]), "dict": ("class", 1, [{"a": 1}, {}]),
    "Any": ("special-form", 1, [{"a": 1}, 5]), "object": ("special-form", 1, [1, "s"]), "None": ("special-form", 1, [1]),
    "TypeVar": ("special-form", 1, [5]), "Type[int]": ("special-form", 1, [5]), "Callable": ("special-form", 1, [5]),
    "Optional[int]": ("generic-alias", 3, ["5", 5, "abc"]), "Union[int,str]": ("generic-alias", 2, ["5", 5, [1]]),
    "int|None": ("generic-alias", 2, ["5", "abc"]), "List[int]": ("generic-alias", 3, [["1", 2], ["a"], 5]),
    "list[int]": ("generic-alias", 2, [["1", 2], []]), "Dict[str,int]": ("generic-alias", 2, [{"a": "1"}, {"a": "x"}]),
    "Tuple[int,str]": ("generic-alias", 1, [["1", "a"], [1]]), "Set[int]": ("generic-alias", 1, [["1", 2]]),
    "FrozenSet[int]": ("generic-alias", 1, [["1", 2]]), "Sequence[int]": ("generic-alias", 1, [["1", 2]]),
    "Mapping[str,int]": ("generic-alias", 1, [{"a": "1"}]), "List[Dict[str,int]]": ("generic-alias", 1, [[{"a": "1"}], [5]]),
    "Optional[List[Optional[int]]]": ("generic-alias", 1, [["1", None]]),
    "TypedDict": ("TypedDict", 8, _TD), "TypedDict(total=False)": ("TypedDict", 3, [{"a": "1"}, {}, {"b": 5}]),
    "TypedDict(nested)": ("TypedDict", 2, [{"inner": {"user_id": 1, "amount": "7"}, "tag": "t"}, {"inner": 5}]),
    "TypedDict(Required/NotRequired)": ("TypedDict", 2, [{"a": "1"}, {"b": "s"}]),
    "typing_extensions.TypedDict": ("TypedDict", 2, [{"a": "1"}, {"a": 1}]),
    "List[TypedDict]": ("generic-alias", 2, [[{"user_id": 1, "amount": "7"}], []]),
    "Optional[TypedDict]": ("generic-alias", 2, _TD[:3]),
    "Protocol": ("Protocol", 4, [{"a": 1}, 5, "s"]), "Protocol(runtime_checkable)": ("Protocol", 2, [{"a": 1}, 5]),
    "NewType": ("NewType", 3, ["5", 5, "abc"]), "Literal[str]": ("Literal", 2, ["a", "c"]), "Literal[int]": ("Literal", 2, [1, "1", 3]),
    "Annotated[int,str]": ("Annotated", 2, ["5", 5]), "Annotated[int,Field]": ("Annotated", 2, ["5", -1]),
    "Annotated[int,dict]": ("Annotated", 1, ["5"]), "Annotated[TypedDict,str]": ("Annotated", 2, _TD[:4]),
    "plain-class": ("class-without-schema", 2, [{"a": 1}, 5]), "plain-generic[int]": ("class-without-schema", 1, [{"item": "1"}]),
    "BaseModel": ("model", 3, [{"a": "1"}, {"b": 2}, {"a": 1, "b": "y"}]), "BaseModel[int](generic)": ("model", 1, [{"item": "1"}]),
    "dataclass": ("model", 2, [{"a": "1"}, {"b": 2}]), "Enum": ("model", 1, ["red", "green"]), "IntEnum": ("model", 1, [1, "2", 5]),
    "NamedTuple": ("model", 1, [[1, "a"], ["1", "a"], [1]]),
    "datetime": ("stdlib-value-class", 1, ["2024-01-02T03:04:05", "never"]), "date": ("stdlib-value-class", 1, ["2024-01-02"]),
    "timedelta": ("stdlib-value-class", 1, [5, "P1D"]), "UUID": ("stdlib-value-class", 1, ["12345678-1234-5678-1234-567812345678", "u"]),
    "Decimal": ("stdlib-value-class", 1, ["1.5", 2]),
    "metaclass(__instancecheck__ always True)": ("metaclass-instancecheck", 2, ["5", 5]),
    "metaclass(__instancecheck__ always False)": ("metaclass-instancecheck", 1, ["5", 5]),
    "metaclass(__instancecheck__ raises)": ("metaclass-instancecheck", 3, ["5", 5, "abc"]),
    "ABC(int registered)": ("metaclass-instancecheck", 2, ["5", 5]),
    "'int'": ("forward-reference", 2, ["5", 5]), "'Payload'(TypedDict)": ("forward-reference", 3, _TD[:4]),
    "'List[Payload]'": ("forward-reference", 1, [[{"user_id": 1, "amount": "7"}]]),
    "'Optional[Runner]'(Protocol)": ("forward-reference", 1, [{"a": 1}]),
}
PARAM_FRESH = ("TypedDict", "TypedDict(total=False)", "Protocol", "BaseModel", "dataclass", "metaclass(__instancecheck__ raises)",
               "NewType")
PARAM_STAR = ("int", "str", "Optional[int]", "TypedDict", "List[int]")
PARAM_RET = ("int", "TypedDict", "Protocol", "Optional[int]", "None", "'Payload'(TypedDict)")


def gen_param_list(rw):
    kinds = sorted(PARAM_KINDS)
    weights = [PARAM_KINDS[k][1] for k in kinds]
    n = rw.choice([1, 1, 1, 2, 2, 3])
    npos = rw.randint(0, n)
    star = rw.random() < .1
    first_default = rw.randint(0, npos) if not star else npos      # positional parameters from here on have a default
    out = []
    for k in range(n):
        ann = rw.choices(kinds, weights)[0]
        p = dict(ann=ann, val=rw.choice(PARAM_KINDS[ann][2]) if rw.random() >= .08 else None)
        if k < npos:
            p["by"] = "pos"
            if k >= first_default:
                p["default"] = True
        else:
            p["by"] = "kwonly" if star else rw.choice(["kw", "kw", "kw", "kwonly", "absent"])
        if ann in PARAM_FRESH and rw.random() < .25:
            p["fresh"] = True
        out.append(p)
    if star:
        ann = rw.choice(PARAM_STAR)
        out.insert(npos, dict(ann=ann, by="star", val=[rw.choice(PARAM_KINDS[ann][2]) for _ in range(rw.choice([0, 1, 2]))]))
    return out


def gen_params(case):
    """task functions that TAKE ARGUMENTS (driver: param_sources / call_args / ANNOT).  Until now every task function of the
    pipeline family had no parameter besides its dependency and every message carried args = [], kwargs = {}: the receiver's
    parameter validation (parse_params -> taskiq.compat.parse_obj_as -> pydantic, run by run_task BEFORE its try-block) never
    had a value to look at.  In a params case most valid messages get M["params"]:
      list    1-3 parameters {ann, val, by}: ann = an annotation kind of PARAM_KINDS - plain classes, generic aliases,
              Optional / Union / X | None, TypedDict classes (total=False, nested, Required / NotRequired, typing_extensions),
              Protocol classes (plain, runtime_checkable), NewType, Literal, Annotated, pydantic models / dataclasses / enums /
              NamedTuple, stdlib value classes, classes without any schema, classes whose METACLASS defines __instancecheck__
              (always True / always False / raising / an ABC with a registered virtual subclass), special forms (Any, TypeVar,
              Type[int], Callable, None), forward references written as strings; val = the JSON value the message carries
              (of the type, convertible, NOT convertible - passed on as sent -, or null); by = pos (in args) | kw | kwonly (in
              kwargs) | absent (not sent: the default applies) | star (0-2 further positional values taken by *rest);
              default: a positional parameter that also has a default; fresh: a NEW class per task function (defined inside a
              factory) instead of the module-level one shared by every task of the process
      future  the function's module has `from __future__ import annotations`: every annotation is a string
      ret     a return annotation of one of these kinds
    case["no_parse"]: validation switched off (Receiver(validate_params=False); `--no-parse` on the command line).
    The functions registered under one NAME (re-registration groups) take the same parameters (the receiver keeps signature
    and type hints per task name, see gen_rereg).  Every kind was checked on the unchanged tree: callback completes with each
    of them.  Nothing of this is in the statements: the body, the outcome, the hooks, the acknowledgement are what they
    were - the oracles and the model's configuration are untouched.  Own generator, seeded with the case built so far."""
    rw = random.Random(zlib.crc32(("params" + json.dumps(case, sort_keys=True)).encode()))
    if rw.random() >= PARAMS_P:
        return
    if rw.random() < NOPARSE_P:
        case["no_parse"] = True
        if case.get("cli") is not None:
            case["cli"] = list(case["cli"]) + ["--no-parse"]
    groups = rereg_groups(case)
    member = {}
    for j, fs in groups.items():
        for i in [j] + fs:
            member[i] = j
    shared = {}
    some = False
    for i, M in enumerate(case["msgs"]):
        if M["kind"] != "ok":
            continue
        g = member.get(i)
        if g is not None and g in shared:
            if shared[g] is not None:
                M["params"] = json.loads(json.dumps(shared[g]))
            continue
        P = None
        if rw.random() < .8:
            P = dict(list=gen_param_list(rw))
            if rw.random() < .2:
                P["future"] = True
            if rw.random() < .15:
                P["ret"] = rw.choice(PARAM_RET)
            M["params"] = P
            some = True
        if g is not None:
            shared[g] = P
    if not some:
        case.pop("no_parse", None)
        if case.get("cli") is not None and case["cli"][-1:] == ["--no-parse"]:
            case["cli"] = case["cli"][:-1]


def param_raises_on_isinstance(p):
    """(evidence) annotations that are classes for which isinstance() raises TypeError"""
    return p["ann"] in ("TypedDict", "TypedDict(total=False)", "TypedDict(nested)", "TypedDict(Required/NotRequired)",
                        "typing_extensions.TypedDict", "Annotated[TypedDict,str]", "Protocol", "'Payload'(TypedDict)",
                        "metaclass(__instancecheck__ raises)")


def count_params(rep, case, obs):
    if case["type"] != "recv":
        return
    if not any(M.get("params") for M in case["msgs"]):
        rep.count("task-parameters:none(functions take no message arguments, args=[] kwargs={})")
        return
    rep.count("task-parameters:case-with-annotated-parameters")
    rep.count("task-parameters:validation:" + ("off(--no-parse)" if case.get("no_parse") and case.get("cli") is not None else
                                               "off(validate_params=False)" if case.get("no_parse") else "on(default)"))
    got = {g[0]: g[1:] for g in obs.get("got") or []}
    at = case.get("ack_type") or "default(when_saved)"
    for i, M in enumerate(case["msgs"]):
        P = M.get("params")
        if not P:
            continue
        rep.count("task-parameters:function-with-%d" % len(P["list"]))
        if P.get("future"):
            rep.count("task-parameters:from-__future__-import-annotations")
        if P.get("ret"):
            rep.count("task-parameters:return-annotation:" + P["ret"])
        if M.get("name_of") is not None:
            rep.count("task-parameters:function-re-registered-under-a-known-name")
        valued = False
        for p in P["list"]:
            rep.count("task-parameter:annotation:" + p["ann"])
            rep.count("task-parameter:annotation-group:" + PARAM_KINDS[p["ann"]][0])
            has = p["by"] != "absent" and p["val"] is not None and p["val"] != []
            how = {"pos": "positionally", "kw": "by-keyword", "kwonly": "by-keyword(keyword-only parameter)",
                   "absent": "not-sent(the default applies)"}.get(p["by"]) or "*rest(%d further positional values)" % len(p["val"])
            rep.count("task-parameter:passed:" + how + (",null" if p["by"] in ("pos", "kw", "kwonly") and p["val"] is None else ""))
            if p.get("fresh"):
                rep.count("task-parameter:class-defined-per-task-function(fresh)")
            if p.get("default"):
                rep.count("task-parameter:positional-with-default")
            if has and param_raises_on_isinstance(p):
                valued = True
        if valued and not case.get("no_parse"):
            rep.count("task-parameters:message-carries-a-value-for-a-class-that-refuses-isinstance(TypedDict/Protocol/metaclass):"
                      "%s,%s" % (at, "ackable" if M["ackable"] in ACKABLE else "not-ackable"))
        if i in got:
            rep.count("task-parameters:function-was-called-with-its-arguments")
            for p, tn in zip(P["list"], got[i]):
                if p["by"] in ("pos", "kw", "kwonly") and p["val"] is not None:
                    rep.count("task-parameter:function-got:" + ("value-as-sent(same type)" if tn == type(p["val"]).__name__
                                                                  else "converted-value"))


WIRE_P = 0.25      # fraction of the receive cases in which valid messages are NOT written the way make_payload always wrote them
# labels a message carries besides the ones of its table entry (tracing / correlation / routing headers, falsy values, values
# no labels_types entry can describe); none of them means anything to the receiver
WIRE_EXTRAS = [("trace_id", "abc123"), ("trace_id", "abc123"), ("priority", 3), ("flag", True), ("flag", False), ("empty", ""),
               ("zero", 0), ("ratio", {"f": (0.25).hex()}), ("tags", ["a", 1]), ("parent", None), ("queue", "high")]
WIRE_GHOSTS = [["eta", 3], ["ghost", 2], ["deadline", 4], ["debug", 5], ["blob", 6], ["misc", 1]]
WIRE_TOP = [{"sent_at": 1.5}, {"version": 2, "producer": "go-client"}, {"headers": {"x": [1, 2]}}, {"label_types": {"a": 3}}]


def wire_typable(v):
    """can a labels_types entry describe this label value (table form: a float is {"f": hex})"""
    return isinstance(v, dict) or type(v) in (int, str, bool)


def gen_wire(case):
    """the WIRE FORM of the valid (known-task / unknown-task) messages of a receive case (driver: wire_payload).  Until now
    every label of every message was typed by prepare_label and written through TaskiqMessage + the broker's formatter:
    labels_types covered exactly the labels.  M["wire"] (absent = that old form):
      via    model: TaskiqMessage(...) through a formatter | kicker: the real AsyncKicker.kiq on a client-side broker
             object with a pre_send middleware that adds labels (and removes some) AFTER the kicker computed labels_types;
             what that broker's kick() receives is the wire message | raw: a hand-written JSON mapping (another client)
      lt     dict | null | omit (field absent; raw only)
      typed  {key: spell} - the labels that have a labels_types entry.  spell std: the string a client writes for that type
             (str(value)) | num: the JSON value itself with its type | any: the JSON value with type ANY.  Every other label
             of the table entry travels as its plain JSON value with no entry: covers all / some / none of the labels, or {}
      ghost  [[key, type]] labels_types entries whose label is not there (kicker: typed by the kicker, removed by the hook)
      cfmt   the client's formatter (proxy | json), pre_send (sync | async), inplace (the hook writes into message.labels /
             returns a copy), top (extra top-level fields), text (key order, separators, escaping) for raw
    Half of these messages get 1-3 more labels than their table entry (a new table entry is appended): headers a tracing
    middleware stamps, falsy values (False, "", 0), values only an untyped label can carry (None, a list).
    Whatever the wire form, a correct receiver runs the task with exactly the label dict of the table entry (typed ones
    parsed back, untyped ones as sent): the expected labels / timeout of the oracles and of the model are unchanged.
    The random stream of gen_recv is not touched: the choices come from a generator seeded with the case built so far."""
    rw = random.Random(zlib.crc32(json.dumps(case, sort_keys=True).encode()))
    if rw.random() >= WIRE_P:
        return
    tbl = case["labels"]
    for M in case["msgs"]:
        if M["kind"] == "bad" or rw.random() >= .75:
            continue
        via = rw.choice(["model"] * 3 + ["kicker"] * 4 + ["raw"] * 3)
        lt = "dict" if via == "kicker" else rw.choice(["dict"] * 4 + ["null"] + (["omit"] if via == "raw" else []))
        if rw.random() < .5:
            d = dict(tbl[M["labels"]])
            for k, v in rw.sample(WIRE_EXTRAS, rw.choice([1, 1, 2, 3])):
                d[k] = v
            keys = [json.dumps(x, sort_keys=True) for x in tbl]
            kd = json.dumps(d, sort_keys=True)
            if kd in keys:
                M["labels"] = keys.index(kd)
            else:
                tbl.append(d)
                M["labels"] = len(tbl) - 1
        d = tbl[M["labels"]]
        can = [k for k in sorted(d) if wire_typable(d[k])]
        mode = rw.choice(["all", "all", "some", "some", "some", "none"]) if lt == "dict" else "none"
        typed = {}
        for k in can:
            if mode == "all" or (mode == "some" and rw.random() < .5):
                typed[k] = "std" if via == "kicker" or rw.random() < .7 else rw.choice(["num", "any"])
        if mode == "some" and typed and len(typed) == len(d):
            del typed[rw.choice(sorted(typed))]
        w = dict(via=via, lt=lt, typed=typed, ghost=[])
        if lt == "dict":
            w["ghost"] = [list(g) for g in rw.sample(WIRE_GHOSTS, rw.choice([0, 0, 0, 1, 2]))]
        if via != "raw":
            w["cfmt"] = rw.choice(["proxy", "proxy", "json"])
        if via == "kicker":
            w.update(pre_send=rw.choice(["sync", "sync", "async"]), inplace=rw.random() < .6)
        if via == "raw":
            if rw.random() < .5:
                w["top"] = rw.choice(WIRE_TOP)
            w["text"] = dict(ascii=rw.random() < .5, compact=rw.random() < .5, order=rw.randrange(720))
        M["wire"] = w


def wire_cover(case, M):
    """how labels_types relates to the labels of one wire message (evidence only)"""
    w = M["wire"]
    if w["lt"] != "dict":
        return "labels_types-" + w["lt"] + ("(no labels)" if not case["labels"][M["labels"]] else "")
    n, t = len(case["labels"][M["labels"]]), len(w["typed"])
    return "labels_types-" + ("{}-no-labels" if not n and not w["ghost"] else "only-entries-for-absent-labels" if not n else
                              "covers-all" if t == n else "covers-some" if t else
                              "{}-labels-present" if not w["ghost"] else "covers-none")


def count_wire(rep, case, M, evs):
    w = M.get("wire")
    if not w:
        rep.count("wire:as-always(every label typed by prepare_label, TaskiqMessage through the formatter)")
        return
    d = case["labels"][M["labels"]]
    cover = wire_cover(case, M)
    rep.count("wire:via:" + w["via"] + (",client-formatter:" + w["cfmt"] if w.get("cfmt") else ""))
    rep.count("wire:" + cover)
    if w["ghost"]:
        rep.count("wire:labels_types-entries-for-absent-labels")
    for k in d:
        sp = w["typed"].get(k)
        rep.count("wire:label:" + ("untyped" if sp is None else "typed(%s)" % {"std": "client string", "num": "JSON value + its type",
                                                                               "any": "JSON value + ANY"}[sp]))
        v = d[k]
        if sp is None and (v is None or isinstance(v, (list, bool)) or v in ("", 0)):
            rep.count("wire:untyped-label-value:" + ("None" if v is None else "list" if isinstance(v, list) else
                                                     "bool" if isinstance(v, bool) else "falsy(\"\" / 0)"))
    if "timeout" in d:
        rep.count("wire:timeout-label:" + ("typed" if "timeout" in w["typed"] else "untyped(arrives as the JSON value sent)"))
    untyped = [k for k in d if k not in w["typed"]]
    if M["kind"] == "ok" and untyped and w["lt"] == "dict":
        # labels_types is there but does not cover every label
        saves = [e for e in evs if e[0] == "save.enter"]
        if saves:
            rep.count("wire:labels_types-does-not-cover-all:result-stored")
            if all(k in [x[0] for x in saves[0][5]] for k in untyped):
                rep.count("wire:labels_types-does-not-cover-all:stored-result-carries-the-untyped-labels")
        if "timeout" in untyped and any(e[0] == "save.enter" and e[4] == E_TIMEOUT for e in evs):
            rep.count("wire:untyped-timeout-label:enforced(TimeoutError stored)")


REREG_P = 0.15     # fraction of the receive cases in which a task NAME is re-registered (another function) between two messages
REREG_SIG = [None, None, None, "extra", "kwonly", "annot", "varkw"]
REREG_VIA = [None, None, "decorator", "decorator_labels"]


def gen_rereg(case):
    """task RE-REGISTRATION between messages handled by one long-lived Receiver (driver: make_task / run_recv.one).  Until now
    every message had a task name of its own, registered once before the first message: "the function behind a name" was a
    constant of the run.  A group = an owner message j (a known task t<j>, or - one group in seven - an UNKNOWN name nope<j>
    whose message is dropped) and 1-3 followers i with M["name_of"] = j: follower i arrives strictly later (virtual time)
    than its predecessor, and at that moment the application registers follower i's function under the owner's name -
    broker.register_task / @broker.task(task_name=..) again (dynamic tasks, hot reload, a module declaring the task a second
    time) - then delivers message i.  The predecessor's execution may still be under way.  What differs between the
    functions registered under one name: sync <-> async (two thirds of the followers are of the OTHER kind than their
    predecessor), body / outcome / durations / timeout label (each message keeps its own), the parameter list (M["sig"]:
    an extra defaulted parameter, a keyword-only one, **options, annotations) and the way of registering (M["reg_via"]).
    What does not: the declared dependency - the functions of one group share one dependency callable (see notes/C07.md:
    the receiver keeps signature, type hints and dependency graph per task NAME; a function with other dependencies under
    a known name is a finding of its own).  Some followers are NEW messages (cases with few messages get a group too).
    Statement-wise nothing new: message i is executed by the function registered under its name when it is delivered -
    its own - so the oracles and the model's configuration of message i are what they were.
    The random stream of gen_recv is not touched (own generator, seeded with the case built so far)."""
    rw = random.Random(zlib.crc32(("rereg" + json.dumps(case, sort_keys=True)).encode()))
    if rw.random() >= REREG_P:
        return
    msgs = case["msgs"]
    oks = [i for i, M in enumerate(msgs) if M["kind"] == "ok"]
    unk = [i for i, M in enumerate(msgs) if M["kind"] == "unknown"]
    if not oks:
        return
    owner = rw.choice(unk) if unk and rw.random() < .3 else rw.choice(oks)
    n = rw.choice([1, 1, 2, 2, 3])
    others = [i for i in oks if i != owner]
    followers = rw.sample(others, min(len(others), n))
    used = {M["id"] for M in msgs}
    while len(msgs) < 6 and (len(followers) < n and (not followers or rw.random() < .5)):
        # a new message: a copy of a valid one with an id, outcome and body of its own
        M = json.loads(json.dumps(msgs[rw.choice(oks)]))
        for k in ("raise_err", "name_of", "wall"):
            M.pop(k, None)
        free = [x for x in range(10) if x not in used] or [M["id"]]
        M["id"] = rw.choice(free)
        used.add(M["id"])
        M["out"] = {"ret": rw.randrange(10)} if rw.random() < .5 else {"raise": rw.choice([0, 1, 2, 3, 3, 4, 5, 6, 7])}
        M["segs"] = rw.choice([[], [rw.randint(1, 6)], [rw.randint(1, 5), rw.randint(1, 5)]])
        M["new"] = True
        msgs.append(M)
        followers.append(len(msgs) - 1)
    if not followers:
        return
    rw.shuffle(followers)
    lt = LabelTable(case)
    prev = msgs[owner]
    head = prev if prev["kind"] == "ok" else None          # the first function registered under the name
    for i in followers:
        M = msgs[i]
        M["name_of"] = owner
        M["arrive"] = (prev.get("arrive") or 0) + rw.choice([1, 1, 2, 3, 5, 8, 15])
        if head is not None:
            if rw.random() < .67:
                other = "sync" if prev["style"] == "async" else "async"
                if not (other == "sync" and M["out"].get("raise") == 8):     # (finding D10 is keyed on the plain scenario)
                    M["style"] = other
            for k in ("dep", "dep_async", "dep_susp", "dep_x"):
                if k in head:
                    M[k] = json.loads(json.dumps(head[k]))
                else:
                    M.pop(k, None)
        if M["style"] == "sync":
            M["segs"] = [x for x in M["segs"] if x]
        sig = rw.choice(REREG_SIG)
        if sig:
            M["sig"] = sig
        via = rw.choice(REREG_VIA)
        if via:
            M["reg_via"] = via
        settle(rw, case, M, lt)
        if head is None:
            head = M
        prev = M


def rereg_groups(case):
    """{owner: [followers in arrival order]}"""
    g = {}
    for i, M in enumerate(case["msgs"]):
        if M.get("name_of") is not None:
            g.setdefault(M["name_of"], []).append(i)
    for j in g:
        g[j].sort(key=lambda i: case["msgs"][i].get("arrive") or 0)
    return g


def count_rereg(rep, case, per):
    g = rereg_groups(case)
    if not g:
        rep.count("task-name:registered-once(before the first message)")
        return
    rep.count("task-name:re-registered-between-messages:case")
    msgs = case["msgs"]
    for j, fs in g.items():
        rep.count("re-registration:functions-under-one-name:%d" % (len(fs) + (msgs[j]["kind"] == "ok")))
        prev = msgs[j] if msgs[j]["kind"] == "ok" else None
        for i in fs:
            M, evs = msgs[i], per[i]
            if prev is None:
                rep.count("re-registration:name-was-unknown(its first message was dropped),then-registered:" + M["style"])
            else:
                rep.count("re-registration:%s->%s" % (prev["style"], M["style"]))
            rep.count("re-registration:parameter-list:" + (M.get("sig") or "same"))
            rep.count("re-registration:via:" + (M.get("reg_via") or "register_task"))
            rep.count("re-registration:dependency:" + M["dep"])
            if M.get("new"):
                rep.count("re-registration:message-added-to-the-case")
            names = {e[0] for e in evs}
            if "body.start" in names:
                rep.count("re-registration:new-function-ran")
            for e in evs:
                if e[0] == "save.enter":
                    rep.count("re-registration:result-stored:" + ("is_err" if e[2] else "returned"))
                    if e[4] == E_TIMEOUT and M["style"] == "async" and "body.start" in names:
                        rep.count("re-registration:timeout-label-enforced-on-re-registered-async-function")
            if "save.enter" not in names and "done" in names:
                rep.count("re-registration:no-result-outcome")
            prev = M


DECO_P = 0.15      # fraction of the receive cases in which the callable REGISTERED as a task is built around the function (decorators ...)
DECO_HOW = ["wraps"] * 6 + ["wraps2"] * 4 + ["nowraps", "partial_uw", "partial_uw", "partial_named", "instance", "instance_uw",
                                             "instance_uw", "wrapped_attr", "wrapped_attr", "async_over_sync", "async_over_sync"]


def gen_deco(case):
    """HOW the task function is defined and registered (driver: decorated / make_task).  Until now the callable handed to
    broker.register_task / @broker.task was always the plain function whose body produces the outcome: "the registered
    callable" and "the function the user wrote" were one object.  M["deco"] (70 % of the valid messages of DECO_P of the cases):
      how     wraps | wraps2 (one / two functools.wraps decorator layers) | nowraps | async_over_sync (async wrapper around a
              sync function) | partial_uw (functools.partial + update_wrapper) | partial_named | instance | instance_uw
              (callable object, async ones marked with inspect.markcoroutinefunction) | wrapped_attr (__wrapped__ set by hand)
      layers  outermost first: {"on": None} passes on what happens below; {"on": "raise", "out": o} catches the exception from
              below and ends with o (a fallback value: catch; another exception: convert); {"on": "ret", "out": o} looks at the
              value from below and ends with o (another value: post-process; an exception: validate and raise); o = "final"
              stands for M["out"]
      inner   the outcome of the innermost function on its own ("final" = M["out"]: no layer changes it);  pre: the outermost layer spends M["segs"][:pre] itself
              (retry back-off / rate limiting before the call), the innermost function the rest
    M["out"], M["segs"], M["style"] keep their meaning: outcome, duration and kind OF THE REGISTERED CALLABLE - the execution
    the statement is about - so the oracles and the model's configuration are untouched.  Not generated where the unchanged
    tree does not execute the callable as what it is: a sync wrapper around an async function, an unmarked object with an
    async __call__ (both are run in the pool and "return" a coroutine object), partial / objects without __name__ /
    __annotations__ (registration fails).  Kinds other than wraps need the plain parameter list (no M["params"] / M["sig"]).
    Own generator, seeded with the case built so far."""
    rw = random.Random(zlib.crc32(("deco" + json.dumps(case, sort_keys=True)).encode()))
    if rw.random() >= DECO_P:
        return
    lt = LabelTable(case)
    for M in case["msgs"]:
        if M["kind"] != "ok" or rw.random() >= .7:
            continue
        if M["style"] == "sync":
            if M["out"] == {"raise": 8}:
                continue                 # (finding D10 is keyed on the plain scenario)
            t = effective_tmo(case, M, lt)
            if t is not None and t <= 0:
                continue                 # (scripted executors: the body's first segment decides the thread race)
        how = rw.choice(DECO_HOW)
        if how not in ("wraps", "wraps2") and (M.get("params") or M.get("sig")):
            how = "wraps"
        if how == "async_over_sync" and M["style"] != "async":
            how = "wraps2"
        n = 2 if how == "wraps2" else 1
        change = [True] if n == 1 else rw.choice([[True, True], [True, False], [False, True]])
        segs = M["segs"]
        pre = len(segs) if how == "async_over_sync" else rw.randint(0, len(segs))
        if rw.random() < .12 and any(segs[:pre]):
            change = [False] * n         # the layers change the duration only
        cur = {k: v for k, v in M["out"].items() if k != "x"}
        layers, first = [], True
        for ch in change:
            if not ch:
                layers.append({"on": None})
                continue
            if "ret" in cur:
                below = {"raise": rw.choice([3, 3, 2, 1, 0])} if rw.random() < .5 else \
                    {"ret": rw.choice([v for v in range(10) if v != cur["ret"]])}
            else:
                below = {"ret": rw.randrange(10)} if rw.random() < .6 else \
                    {"raise": rw.choice([e for e in (3, 3, 2, 1, 0) if e != cur["raise"]])}
            layers.append({"on": "raise" if "raise" in below else "ret", "out": "final" if first else cur})
            first = False
            cur = below
        M["deco"] = dict(how=how, layers=layers, inner=cur if any(change) else "final", pre=pre)
        if "reg_via" not in M:
            via = rw.choice(REREG_VIA)
            if via:
                M["reg_via"] = via


def deco_act(below, out):
    if "raise" in below:
        return "catches-exception->returns-fallback" if "ret" in out else "converts-exception"
    return "post-processes-value" if "ret" in out else "validates-value->raises"


def count_deco(rep, case, per):
    if not any(M.get("deco") for M in case["msgs"]):
        rep.count("task-callable:plain-function:case")
        return
    rep.count("task-callable:built-around-the-function:case")
    for i, M in enumerate(case["msgs"]):
        D = M.get("deco")
        if M["kind"] != "ok":
            continue
        if not D:
            rep.count("task-callable:plain-function")
            continue
        evs = per[i]
        rep.count("task-callable:%s:%s" % (D["how"], M["style"]))
        rep.count("task-callable:registered-via:" + (M.get("reg_via") or "register_task"))
        rep.count("task-callable:dependency:" + M["dep"] + (",message-parameters" if M.get("params") else ""))
        outs = [M["out"] if L["out"] == "final" else L["out"] for L in D["layers"] if L["on"] is not None]
        D = dict(D, inner=M["out"] if D["inner"] == "final" else D["inner"])
        for o, b in zip(outs, outs[1:] + [D["inner"]]):
            rep.count("task-callable:layer:" + deco_act(b, o))
        for L in D["layers"]:
            if L["on"] is None:
                rep.count("task-callable:layer:passes-through")
        if D["inner"].get("raise") == E_NORESULT:
            rep.count("task-callable:innermost-function-raises-NoResultError(wrapper returns / raises something else)")
        if M["out"].get("raise") == E_NORESULT:
            rep.count("task-callable:wrapper-raises-NoResultError")
        if any(M["segs"][:D["pre"]]):
            rep.count("task-callable:outermost-layer-takes-time-before-the-call")
        if not any(L["on"] is not None for L in D["layers"]):
            rep.count("task-callable:layers-change-the-duration-only")
        names = {e[0] for e in evs}
        if "body.start" in names:
            rep.count("task-callable:registered-callable-ran")
        if "inner.start" in names:
            rep.count("task-callable:innermost-function-ran-underneath")
        for e in evs:
            if e[0] == "save.enter":
                own = (True, None, M["out"]["raise"]) if "raise" in M["out"] else (False, M["out"]["ret"], None)
                inner = (True, None, D["inner"]["raise"]) if "raise" in D["inner"] else (False, D["inner"]["ret"], None)
                got = (e[2], e[3], e[4])
                rep.count("task-callable:stored-result:" + ("outcome-of-the-registered-callable" if got == own else
                                                            "outcome-of-the-innermost-function" if got == inner else "other(timeout, dependency, hook)"))
        if "save.enter" not in names and "done" in names:
            rep.count("task-callable:nothing-stored(no-result outcome)")


LIFE_P = 0.2       # fraction of the cases (receive and send) with startup() / shutdown() calls on the broker object(s)
LIFE_PRE = [["startup"], ["startup"], ["startup", "shutdown", "startup"], ["startup", "shutdown", "startup"],
            ["startup", "shutdown", "startup"], ["startup", "cycle"], ["startup", "shutdown"], ["shutdown"], ["shutdown", "startup"],
            ["startup", "startup"], ["startup", "cycle", "cycle"], ["startup", "shutdown", "shutdown", "startup"],
            ["startup", "cycle", "cycle", "cycle"], []]
LIFE_MID = ["shutdown", "shutdown", "shutdown", "startup", "cycle"]


def gen_life(case):
    """the LIFE CYCLE of the broker object (driver: life_ops / life_task).  Until now the broker of a pipeline case was never
    started nor stopped (the WORKER_STARTUP late-binding cases: started once): its middleware stack was only ever touched by
    add_middlewares.  case["life"]:
      cls       plain: a minimal AsyncBroker subclass with scripted kick / listen (startup / shutdown are the base class's) |
                super: a subclass whose startup() / shutdown() do their own work around super() - like third-party brokers
      pre       calls made, one after the other, before the first message / send: startup; startup, shutdown, startup (a
                module-level broker re-used by the next application lifespan / test case); only shutdown; startup twice; ...
                (receive: one list; send: one list per broker)
      at        calls made WHILE messages are processed / sent: [[ms, op]] (send: [[ms, broker, op]]), op = shutdown |
                startup | cycle (shutdown, then startup) - a shutdown in the middle of an execution is what a worker does
                when wait_tasks_timeout elapsed
      mw_hooks  per middleware None | sync | async: its class also overrides startup / shutdown (async: takes 1 ms)
    send chains: S["op"]["life"] = calls made on the kicker's current broker between two sends on one kicker.
    None of this appears in the statement: whatever the life cycle did, every hook is due once, in REGISTRATION order."""
    rw = random.Random(zlib.crc32(("life" + json.dumps(case, sort_keys=True)).encode()))
    if rw.random() >= LIFE_P:
        return
    life = dict(cls=rw.choice(["plain", "plain", "super"]))
    if case["type"] == "recv":
        life["pre"] = list(rw.choice(LIFE_PRE))
        life["at"] = sorted([[rw.randint(0, 12), rw.choice(LIFE_MID)] for _ in range(rw.choice([0, 1, 1, 2, 3]))],
                            key=lambda x: x[0])
        life["mw_hooks"] = [rw.choice([None, None, "sync", "async"]) for _ in case["mws"]]
        if not life["pre"] and not life["at"]:
            life["at"] = [[rw.randint(0, 6), "shutdown"]]
    else:
        stacks = [case["mws"]] + list(case.get("brokers") or [])
        life["pre"] = [list(rw.choice(LIFE_PRE)) for _ in stacks]
        life["at"] = sorted([[rw.randint(0, 8), rw.randrange(len(stacks)), rw.choice(LIFE_MID)]
                             for _ in range(rw.choice([0, 0, 1, 1, 2]))], key=lambda x: x[0])
        life["mw_hooks"] = [[rw.choice([None, None, "sync", "async"]) for _ in st] for st in stacks]
        for S in case["sends"]:
            if S.get("op") is not None and rw.random() < .5:
                S["op"]["life"] = list(rw.choice([["shutdown", "startup"], ["cycle"], ["shutdown"], ["startup"],
                                                  ["startup", "shutdown", "startup"], ["cycle", "cycle"]]))
    case["life"] = life


def n_shutdowns(ops):
    return sum(1 if o == "shutdown" else 1 if o == "cycle" else 0 for o in ops or [])


def count_life(rep, case, obs):
    life = case.get("life")
    if not life:
        rep.count("broker-life-cycle:none(never started nor stopped)" if not (case.get("late") or {}).get("style") == "startup"
                  else "broker-life-cycle:none(started once by the late-binding case)")
        return
    rep.count("broker-life-cycle:case:" + case["type"])
    rep.count("broker-life-cycle:class:" + ("AsyncBroker-subclass(base startup/shutdown)" if life["cls"] == "plain" else
                                           "subclass-overriding-startup/shutdown(calls super)"))
    pres = [life["pre"]] if case["type"] == "recv" else life["pre"]
    for ops in pres:
        rep.count("broker-life-cycle:before-first-message:" + ("-".join(ops) or "nothing"))
        k = n_shutdowns(ops)
        rep.count("broker-life-cycle:shutdowns-before-first-message:%s" % ("0" if not k else "odd" if k % 2 else "even"))
    for x in life.get("at") or []:
        rep.count("broker-life-cycle:while-messages-are-under-way:" + x[-1])
    for S in case.get("sends") or []:
        if (S.get("op") or {}).get("life"):
            rep.count("broker-life-cycle:between-two-sends-on-one-kicker:" + "-".join(S["op"]["life"]))
    hooks = life["mw_hooks"] if case["type"] == "recv" else [h for st in life["mw_hooks"] for h in st]
    for h in hooks:
        rep.count("broker-life-cycle:middleware-startup/shutdown-hooks:" + (h or "not-overridden"))
    stacks = [case["mws"]] + list(case.get("brokers") or [])
    if any(len([s for s in st if n in own_hooks(s)]) >= 2 for st in stacks for n in HOOKS_ALL):
        rep.count("broker-life-cycle:stack-has->=2-middlewares-overriding-one-hook")
    for e in obs.get("life") or []:
        if e[0] == "broker.shutdown.begin" and len(e) > 2 and case["type"] == "recv":
            rep.count("broker-life-cycle:shutdown()-called-while-%s" % ("no-message-is-executing" if not e[2] else
                                                                         "a-message-is-executing"))
        if e[0] in ("mw.startup", "mw.shutdown"):
            rep.count("broker-life-cycle:middleware-" + e[0][3:] + "-hook-ran")


EXC_P = 0.10       # fraction of the raising task bodies whose exception is not a plain instance of a class of the table
LOG_P = 0.04       # fraction of the other receive cases run with logging configured (half of the cases with such a body)
X_ARGS = ["empty", "unpicklable", "unpicklable", "unjsonable", "unjsonable", "huge", "nested"]


def gen_xclass(r, b, group=False):
    """class part of an exception description (driver: exc_class); b = identifier of the table class it derives from"""
    kinds = [None, "sub", "eq", "eq", "eq", "dataclass", "dataclass", "init"]
    if b == 0:
        kinds = [None, "sub", "eq", "eq"]       # NoResultError is an izulu template error: no dataclass / own __init__
    if group:
        kinds = [None, None, "sub", "eq"]
    kind = r.choice(kinds)
    x = {}
    if kind is None:
        return x
    x["cls"] = kind
    if kind == "eq":
        x.update(eq=r.choice(["value", "value", "always", "never", "raises"]),
                 hash=r.choice(["none", "none", "value", "id", "raises"]), key=r.choice([0, 0, 1]))
    elif kind == "dataclass":
        x["hash"] = r.choice(["none", "none", "none", "value", "raises", "id"])
    elif r.random() < .25:
        x["hash"] = r.choice(["none", "raises"])
    if r.random() < .15:
        x["truth"] = r.choice(["bool", "len"])
    if r.random() < .15:
        x["str"] = r.choice(["str", "repr", "both"])
    if b != 0 and not group and kind != "init" and r.random() < .3:
        x["args"] = r.choice(X_ARGS)
    if r.random() < .1:
        x["attr"] = "unpicklable"
    return x


def gen_xspec(r, b, group_ok):
    """what a task body (a failing dependency) raises instead of EXC[b](): returns (id, x) - see exc_instance in the driver"""
    x = {}
    if group_ok and r.random() < .12:
        # an exception GROUP (Python 3.11: TaskGroup / anyio task groups raise them): ExceptionGroup is an Exception,
        # BaseExceptionGroup (some member is not an Exception) is not
        base = r.random() < .4
        mem = [r.choice([5, 6, 7, 8])] if base else []
        mem += [r.choice([0, 1, 2, 3, 3, 4]) for _ in range(r.choice([1, 1, 2, 3]) - len(mem))] or [3]
        r.shuffle(mem)
        b = 10 if base else 9
        x["group"] = [dict({"raise": m}, **({"x": gx} if gx else {})) for m in mem
                      for gx in [gen_xclass(r, m) if r.random() < .4 else {}]]
        x.update(gen_xclass(r, b, group=True))
    else:
        x.update(gen_xclass(r, b))
    if r.random() < .45 or not x:
        chain = []
        for _ in range(r.choice([1, 1, 1, 2, 3])):
            lb = r.choice([0, 1, 2, 3, 3, 3, 4, 4, 5, 7])
            ln = {"via": r.choice(["cause", "context", "context"]), "raise": lb}
            lx = gen_xclass(r, lb) if r.random() < .6 else {}
            if lx:
                ln["x"] = lx
            chain.append(ln)
        x["chain"] = chain
    if r.random() < .15:
        x["cycle"] = r.choice(["context", "cause"])
    if r.random() < .12:
        x["suppress"] = r.random() < .5
    if r.random() < .12:
        x["shared"] = True
    return b, x


def unhashable_spec(x):
    return bool(x) and bool(x.get("cls")) and x.get("hash") in ("none", "raises")


def xspec_members(x):
    """[(role, description)] of every exception object of one description: head, chain links, group members"""
    out = [("head", x)]
    for ln in x.get("chain") or []:
        out.append(("link", ln.get("x") or {}))
    for m in x.get("group") or []:
        out.append(("member", m.get("x") or {}))
    return out


def gen_exotic(r, case):
    """widen WHAT a task body raises (the exception table fixes nine classes, raised as `Cls()`): an instance of a derived
    class with special methods of its own (__eq__, __hash__ = None, @dataclass, __bool__ / __len__, raising __str__ /
    __repr__, own __init__), with unusual args / attributes, an exception group, an exception with a __cause__ /
    __context__ chain (possibly cyclic, possibly holding such objects), one object raised by several messages.  For the
    pipeline the outcome is unchanged: "raised an EXC[id]" - M["out"]["raise"] stays the identifier the model sees."""
    first = None
    for M in case["msgs"]:
        if M["kind"] != "ok" or "raise" not in M["out"] or r.random() >= EXC_P:
            continue
        if M["style"] == "sync" and M["out"]["raise"] == 8:
            continue                         # finding D10 is keyed on exactly {"raise": 8}
        if first is not None and r.random() < .35 and not (M["style"] == "sync" and first["raise"] == 8):
            # the same description as an earlier message: the same class, and (shared, mostly) the very same object
            if r.random() < .7:
                first["x"]["shared"] = True
            M["out"] = json.loads(json.dumps(first))
            if not first["x"].get("shared"):
                M["out"]["x"].pop("shared", None)
            continue
        b, x = gen_xspec(r, M["out"]["raise"], True)
        M["out"] = {"raise": b, "x": x}
        if first is None:
            first = M["out"]
    for M in case["msgs"]:
        # the exception of a FAILING DEPENDENCY (a LookupError for the model): the same widening
        if M["kind"] == "ok" and M["dep"] == "fail" and r.random() < EXC_P:
            M["dep_x"] = gen_xspec(r, E_DEP, False)[1]
    exo = any((M.get("out") or {}).get("x") or M.get("dep_x") for M in case["msgs"])
    if r.random() < (.5 if exo else LOG_P):
        case["logging"] = True


REAL_P = 0.15      # fraction of the receive cases whose stack holds a middleware taskiq SHIPS (SimpleRetryMiddleware) next to the recording ones
# the retry-control labels as a message can carry them (table value = what the receiver runs the task with, after
# parse_labels: a label typed through labels_types arrives with its type, an untyped one - older / non-Python producer, a
# label declared as a string - as the JSON value that was sent; gen_wire then picks the wire form).  Only values every
# released version of the middleware accepts: numbers, numeric strings, booleans.
RETRY_ON = [True, True, True, "True", "True", "true", "TRUE", 1, False, "False", "false", 0, "1", "yes", ""]
RETRY_MAX = [3, 3, 2, 1, 0, 5, 20, -1, "3", "3", "3", "2", "1", "0", "5", "20", " 4 ", "+2", {"f": (2.0).hex()}, {"f": (3.5).hex()}, True]
RETRY_COUNT = [0, 1, 1, 2, 2, 4, "0", "1", "2", "3", {"f": (1.0).hex()}]


def gen_real(case):
    """a middleware taskiq SHIPS in the stack of a receive case (driver: make_real_mw).  Until now every middleware of the
    pipeline family was a recording class of the harness: the code of taskiq/middlewares never ran under these properties.
    The spec {"real": "retry", "opts": {...}, "on_error": {"act": "real", ...}} stands for an instance of (a subclass of)
    SimpleRetryMiddleware constructed with `opts` (default_retry_count, default_retry_label, no_result_on_retry), at any
    position of the stack; a third of them are application subclasses overriding further (recording) hooks.  Most valid
    messages of such a case carry retry-control labels - retry_on_error, max_retries, _retries, each present or absent,
    as bool / int / float / str ("True", "3", " 4 ") - appended to their label table entry, so the later stages (wire forms:
    typed through labels_types, untyped, raw JSON of another client; pre_execute hooks replacing the labels) apply to
    them.  What the hook does with a failing task - nothing, or a re-send through the real kicker into the scripted
    broker's kick (recorded as `rekick`, takes case["rekick_susp"] ms) and possibly the no-result signal as the result's
    error - is the hook's business: for the pipeline it is an on_error hook like any other, due once, in registration
    order, awaited to completion, and whatever it does the message is acknowledged exactly once at its configured point
    and completes.  PrometheusMiddleware, the other shipped one, needs the prometheus_client package (not installed).
    Own generator, seeded with the case built so far: cases it leaves alone are what they were."""
    rw = random.Random(zlib.crc32(("real" + json.dumps(case, sort_keys=True)).encode()))
    if rw.random() >= REAL_P:
        return
    tbl, mws = case["labels"], case["mws"]
    for _ in range(2 if rw.random() < .1 else 1):
        spec = dict(real="retry",
                    opts=dict(default_retry_count=rw.choice([3, 3, 3, 1, 2, 5, 0]), default_retry_label=rw.random() < .35,
                              no_result_on_retry=rw.random() < .75),
                    on_error={"async": True, "susp": g_susp(rw), "act": "real"})
        if rw.random() < .3:
            # an application's subclass of the shipped class that overrides further hooks
            for name in ("pre_execute", "post_execute", "post_save"):
                if rw.random() < .45:
                    spec[name] = {"async": rw.random() < .5, "susp": g_susp(rw), "act": "keep"}
        places = [k for k in range(len(mws) + 1) if k == len(mws) or not (mws[k].get("shape") or {}).get("twin")]
        mws.insert(rw.choice(places), spec)
    if rw.random() < .6:
        case["rekick_susp"] = rw.choice([0, 1, 1, 2, 3])
    keys = [json.dumps(x, sort_keys=True) for x in tbl]
    for M in case["msgs"]:
        if M["kind"] == "bad" or rw.random() >= .85:
            continue
        d = dict(tbl[M["labels"]])
        if rw.random() < .75:
            d["retry_on_error"] = rw.choice(RETRY_ON)
        if rw.random() < .7:
            d["max_retries"] = rw.choice(RETRY_MAX)
        if rw.random() < .35:
            d["_retries"] = rw.choice(RETRY_COUNT)
        kd = json.dumps(d, sort_keys=True)
        if kd not in keys:
            tbl.append(d)
            keys.append(kd)
        M["labels"] = keys.index(kd)


def retry_label_form(v):
    return "absent" if v is None else "float" if isinstance(v, dict) else type(v).__name__


def count_real(rep, case, per):
    """shipped middlewares in the stack: options, position, the wire types of the retry-control labels of the messages that
    reached the hook, and what the hook was observed to do"""
    ks = real_positions(case)
    if not ks:
        rep.count("shipped-middleware:none(recording middlewares only)")
        return
    rep.count("shipped-middleware:case-with-SimpleRetryMiddleware")
    for k in ks:
        s = case["mws"][k]
        rep.count("shipped-middleware:position:" + ("only" if len(case["mws"]) == 1 else "first" if k == 0 else
                                                    "last" if k == len(case["mws"]) - 1 else "middle"))
        rep.count("shipped-middleware:" + ("application-subclass-overriding-further-hooks" if len(own_hooks(s)) > 1
                                           else "plain"))
        for o, v in sorted(s["opts"].items()):
            rep.count("shipped-middleware:retry-option:%s=%s" % (o, v))
    at = case.get("ack_type") or "default(when_saved)"
    for i, M in enumerate(case["msgs"]):
        if M["kind"] != "ok":
            continue
        evs = per[i]
        d = case["labels"][M["labels"]]
        for e in evs:
            if e[0] == "hook" and e[1] == "on_error" and e[2] in ks:
                labs = {x[0]: x[1] for x in e[4]}
                rep.count("shipped-middleware:on_error-called")
                for key in ("retry_on_error", "max_retries", "_retries"):
                    rep.count("shipped-middleware:label-arrives:%s:%s" % (key, labs.get(key, "absent")))
                if labs.get("max_retries") == "str":
                    rep.count("shipped-middleware:on_error-called-with-max_retries-as-str:%s,%s" % (
                        at, "ackable" if M["ackable"] in ACKABLE else "not-ackable"))
                if M.get("wire"):
                    rep.count("shipped-middleware:on_error-called:message-in-wire-form:" + M["wire"]["via"] + "," + M["wire"]["lt"])
            if e[0] == "rekick":
                rep.count("shipped-middleware:retry:re-sent-through-the-real-kicker")
                sent = {x[0]: x[2] for x in e[2]}
                rep.count("shipped-middleware:retry:re-sent-message-_retries=%s" % sent.get("_retries"))
            if e[0] == "hook.exit" and len(e) > 5 and e[3] == "real":
                rep.count("shipped-middleware:on_error-ended:result.error=" + EXC_NAMES.get(e[4], "?"))
        if real_substituted(evs):
            rep.count("shipped-middleware:retry:replaced-the-error-by-the-no-result-signal")
        for key in ("retry_on_error", "max_retries", "_retries"):
            rep.count("shipped-middleware:label-sent:%s:%s" % (key, retry_label_form(d.get(key))))


KICKX_P = 0.45     # fraction of the failing kicks / dumps (builtin exception classes) whose exception has one of the shapes below
HANDLING_P = 0.08  # fraction of the sends made from inside an `except` block of the caller
# keys of the driver's KICK_SHAPES: the exceptions socket / asyncio / ssl / json / client libraries raise from a publish
KICK_SHAPES = [
    "ConnectionRefusedError(errno,text)", "ConnectionRefusedError(errno,text)", "BrokenPipeError(errno,text)",
    "ConnectionResetError(errno,text)", "OSError(errno,text,filename)", "OSError(errno)", "socket.gaierror(errno,text)",
    "TimeoutError(errno,text)", "socket.timeout(text)", "ssl.SSLError(errno,text)", "asyncio.TimeoutError()", "RuntimeError()",
    "asyncio.IncompleteReadError(bytes,int)", "asyncio.QueueFull()", "KeyError(int)", "KeyError(str)", "IndexError(text)",
    "ValueError(str,str)", "ValueError(bytes)", "RuntimeError(tuple)", "RuntimeError(dict)", "RuntimeError(float)",
    "Exception(None)", "Exception(str,None)", "ConnectionError(exception)", "ConnectionError(non-ascii text)",
    "ConnectionError(lone surrogate)", "StopAsyncIteration()", "ExceptionGroup(text,[OSError,KeyError])",
    "taskiq ResultGetError()", "client class with own __init__(host,port)", "client class carrying a code",
    "RuntimeError raised from an OSError (has __cause__)", "MemoryError()",
]
DUMPS_SHAPES = ["UnicodeEncodeError(str,str,int,int,str)", "UnicodeEncodeError(str,str,int,int,str)",
                "UnicodeDecodeError(str,bytes,int,int,str)", "TypeError(json text)", "RecursionError(text)", "KeyError(str)",
                "KeyError(int)", "ValueError(str,str)", "ValueError(bytes)", "Exception(None)", "RuntimeError()", "MemoryError()"]
KICK_NONSTR = {"ConnectionRefusedError(errno,text)", "BrokenPipeError(errno,text)", "ConnectionResetError(errno,text)",
               "OSError(errno,text,filename)", "OSError(errno)", "socket.gaierror(errno,text)", "TimeoutError(errno,text)",
               "ssl.SSLError(errno,text)", "asyncio.IncompleteReadError(bytes,int)", "KeyError(int)", "ValueError(bytes)",
               "RuntimeError(tuple)", "RuntimeError(dict)", "RuntimeError(float)", "Exception(None)", "Exception(str,None)",
               "ConnectionError(exception)", "ExceptionGroup(text,[OSError,KeyError])",
               "client class with own __init__(host,port)", "client class carrying a code",
               "UnicodeEncodeError(str,str,int,int,str)", "UnicodeDecodeError(str,bytes,int,int,str)"}


def gen_kickx(case):
    """WHAT a failing broker.kick() / formatter.dumps() raises (driver: kick_exc).  Until now: ConnectionError("cannot send") /
    ValueError("cannot dump") / three taskiq error classes without arguments.  S["kick_x"] (sends whose kick is kick_fail /
    dumps_fail): shape = one of the exception shapes real clients raise - the OSError family with (errno, text[, filename]),
    KeyError(int), exceptions without args, with bytes / tuple / dict / None / exception-object args, non-ASCII text and lone
    surrogates, UnicodeEncodeError from the serializer, an ExceptionGroup, a client library's class with its own __init__,
    an exception that already has a __cause__ - or exc = [class, description] of gen_xspec (derived class with __eq__ /
    __hash__ = None / __bool__ False / raising __str__ / __repr__, unpicklable / huge args, cause / context chains).  Always an
    Exception: a BaseException from the broker is not a failed send in the sense of the statement (it propagates unwrapped).
    S["handling"]: the send is made while the caller is handling another exception (a compensation send in an `except` block).
    The statement for a failed send is what it was: post_send not called, the caller gets SendTaskError.
    Own generator, seeded with the case built so far."""
    rw = random.Random(zlib.crc32(("kickx" + json.dumps(case, sort_keys=True)).encode()))
    for S in case["sends"]:
        k = S.get("kick", "ok")
        if k in ("kick_fail", "dumps_fail") and rw.random() < KICKX_P:
            if rw.random() < .2:
                b, x = gen_xspec(rw, rw.choice([1, 2, 3, 3]), False)
                S["kick_x"] = {"exc": [b, x]}
            else:
                S["kick_x"] = {"shape": rw.choice(KICK_SHAPES if k == "kick_fail" or rw.random() < .3 else DUMPS_SHAPES)}
        if rw.random() < HANDLING_P:
            S["handling"] = {"shape": rw.choice(["KeyError(int)", "ConnectionRefusedError(errno,text)", "ValueError(str,str)",
                                                 "RuntimeError()", "client class carrying a code"])}


def count_kickx(rep, case, per):
    for S, evs in zip(case["sends"], per):
        k = S.get("kick", "ok")
        if S.get("handling"):
            rep.count("send-made-while-the-caller-handles-an-exception:" + ("kick-ok" if k == "ok" else "send-fails"))
        if k not in ("kick_fail", "dumps_fail"):
            continue
        x = S.get("kick_x")
        what = "kick" if k == "kick_fail" else "dumps"
        reached = any(e[0] == ("kick" if k == "kick_fail" else "dumps") for e in evs)
        if not x:
            rep.count("%s-failure-raises:as-always(%s)" % (what, "ConnectionError(text)" if k == "kick_fail" else "ValueError(text)"))
            continue
        if x.get("shape"):
            rep.count("%s-failure-raises:shape:%s" % (what, x["shape"]))
            nonstr = x["shape"] in KICK_NONSTR
        else:
            rep.count("%s-failure-raises:odd-exception-object(%s)" % (what, EXC_NAMES[x["exc"][0]]))
            d = x["exc"][1]
            for key in ("cls", "eq", "hash", "truth", "str", "args", "cycle"):
                if d.get(key):
                    rep.count("%s-failure-raises:odd-exception-object:%s=%s" % (what, key, d[key]))
            if d.get("chain"):
                rep.count("%s-failure-raises:odd-exception-object:has-cause/context-chain" % what)
            nonstr = d.get("args") in ("unpicklable", "unjsonable", "nested") or d.get("cls") in ("dataclass",)
        if reached:
            rep.count("failed-send:exception-args:" + ("contain-a-non-str" if nonstr else "all-str-or-empty"))
            cr = [e for e in evs if e[0] == "crash"]
            rep.count("failed-send:shaped-exception:caller-got:" + (cr[0][1] if cr else "no exception"))



WALL_BASES = [0.0, 1.0, 1.7e9, 1.7e9, 1.7e9, 1758000000.25, 2147483647.0, 4294967296.0, -86400.0]
WALL_BASES_HUGE = [1e12, 253402300800.0, float(2 ** 53), 1e18]


def gen_wall(r, case):
    """the host's wall clock during the run (driver: WallClock): what time.time() returns to taskiq.receiver.receiver is
    NOT the loop's monotonic clock (which goes on driving sleeps and timeouts) but a scripted clock starting at `base`
    that may be stepped while executions are under way - backwards (NTP step correction, VM resume / migration, an
    operator's `date -s`) or forwards by milliseconds .. years, set to an absolute value, or standing still (equal
    readings).  scope = global: the same clock is also what `time.time()` gives every other module during the run."""
    wall = dict(scope=r.choice(["receiver", "receiver", "global"]))
    wall["base"] = r.choice(WALL_BASES if wall["scope"] == "global" or r.random() < .75 else WALL_BASES_HUGE)
    if r.random() < .4:
        wall["mono0"] = r.choice([0.5, 12.25, 3600.0, 86400.0, 1e6])     # the loop's monotonic clock does not start at 0
    case["wall"] = wall
    for M in case["msgs"]:
        if r.random() >= .7:
            continue
        k = r.random()
        if k < .5:
            M["wall"] = {"step": -r.choice([0.004, 0.006, 0.02, 0.5, 1.0, 30.0, 30.0, 3600.0, 86400.0, 3.2e7, 1.5e9])}
        elif k < .65:
            M["wall"] = {"step": r.choice([0.006, 1.0, 30.0, 3600.0, 86400.0, 3.2e7, 1e12])}
        elif k < .8:
            M["wall"] = {"set": r.choice([0.0, 1.0, wall["base"], wall["base"] - 0.01, 946684800.0, -1.0, 1e15])}
        else:
            M["wall"] = {"freeze": 1}
    if not any(M.get("wall") for M in case["msgs"]):
        r.choice(case["msgs"])["wall"] = {"step": -r.choice([1.0, 30.0, 3600.0])}


def gen_late(r, case):
    """late binding on the receive side (driver: run_recv): what the broker is given only after its Receiver exists.
    style = how: attribute assignment / add_middlewares, the with_* builders, or a WORKER_STARTUP handler run by
    broker.startup() (what the worker does: Receiver(...) first, startup inside listen())."""
    late = dict(style=r.choice(["assign", "with", "with", "startup", "startup"]))
    if late["style"] == "startup":
        late["handler_async"] = r.random() < .5
    k = r.random()
    if k < .75:
        # before: the broker's default (dummy) backend, or an earlier recording backend
        late["backend"] = r.choice(["default", "default", "rec"])
    if case["mws"] and r.random() < .6:
        late["mws_before"] = r.randrange(len(case["mws"]))
    if r.random() < .3:
        late["formatter"] = True
    if r.random() < .3:
        late["tasks"] = True
    if r.random() < .3:
        late["swap_at"] = r.randint(0, 8)      # the backend is replaced (again) while messages are in flight
    if len(late) == 1 + ("handler_async" in late):
        late["backend"] = "default"
    return late


def gen_send(r):
    tbl = gen_labels(r, strs_only=True)
    ns = r.choice([1, 2, 2, 3, 4, 6])
    ids = r.sample(range(10), ns)
    case = dict(type="send", labels=tbl, mws=gen_mws(r, tbl, "send", p_raise=.06), sends=[])
    for i in range(ns):
        case["sends"].append(dict(id=ids[i], labels=r.randrange(len(tbl)), arrive=g_susp(r), kick_susp=g_susp(r),
                                  kick=r.choice(["ok", "ok", "ok", "ok", "kick_fail", "dumps_fail", "kick_fail_broker",
                                                 "kick_fail_sub", "kick_fail_send"])))
    if r.random() < CHAIN_P:
        gen_chains(r, case)
    gen_shared(case)
    gen_kickx(case)
    gen_life(case)
    return case


SHARED_P = 0.2     # fraction of the send cases without kicker chains (= 15 % of all) that send through a SHARED task (async_shared_broker)


def gen_shared(case):
    """sends through taskiq's SHARED broker (driver: shared_scenario; scenario arithmetic: shared_ctx).  Until now every
    kicker was constructed directly on a real broker: the indirection "shared task -> default broker", and WHEN a kicker is
    bound to its broker, were never exercised.  The sends of such a case are the steps of one sequential scenario:
      case["shared"]  glob (the module-level taskiq.async_shared_broker | a fresh AsyncSharedBroker()), via (how the task is
                      declared: decorator | register_task), task_labels, mws (0-1 middlewares registered on the shared
                      broker itself), init (ops before the first send)
      S["sh"]         ops before this send: ["default", b] (default broker set / CHANGED), ["unset"], ["prepare", name,
                      labels_add] (a kicker obtained now - at import time, before any default broker is known - and kept);
                      via = kicker (task.kicker() now) | kiq (task.kiq()) | use (the kept kicker `name`, possibly several
                      times, possibly re-pointed with with_broker first: rebind = b)
    1-3 real brokers with their own stacks.  A send bound to a real broker keeps its planned kick result; a send bound to
    the shared broker has kick = no_broker (the model's KickFail over the shared broker's own stack).
    Own generator, seeded with the case built so far."""
    rw = random.Random(zlib.crc32(("shared" + json.dumps(case, sort_keys=True)).encode()))
    sends, tbl = case["sends"], case["labels"]
    if any(S.get("chain") is not None for S in sends) or rw.random() >= SHARED_P:
        return
    nb = rw.choice([1, 1, 2, 2, 3])
    case["brokers"] = [gen_mws(rw, tbl, "send", p_raise=.06) for _ in range(nb - 1)]
    ids = [S["id"] for S in sends]
    while len(sends) < 2 or (len(sends) < 5 and rw.random() < .4):
        sends.append(dict(id=rw.choice([x for x in range(10) if x not in ids]), labels=0, arrive=g_susp(rw), kick_susp=g_susp(rw),
                          kick=rw.choice(["ok", "ok", "ok", "ok", "kick_fail", "dumps_fail"])))
        ids.append(sends[-1]["id"])
    sh = dict(glob=rw.random() < .8, via=rw.choice(["decorator", "decorator", "register_task"]), task_labels=sends[0]["labels"],
              mws=[], init=[])
    if rw.random() < .2:
        sh["mws"] = gen_mws(rw, tbl, "send", p_raise=0)[:1]
    SH = nb
    base = typed(tbl[sh["task_labels"]])
    st = {"default": None, "n": 0}
    kept = {}

    def idx(labels):
        if labels not in [typed(d) for d in tbl]:
            tbl.append(dict(labels))
        return [typed(d) for d in tbl].index(labels)

    def prepare():
        add = rw.choice([None, None, {"a": "w"}, {"priority": "high"}, {"a": "x", "timeout": "3"}])
        name = "k%d" % st["n"]
        st["n"] += 1
        kept[name] = dict(b=SH if st["default"] is None else st["default"], labels={**base, **(add or {})})
        return ["prepare", name, add]

    def default(other=False):
        b = rw.choice([x for x in range(nb) if not other or x != st["default"]] or [st["default"]])
        st["default"] = b
        return ["default", b]
    k = rw.random()
    if k < .6:
        sh["init"].append(prepare())             # "import time": the default broker is not known yet
        if rw.random() < .5:
            sh["init"].append(default())
    elif k < .85:
        sh["init"].append(default())
        if rw.random() < .4:
            sh["init"].append(prepare())
    for S in sends:
        ops = []
        k = rw.random()
        if st["default"] is None:
            if k < .7:
                ops.append(default())
        elif k < .3:
            ops.append(default(other=True))
        elif k < .42:
            ops.append(["unset"])
            st["default"] = None
        if rw.random() < .25:
            ops.append(prepare())
        h = dict(ops=ops)
        if kept and rw.random() < .55:
            h.update(via="use", name=rw.choice(sorted(kept)))
            if rw.random() < .15:
                h["rebind"] = rw.randrange(nb)
                kept[h["name"]]["b"] = h["rebind"]
            b, labels = kept[h["name"]]["b"], kept[h["name"]]["labels"]
        else:
            h["via"] = "kiq" if rw.random() < .3 else "kicker"
            b, labels = SH if st["default"] is None else st["default"], base
        if b == SH:
            S["kick"] = "no_broker"
        S["labels"] = idx(labels)
        S["sh"] = h
        S.pop("broker", None)
    case["shared"] = sh


def count_shared(rep, case, per):
    if not case.get("shared"):
        return
    sh = case["shared"]
    rep.count("send-case:through-a-shared-task")
    rep.count("shared:broker-object:" + ("taskiq.async_shared_broker" if sh.get("glob", True) else "fresh AsyncSharedBroker()"))
    rep.count("shared:task-declared-via:" + sh.get("via", "decorator"))
    rep.count("shared:real-brokers:%d" % (1 + len(case.get("brokers") or [])))
    rep.count("shared:middlewares-on-the-shared-broker-itself:%d" % len(sh.get("mws") or []))
    cxs = send_ctx(case)
    default, kept_at = None, {}
    for op in sh.get("init") or []:
        rep.count("shared:before-first-send:" + ("kicker-prepared-" + ("before" if default is None else "after") + "-default_broker()"
                                                 if op[0] == "prepare" else op[0]))
        if op[0] == "default":
            default = op[1]
        if op[0] == "prepare":
            kept_at[op[1]] = default
    used = set()
    for S, cx, evs in zip(case["sends"], cxs, per):
        h = S["sh"]
        for op in h.get("ops") or []:
            if op[0] == "default":
                rep.count("shared:between-sends:default_broker-" + ("set" if default is None else "changed" if default != op[1] else "set-again"))
                default = op[1]
            elif op[0] == "unset":
                rep.count("shared:between-sends:default_broker-unset")
                default = None
            else:
                rep.count("shared:between-sends:kicker-prepared-" + ("before" if default is None else "after") + "-default_broker()")
                kept_at[op[1]] = default
        what = h["via"]
        if what == "use":
            what = "kept-kicker(obtained %s default_broker())" % ("before any" if kept_at[h["name"]] is None else
                                                                   "under the current" if kept_at[h["name"]] == default else
                                                                   "under an earlier")
            if h["name"] in used:
                rep.count("shared:send:kept-kicker-used-again")
            used.add(h["name"])
            if h.get("rebind") is not None:
                what += "+with_broker"
        rep.count("shared:send:" + what + (":bound-to-the-shared-broker(cannot be sent)" if cx["shared"] else ":bound-to-a-real-broker")
                  + (",default-broker-set-now" if default is not None else ",no-default-broker-now"))
        names = [e[0] for e in evs]
        if cx["shared"]:
            rep.count("shared:unsendable:" + ("SendTaskError,no-broker-reached" if "crash" in names and
                                             not any(e[0] == "kick" and e[3] != cx["b"] for e in evs) else "other"))
        elif "sent" in names:
            rep.count("shared:sent-through-the-bound-broker's-middlewares")


def gen_chains(r, case):
    """turn the sends of a send case into steps on shared kicker objects (driver: run_send).  One to three brokers with
    their own middleware stacks; a chain = 2-4 consecutive sends on ONE AsyncKicker, between which the kicker is
    re-pointed (with_broker), re-labelled (with_labels), or its broker gets more middlewares (add_middlewares /
    with_middlewares; only when the whole case is one chain, so that "the stack at that send" is scenario arithmetic).
    Sends left over stay loose (fresh kicker each, any broker) and run concurrently with the chains."""
    tbl, sends = case["labels"], case["sends"]
    nb = r.choice([1, 2, 2, 3])
    case["brokers"] = [gen_mws(r, tbl, "send", p_raise=.06) for _ in range(nb - 1)]
    ns = len(sends)
    if ns < 2:
        ids = [S["id"] for S in sends]
        for _ in range(r.choice([1, 2, 3])):
            sends.append(dict(id=r.choice([x for x in range(10) if x not in ids]), labels=r.randrange(len(tbl)),
                              arrive=g_susp(r), kick_susp=g_susp(r),
                              kick=r.choice(["ok", "ok", "ok", "kick_fail", "dumps_fail"])))
            ids.append(sends[-1]["id"])
        ns = len(sends)
    single = ns <= 4 and r.random() < .6          # the whole case is one chain
    i, c = 0, 0
    while i < ns:
        n = ns if single else r.choice([1, 2, 2, 3, 4])
        n = min(n, ns - i)
        if n < 2:
            sends[i]["broker"] = r.randrange(nb)
            i += 1
            continue
        b = r.randrange(nb)
        labels = typed(tbl[sends[i]["labels"]])
        sends[i].update(chain=c, broker=b)
        for j in range(i + 1, i + n):
            S, op = sends[j], {}
            k = r.random()
            if nb > 1 and k < .6:
                b = r.choice([x for x in range(nb) if x != b])
                op["broker"] = b
            elif single and k < .9:
                like = ([case["mws"]] + case["brokers"])[b] + \
                    [x for S2 in sends[i + 1:j] for x in (S2.get("op") or {}).get("add_mws") or []]
                op["add_mws"] = gen_mws(r, tbl, "send", p_raise=.06, like=like)[:2] or \
                    gen_mws(r, tbl, "send", p_raise=.06, like=like)[:1]
                op["via_with"] = r.random() < .5
            if r.random() < .3:
                op["labels_add"] = r.choice([{"a": "w"}, {"c": "v"}, {"a": "x", "timeout": "3"}])
                labels = {**labels, **op["labels_add"]}
            # the label dict of this step's message: the kicker's labels as the chain left them
            if labels not in [typed(d) for d in tbl]:
                tbl.append(dict(labels))
            S["labels"] = [typed(d) for d in tbl].index(labels)
            S.update(chain=c, op=op)
        i += n
        c += 1
    if not any(S.get("chain") is not None for S in sends):
        del case["brokers"]
        for S in sends:
            S.pop("broker", None)


# ------------------------------------------------------------------------------------- distribution
def count_shapes(rep, case, per):
    """class shapes of the stack, and for every hook that FIRED where in the class hierarchy it is defined"""
    count_eq(rep, case, per)
    stacks = final_stacks(case)
    for st in stacks:
        for s in st:
            sh = s.get("shape") or {}
            rep.count("mw-class:" + sh.get("kind", "direct"))
            if sh.get("shadow"):
                rep.count("mw-class:has-shadowed-base-hook")
    for evs in per:
        for e in evs:
            if e[0] == "hook" and 0 <= e[2] // 100 < len(stacks) and e[2] % 100 < len(stacks[e[2] // 100]):
                spec = stacks[e[2] // 100][e[2] % 100]
                sh = spec.get("shape") or {}
                rep.count("hook-defined-on:" + (sh.get("at") or {}).get(e[1], "leaf") + (",twin" if sh.get("twin") else ""))
                h = spec.get(e[1]) or {}
                rep.count("hook-style:" + (h.get("aw") or ("async-def" if h.get("async") else "def")))


def count_chains(rep, case):
    """sends that are consecutive steps on one kicker object, and what changed between two steps"""
    sends = case["sends"]
    if not any(S.get("chain") is not None for S in sends):
        rep.count("send-case:fresh-kicker-per-send")
        return
    rep.count("send-case:kicker-reused(chain)")
    rep.count("send-brokers:%d" % (1 + len(case.get("brokers") or [])))
    cxs = send_ctx(case)
    n, prev = {}, {}
    for S, cx in zip(sends, cxs):
        c = S.get("chain")
        if c is None:
            rep.count("send-step:loose(fresh kicker)")
            continue
        n[c] = n.get(c, 0) + 1
        if c in prev:
            op = S.get("op") or {}
            what = [k for k in ("broker", "add_mws", "labels_add") if op.get(k) not in (None, [], {})]
            rep.count("send-step:reuse:" + ("+".join({"broker": "with_broker", "add_mws": "add_middlewares",
                                                        "labels_add": "with_labels"}[k] for k in what) or "unchanged"))
            if [own_hooks(x) for x in prev[c]["stack"]] != [own_hooks(x) for x in cx["stack"]]:
                rep.count("send-step:reuse:override-masks-differ-from-previous-step")
        else:
            rep.count("send-step:first-of-chain")
        prev[c] = cx
    for c, k in n.items():
        rep.count("send-chain-length:%d" % k)


def wall_magnitude(s):
    s = abs(s)
    return "<5ms" if s < 0.005 else "ms" if s < 1 else "seconds" if s < 3600 else "hours-days" if s < 3e6 else "years+"


def count_wall(rep, M, evs):
    """what the scripted wall clock did during this message's execution, and what the receiver measured (the readings are
    in the exec.begin / exec.end log entries, the stored execution_time in save.enter)"""
    op = M.get("wall")
    if not op:
        rep.count("wall-clock:during-execution:runs-on(other executions may step it)")
    elif "step" in op:
        rep.count("wall-clock:during-execution:steps-%s:%s" % ("backwards" if op["step"] < 0 else "forwards",
                                                                 wall_magnitude(op["step"])))
    elif "set" in op:
        rep.count("wall-clock:during-execution:set-to-absolute-value")
    else:
        rep.count("wall-clock:during-execution:stands-still")
    b = [float.fromhex(e[1]) for e in evs if e[0] == "exec.begin" and len(e) > 1]
    x = [float.fromhex(e[1]) for e in evs if e[0] == "exec.end" and len(e) > 1]
    if b and x:
        d = x[0] - b[0]
        rep.count("wall-clock:measured-duration:" + ("negative(>5ms)" if d < -0.005 else "negative(<=5ms)" if d < 0 else
                                                     "zero(equal readings)" if d == 0 else "positive" if d < 3600 else
                                                     "positive(hours+)"))
        for e in evs:
            if e[0] == "save.enter" and len(e) > 6:
                rep.count("wall-clock:result-stored-with-%s-execution_time" %
                          ("negative" if float.fromhex(e[6]) < 0 else "non-negative"))


def count_exotic(rep, case, M, evs, x, src):
    """what kind of exception OBJECT the body (src = "") or the failing dependency raises, and whether it reached the
    receiver / a result was stored for it"""
    if not x:
        rep.count("raised-object:%splain(table class)" % src)
        return
    rep.count("raised-object:%sexotic" % src)
    raised = any(e[0] == "body.end" and e[1] == "raise" for e in evs) if not src else any(e[0] == "dep.open" for e in evs)
    if raised:
        rep.count("raised-object:exotic:reached-the-receiver")
        if any(e[0] == "save.enter" and e[2] is True for e in evs):
            rep.count("raised-object:exotic:result-stored(is_err)")
        if x.get("truth"):
            # a FALSY exception object (__bool__ False / __len__ 0) is an exception like any other: the full statement
            eid = E_DEP if src else M["out"]["raise"]
            names = {e[0] for e in evs}
            kind = "no-result-signal" if eid == E_NORESULT else "error"
            rep.count("raised-object:falsy:%sreached-the-receiver:%s" % (src, kind))
            if any(e[0] == "save.enter" and e[2] is True and e[4] == eid for e in evs):
                rep.count("raised-object:falsy:result-stored-with-the-raised-class")
            if eid == E_NORESULT and "save.enter" not in names and "done" in names:
                rep.count("raised-object:falsy:no-result-signal:nothing-stored")
            if not src and M["dep"] == "ok":
                rep.count("raised-object:falsy:open-dependency:propagate-%s:%s" % (
                    "on" if case["propagate"] else "off", "saw-it" if "dep.saw" in names else "did-not-see-it"))
            if any(e[0] == "hook" and e[1] == "on_error" for e in evs):
                rep.count("raised-object:falsy:handed-to-on_error-hooks")
        if case.get("logging"):
            rep.count("raised-object:exotic:reached-the-receiver:logging-configured")
    if x.get("group") is not None:
        rep.count("raised-object:group:%s,%d-members" % ("BaseExceptionGroup" if M["out"]["raise"] == 10 else "ExceptionGroup",
                                                        len(x["group"])))
        if any(m["raise"] == 0 for m in x["group"]):
            rep.count("raised-object:group:has-NoResultError-member(not the no-result signal)")
    if x.get("chain"):
        rep.count("raised-object:chain:length-%d" % len(x["chain"]))
        for ln in x["chain"]:
            rep.count("raised-object:chain:via-" + ln["via"])
    if x.get("cycle"):
        rep.count("raised-object:chain:cyclic(%s)" % ("self-reference" if not x.get("chain") else "back-to-head"))
    if x.get("suppress") is not None:
        rep.count("raised-object:explicit-__suppress_context__")
    if x.get("shared"):
        n = sum(1 for M2 in case["msgs"] if not src and M2.get("out") == M["out"])
        rep.count("raised-object:one-instance-%s" % ("raised-by-several-messages" if n > 1 else "per-case"))
    for role, d in xspec_members(x):
        if not d:
            rep.count("raised-object:%s:plain" % role)
            continue
        rep.count("raised-object:%s:class:%s" % (role, d.get("cls") or "table-class"))
        if d.get("eq"):
            rep.count("raised-object:%s:__eq__:%s" % (role, d["eq"]))
        if d.get("cls"):
            rep.count("raised-object:%s:hash:%s" % (role, {"none": "unhashable(__hash__=None)", "raises": "unhashable(hash raises)"}
                                                    .get(d.get("hash", "id"), d.get("hash", "id"))))
        if d.get("truth"):
            rep.count("raised-object:%s:falsy(%s)" % (role, "__bool__" if d["truth"] == "bool" else "__len__"))
        if d.get("str"):
            rep.count("raised-object:%s:raising-%s" % (role, {"str": "__str__", "repr": "__repr__", "both": "__str__+__repr__"}[d["str"]]))
        if d.get("args"):
            rep.count("raised-object:%s:args:%s" % (role, d["args"]))
        if d.get("attr"):
            rep.count("raised-object:%s:attribute:unpicklable" % role)
    if any(unhashable_spec(d) for _, d in xspec_members(x)):
        rep.count("raised-object:some-exception-of-the-chain-is-unhashable" + (":reached-the-receiver" if raised else ""))


def count_recv(rep, case, per, late):
    at = case.get("ack_type") or "default(when_saved)"
    rep.count("messages:%d" % len(case["msgs"]))
    rep.count("logging:" + ("configured(records formatted)" if case.get("logging") else "disabled"))
    rep.count("config:via-command-line" if case.get("cli") is not None else "config:direct")
    if len({M["id"] for M in case["msgs"]}) < len(case["msgs"]):
        rep.count("redelivery(same task id, concurrent)")
    rep.count("stack:%d" % len(case["mws"]))
    count_shapes(rep, case, per)
    late_b = case.get("late")
    if late_b:
        rep.count("late-binding(after Receiver()):case")
        rep.count("late-binding:style:" + late_b["style"])
        for k in ("backend", "formatter", "tasks", "swap_at", "mws_before"):
            if late_b.get(k) is not None and late_b.get(k) is not False:
                rep.count("late-binding:" + {"backend": "result-backend(before:%s)" % late_b.get("backend"),
                                             "formatter": "formatter", "tasks": "tasks-registered",
                                             "swap_at": "result-backend-swapped-mid-run",
                                             "mws_before": "middlewares-added"}[k])
    wall = case.get("wall")
    if wall:
        rep.count("wall-clock(scripted, not the loop clock):case")
        rep.count("wall-clock:scope:" + wall.get("scope", "receiver"))
        rep.count("wall-clock:loop-clock-origin:" + ("0" if not wall.get("mono0") else "nonzero"))
        rep.count("wall-clock:base:" + ("epoch-2020s" if 1e9 <= wall["base"] < 2e9 else "before-1970" if wall["base"] < 0 else
                                        "near-0" if wall["base"] < 1e9 else "2038+" if wall["base"] < 1e10 else "huge"))
    for i, M in enumerate(case["msgs"]):
        evs = per[i]
        rep.count("kind:" + M["kind"])
        if M["kind"] != "bad":
            count_wire(rep, case, M, evs)
        if wall:
            count_wall(rep, M, evs)
        if late_b and late_b.get("backend") and any(e[0] == "save.enter" for e in evs):
            rep.count("late-binding:result-stored-in-late-bound-backend")
        if M["kind"] != "ok":
            continue
        rep.count("ack_type:" + at)
        rep.count("ackable:" + M["ackable"])
        rep.count("style:" + M["style"])
        rep.count("dep:" + M["dep"])
        o = M["out"]
        rep.count("body:" + ("return" if "ret" in o else EXC_NAMES[o["raise"]]))
        if M["dep"] == "fail":
            count_exotic(rep, case, M, evs, M.get("dep_x"), "failing-dependency:")
        elif "raise" in o:
            count_exotic(rep, case, M, evs, o.get("x"), "")
        names = {e[0] for e in evs}
        rep.count("branch:" + ("crash:" + [e for e in evs if e[0] == "crash"][0][1] if "crash" in names else "done"))
        if "save.raise" in names:
            rep.count("branch:save-failed")
        if "save.exit" in names:
            rep.count("branch:saved")
        if "save.enter" not in names and "done" in names:
            rep.count("branch:save-skipped")
        if late[i]:
            rep.count("branch:body-detached(sync timeout)")
        if any(e[0] == "body.end" and e[1] == "cancelled" for e in evs):
            rep.count("branch:body-cancelled(async timeout)")
        if "body.start" not in names and "exec.end" in names and M["dep"] != "fail":
            rep.count("branch:body-never-started(timeout<=0,%s)" % M["style"])
        if case.get("executor"):
            rep.count("executor:" + case["executor"])
        if "dep.saw" in names:
            rep.count("branch:dep-saw-exception")
        for e in evs:
            if e[0] == "hook":
                rep.count("hook:" + e[1])
                if e[1] == "on_error":
                    rep.count("on_error-exc:" + EXC_NAMES.get(e[9], "?"))


# ------------------------------------------------------------------------------------- finding D10
D10_SIG = "sync_generator_exit"
D10_WHAT = ("a SYNC task function raising GeneratorExit closes the callback coroutine: callback raises, no result is "
            "stored and the message is not acknowledged (when_executed / when_saved)")


def is_d10(case, sig):
    i = sig.get("msg")
    if case.get("type") != "recv" or i is None:
        return False
    M = case["msgs"][i]
    return M["style"] == "sync" and M["out"] == {"raise": 8}


class Failer:
    """routes oracle failures to the report; failures inside the D10 region carry the signature flag `d10`
    (predicate of the known finding sync_generator_exit: task style == sync and the body raises GeneratorExit)"""

    def __init__(self, rep, pid, case):
        self.rep, self.pid, self.case = rep, pid, case

    def __call__(self, what, sig, evs):
        self.rep.fail("%s: %s" % (self.pid, what), self.case, observed=evs, expected="see the property statement",
                      sig=dict(sig, d10=is_d10(self.case, sig)))


def finish(rep, pid):
    return rep.finish({D10_SIG: lambda f: bool(f["sig"].get("d10"))}, {})


# ------------------------------------------------------------------------------------- shared run skeleton
def explore(ctx, rep, pid, cases, label, oracles, nontrivial):
    """run the driver on `cases` (all "recv" or all "send"), evaluate the oracles on the real log, then the
    model and the Boolean properties inside Coq.  Returns True iff a correspondence obligation broke."""
    if not cases:
        return False
    obs = C.run_driver(ctx, "pipeline_driver", cases)
    keep_c, keep_o = [], []
    for c, o in zip(cases, obs):
        rep.case(c, nontrivial(c))
        if "_crash" in o:
            rep.fail("driver crashed", c, observed=o["_crash"])
            continue
        per, glob, late, stray = split_log(c, o["log"])
        f = Failer(rep, pid, c)
        if stray:
            f("events outside any message's task", {}, stray)
        count_life(rep, c, o)
        count_params(rep, c, o)
        if c["type"] == "recv":
            count_recv(rep, c, per, late)
            count_rereg(rep, c, per)
            count_deco(rep, c, per)
            count_real(rep, c, per)
            for orc in oracles:
                orc(c, per, late, f)
        else:
            rep.count("sends:%d" % len(c["sends"]))
            rep.count("stack:%d" % len(c["mws"]))
            count_shapes(rep, c, per)
            for S in c["sends"]:
                rep.count("kick:" + S.get("kick", "ok"))
            count_chains(rep, c)
            count_shared(rep, c, per)
            count_kickx(rep, c, per)
            for evs in per:
                rep.count("send-branch:" + ("sent" if any(e[0] == "sent" for e in evs) else
                                            "crash:" + [e for e in evs if e[0] == "crash"][0][1]))
                for e in evs:
                    if e[0] == "hook":
                        rep.count("hook:" + e[1])
            oracle_c10_send(c, per, f)
        keep_c.append(c)
        keep_o.append(o)
    cb, kb, fails = coq_compare(ctx, label, keep_c, keep_o)
    rep.corr(label + ":model=implementation", len(keep_c), cb, fails, lambda i: keep_c[i])
    rep.corr(label + ":Boolean property on observations", len(keep_c), kb, [], lambda i: keep_c[i])
    if not cb and not fails:
        rep.traces += sum(len(c["msgs"]) if c["type"] == "recv" else len(c["sends"]) for c in keep_c)
    return bool(cb or kb or fails)


def replay(ctx, path, oracles):
    rec = json.load(open(path))
    c = rec["case"]
    obs = C.run_driver(ctx, "pipeline_driver", [c], nproc=1)[0]
    print("case:", json.dumps(c))
    if "_crash" in obs:
        print("driver crashed:", obs["_crash"])
        return 1
    per, glob, late, stray = split_log(c, obs["log"])
    for i, evs in enumerate(per):
        print("implementation, %s %d:" % ("message" if c["type"] == "recv" else "send", i),
              [e[0] if e[0] != "hook" else "%s[%d]" % (e[1], e[2]) for e in evs if e[0] not in ("hook.exit", "ack.exit")])
    print("model:", coq_show(ctx, c, obs)[-3000:])
    print("first difference per message (None = equal):", coq_diff(ctx, c, obs)[-800:])
    bad = []

    def f(what, sig, evs):
        bad.append((what, sig, is_d10(c, sig)))
    if c["type"] == "recv":
        for orc in oracles:
            orc(c, per, late, f)
    else:
        oracle_c10_send(c, per, f)
    for b in bad:
        print("VIOLATED%s:" % (" (known finding sync_generator_exit)" if b[2] else ""), b[0], b[1])
    print("holds" if not bad else "VIOLATED")
    return 0 if not bad else 1


def load_corpus_cases(pid):
    return [c["case"] if "case" in c else c for _, c in C.load_corpus(pid)]
