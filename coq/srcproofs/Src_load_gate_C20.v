(* Source tie for taskiq/serialization.py, the load side (exception_to_python and what it calls), property C20 (loading a
   stored error instantiates nothing but an exception class).

   `Gen_load_gate` is GENERATED from the repository's source text on every run (harness/pygal_m.py with the primitives
   of harness/pygal_load_gate.py): subclass_exception, create_exception_cls, _UnpickleableExceptionWrapper.restore,
   get_pickled_exception and exception_to_python are translated statement by statement into the statement monad of
   PyStm.v; their primitives (sys.modules[m], getattr, type(name, (parent,), {..}), isinstance / issubclass, the call
   expression cls( *args), Exception(text), the three attribute assignments) have the meaning given in
   PyPreludeLoadGate.v.  exception_to_python_py is a Coq Fixpoint, structurally recursive on the payload tree (the
   recursive calls on exc.exc_cause / exc.exc_context are calls on fields bound by the match on `exc`).
   This file is hand-written and committed; it is re-checked against the freshly generated definitions on every run of
   the C20 check.

   The hand-written model LoadGate.conv is a pure function into (cres, effects).  exception_to_python_src: the
   generated function, run in ANY environment on ANY payload tree, IS the model's run read as a run of the monad
   (run_of: the effect list as it is; COk None / COk (Some x) -> returned None / that exception; CSec, CBadName, CProp id
   -> SecurityError, type()'s ValueError, the BaseException of constructor id propagate; CWeird - which the model never
   produces, LoadGateProofs.conv_outcome - -> the outcome XUnmodelled that the prelude gives to operations the model
   says nothing about).  No hypothesis.  exception_to_python_src_inv is the converse reading: nothing of the model is
   lost.  Then C20's theorems are re-stated over the generated definitions.

   The proofs name nothing of the generated text but the five definitions themselves: both sides are evaluated
   symbolically; the getattr loop is rewritten into LoadGate.walk (for_getattr_walk: side condition "the body is one
   getattr step" by computation), every stuck scrutinee (the module option, the two lookups, name_ok, the two halves of
   the gate, the outcome of the call, the two payload links and what the model says their loads did) is split, and the
   two sides must then be the same effect list and outcome up to `app` associativity. *)
From Coq Require Import List NArith Bool.
From TQ Require Import LoadGate LoadGateProofs PyStm PyPreludeLoadGate PyPreludeLoadGateProofs.
From Src Require Import Gen_load_gate.
Import ListNotations.

(* a run of the model, read as a run of the statement monad *)
Definition outcome_of (c : cres) : outc lexc pyval :=
  match c with
  | COk None => Ok VNone
  | COk (Some x) => Ok (VExn x)
  | CSec => Exc XSecurityError
  | CBadName => Exc XValueError
  | CProp id => Exc (XCallBase id)
  | CWeird => Exc XUnmodelled
  end.
Definition run_of (r : cres * list effect) : LM pyval := (snd r, outcome_of (fst r)).

(* ... and back *)
Definition cres_of (o : outc lexc pyval) : cres :=
  match o with
  | Ok VNone => COk None
  | Ok (VExn x) => COk (Some x)
  | Exc XSecurityError => CSec
  | Exc XValueError => CBadName
  | Exc (XCallBase id) => CProp id
  | Ok (VWrapper _ _ _) | Ok VOther | Exc _ => CWeird
  end.

Ltac sim := cbn -[is_type is_exc_subclass pycall conv new_fallback_exception]; rewrite ?new_fallback_exception_run;
  cbn -[is_type is_exc_subclass pycall conv new_fallback_exception].
Ltac fin := sim; rewrite <- ?app_assoc, ?app_nil_r; cbn [app]; reflexivity.

(* create_exception_cls(name, module) is the model's synthesize *)
Theorem create_exception_cls_src : forall e nm md,
  create_exception_cls_py e nm md None =
  match synthesize nm md with Some (t, es) => (es, Ok t) | None => ([], Exc XValueError) end.
Proof.
  intros e nm md. unfold create_exception_cls_py, subclass_exception_py, synthesize, type_new.
  destruct (name_ok nm); reflexivity.
Qed.
Print Assumptions create_exception_cls_src.

(* get_pickled_exception (with _UnpickleableExceptionWrapper.restore) is the model's restore *)
Theorem get_pickled_exception_src : forall e i, get_pickled_exception_py e i = run_of (restore i).
Proof.
  intros e [id|nm md args]; [reflexivity|].
  unfold get_pickled_exception_py, restore_py, restore. cbn [w_cls_name w_module w_args].
  rewrite create_exception_cls_src. unfold synthesize. destruct (name_ok nm); reflexivity.
Qed.
Print Assumptions get_pickled_exception_src.

(* one cause / context link: is the stored link None; if not, what the model says the recursive load did.
   (first alternative: the two non-None arms of the generated match are the same text, one split; otherwise by cases) *)
Ltac link p last :=
  let rc := fresh "rc" in let ec := fresh "ec" in let H := fresh "H" in let Hn := fresh "Hn" in
  first
  [ rewrite (payload_match_merge p);
    destruct (is_pnone p) eqn:Hn;
    [ apply is_pnone_true in Hn; subst p; cbn [conv]; last
    | match goal with |- context [conv ?e p] => destruct (conv e p) as [rc ec] eqn:H end;
      destruct rc as [[?|]| | | |];
      [last | apply conv_ok_none in H; congruence | fin | fin | fin | fin] ]
  | match goal with |- context [conv ?e p] => destruct (conv e p) as [rc ec] eqn:H end;
    destruct p;
    [ cbn [conv] in H; inversion H; subst; clear H; last
    | clear H; destruct rc as [[?|]| | | |]; [last | last | fin | fin | fin | fin] .. ] ].

Theorem exception_to_python_src : forall e p, exception_to_python_py e p = run_of (conv e p).
Proof.
  intros e p. induction p as [|i|ty md args sup cause IHc ctx IHx].
  - reflexivity.
  - cbn [exception_to_python_py conv]. rewrite get_pickled_exception_src.
    destruct (restore i) as [[[x|]| | | |] es]; fin.
  - cbn [exception_to_python_py conv]. rewrite ?IHc, ?IHx. clear IHc IHx.
    (* which class: the module option, sys.modules[m], the getattr walk, the fallback to a synthetic class *)
    unfold resolve, sys_modules_getitem.
    destruct md as [m|]; [destruct (assoc m e) as [root|]; [cbn [lift bind ret sbind app];
      rewrite for_getattr_walk by (intros; reflexivity); destruct (walk root (split_dot ty)) as [o'|]|]|];
    rewrite ?create_exception_cls_src; unfold synthesize; try (destruct (name_ok ty); [|fin]).
    (* the gate, then the call *)
    all: rewrite gate_rejects_cases; unfold instantiate, py_call; sim.
    all: match goal with |- context [is_type ?t] => destruct (is_type t) eqn:Ht; [destruct (is_exc_subclass t) eqn:Hs|];
           cbn [negb]; [|fin|fin];
           destruct (pycall t args) as [[c a| |id|] e1] eqn:Hp;
           [| | fin | exfalso; eapply pycall_exception_class; eauto] end.
    (* cause, then context *)
    all: sim.
    all: link cause idtac.
    all: sim.
    all: link ctx fin.
Qed.
Print Assumptions exception_to_python_src.

Lemma cres_of_outcome_of : forall c, cres_of (outcome_of c) = c.
Proof. intros [[x|]| | | |]; reflexivity. Qed.

Theorem exception_to_python_src_inv : forall e p,
  conv e p = (cres_of (snd (exception_to_python_py e p)), fst (exception_to_python_py e p)).
Proof.
  intros e p. rewrite exception_to_python_src. unfold run_of. cbn [fst snd]. rewrite cres_of_outcome_of.
  destruct (conv e p); reflexivity.
Qed.
Print Assumptions exception_to_python_src_inv.

(* ------------------------------------------------------------------ the entry points, over the generated function *)
Definition result_of (en : entry) (o : outc lexc pyval) : result :=
  match o with
  | Ok VNone => ROk None
  | Ok (VExn x) => ROk (Some x)
  | Exc XSecurityError => RSecurity
  | Exc XValueError => match en with EDirect => RValueError | _ => RValidation end
  | Exc (XCallBase id) => RPropagated id
  | Ok (VWrapper _ _ _) | Ok VOther | Exc _ => RWeird
  end.

(* pydantic validates the whole tree first (LoadGate.validate: the `@validate_call` decorator / the field annotation),
   then the generated exception_to_python runs on the validated payload *)
Definition load_gen (en : entry) (e : env) (r : raw) : result * list effect :=
  match validate r with
  | None => (RValidation, [])
  | Some p => let '(es, o) := exception_to_python_py e p in (result_of en o, es)
  end.

Theorem load_gen_src : forall en e r, load_gen en e r = load en e r.
Proof.
  intros en e r. unfold load_gen, load. destruct (validate r) as [p|]; [|reflexivity].
  rewrite exception_to_python_src. unfold run_of. destruct (conv e p) as [c eff]. cbn [fst snd].
  destruct c as [[x|]| | | |]; reflexivity.
Qed.
Print Assumptions load_gen_src.

(* ------------------------------------------------------------------ C20 over the generated definitions *)
(* never calls a function, never instantiates a class that is not a BaseException subclass, never imports a module:
   for every environment and every payload tree *)
Theorem C20_only_exceptions_gen : forall e p f,
  In f (fst (exception_to_python_py e p)) ->
  match f with
  | Instantiate t => is_exception_class t = true
  | Synthesize _ _ => True
  | Call _ => False
  | Import _ => False
  end.
Proof.
  intros e p f H. rewrite exception_to_python_src in H. unfold run_of in H. cbn [fst] in H.
  pose proof (conv_effects_ok e p) as A. rewrite forallb_forall in A. specialize (A f H).
  destruct f; cbn in A; try discriminate; auto.
Qed.
Print Assumptions C20_only_exceptions_gen.

Theorem C20_only_exceptions_src : forall en e r f,
  In f (snd (load_gen en e r)) ->
  match f with
  | Instantiate t => is_exception_class t = true
  | Synthesize _ _ => True
  | Call _ => False
  | Import _ => False
  end.
Proof. intros en e r f. rewrite load_gen_src. apply only_exceptions. Qed.
Print Assumptions C20_only_exceptions_src.

(* the environment objects that are instantiated were reached by sys.modules[exc_module] followed by getattr steps *)
Theorem C20_instantiated_reachable_src : forall e p o,
  In (Instantiate (TEnv o)) (fst (exception_to_python_py e p)) -> reachable e o.
Proof. intros e p o. rewrite exception_to_python_src. unfold run_of. cbn [fst]. apply conv_inst_reachable. Qed.
Print Assumptions C20_instantiated_reachable_src.

(* a node whose class resolves to something that is not an exception class: SecurityError, and NOTHING has happened
   before it is raised - no call, no instantiation, no synthetic class *)
Theorem C20_refused_before_anything_src : forall e ty md args sup cause ctx,
  node_verdict e md ty = Some true ->
  exception_to_python_py e (PRepr ty md args sup cause ctx) = ([], Exc XSecurityError).
Proof.
  intros e ty md args sup cause ctx Hv. rewrite exception_to_python_src. unfold run_of, node_verdict in *.
  cbn [conv]. destruct (resolve e md ty) as [[t e0]|] eqn:Hr; [|discriminate].
  inversion Hv as [Hg]. rewrite Hg. cbn [fst snd outcome_of].
  destruct (resolve_some _ _ _ _ _ Hr) as [_ [(sm & -> & _)|(o & _ & -> & _)]]; [discriminate Hg|reflexivity].
Qed.
Print Assumptions C20_refused_before_anything_src.

(* ... at any depth of cause / context links: that node is refused exactly as at top level, and the load of the whole
   tree does not return *)
Theorem C20_nested_gate_src : forall e pa p ty md args sup cause ctx,
  sub_at p pa = Some (PRepr ty md args sup cause ctx) ->
  node_verdict e md ty = Some true ->
  snd (exception_to_python_py e (PRepr ty md args sup cause ctx)) = Exc XSecurityError /\
  forall v, snd (exception_to_python_py e p) <> Ok v.
Proof.
  intros e pa p ty md args sup cause ctx Hs Hv.
  destruct (nested_gate e pa p ty md args sup cause ctx Hs Hv) as [H1 H2].
  rewrite !exception_to_python_src. unfold run_of. cbn [snd]. rewrite H1. split; [reflexivity|].
  intros v Hq. destruct (fst (conv e p)) as [x| | | |] eqn:Hc; try (destruct x; discriminate Hq); try discriminate Hq.
  exact (H2 x eq_refl).
Qed.
Print Assumptions C20_nested_gate_src.

(* the outcome through each entry point, fully characterised (C20_outcome, verbatim) *)
Theorem C20_outcome_src : forall en e r,
  match fst (load_gen en e r) with
  | ROk None => r = RNone
  | ROk (Some _) => r <> RNone
  | RSecurity => True
  | RValidation => validate r = None \/ (en <> EDirect /\ all_names_ok r = false)
  | RValueError => en = EDirect /\ all_names_ok r = false
  | RPropagated i => exists o, In (Instantiate (TEnv o)) (snd (load_gen en e r)) /\ reachable e o /\
                               okind o = KExc CtorRaisesBase /\ oid o = i
  | RWeird => False
  end.
Proof. intros en e r. rewrite load_gen_src. apply outcome. Qed.
Print Assumptions C20_outcome_src.

(* module absent from sys.modules, an attribute of the dotted path missing, or no module stored: a class of that very
   name is synthesised and instantiated, nothing else happens before *)
Theorem C20_unresolved_src : forall e ty md args sup cause ctx,
  unresolved e md ty -> name_ok ty = true ->
  exists rest, fst (exception_to_python_py e (PRepr ty md args sup cause ctx)) =
               Synthesize ty (synth_module md) :: Instantiate (TSynth ty (synth_module md)) :: rest.
Proof.
  intros e ty md args sup cause ctx Hu Hn. rewrite exception_to_python_src. unfold run_of. cbn [fst].
  pose proof (unresolved_synth e ty md args sup cause ctx Hu) as H. cbn zeta in H. rewrite Hn in H.
  destruct H as (rest & H & _). exists rest. exact H.
Qed.
Print Assumptions C20_unresolved_src.
