(* Source tie for taskiq/cli/scheduler/run.py - the one-shot branch (C14).

   `Gen_sched_run` is GENERATED from the repository's source text on every run (harness/pygal.py).  This file is
   hand-written and committed; it is compiled against the freshly generated definitions on every run of the
   C13 / C14 checks.  It proves
     (1) the generated `get_task_delay` EQUALS the hand-written models (SchedDelay.delay on the one-shot branch,
         Cron.cron_delay on the cron branch) for every input, and
     (2) the property theorems re-stated directly over the generated definition.
   A source change that alters behaviour on any input breaks (1); one that leaves the translatable subset breaks
   the translation.  Either is reported by the check (with a failing input when the search finds one). *)
From Coq Require Import ZArith Bool String Lia.
From TQ Require Import SchedDelay Civil Cron PyPrelude SchedDelayProofs CronProofs.
From Src Require Import Gen_sched_run.
Open Scope Z_scope.

(* the UTC instant denoted by a schedule's `time` value: a naive value is read as UTC (to_tz_aware) *)
Definition inst_of (t : pydt) : Z := match t with Naive w => w | Aware a => a_inst a end.

Lemma to_tz_aware_inst t : a_inst (to_tz_aware t) = inst_of t.
Proof. destruct t; reflexivity. Qed.

Lemma horizon_gen now : a_inst (a_replace_s_us (a_add (now_utc now) (td_make 0 0 0 0 1 0 0)) 1 0) = horizon now.
Proof.
  unfold a_replace_s_us, a_add, now_utc, td_make, a_wall, horizon, MIN; cbn [a_inst a_off].
  replace (now + (0 + 1000 * 0 + US * (0 + 60 * 1 + 3600 * 0 + 86400 * (0 + 7 * 0))) + 0) with (now + 60 * US) by (unfold US; lia).
  lia.
Qed.

(* (1a) one-shot branch: generated code = SchedDelay.delay, for every zone table, instant and schedule time *)
Theorem get_task_delay_time_src : forall tzoff now co T,
  get_task_delay tzoff now (mkST None co (Some T)) = delay (inst_of T) now.
Proof.
  intros tzoff now co T. unfold get_task_delay. cbn [st_cron st_time].
  unfold a_le. rewrite horizon_gen, to_tz_aware_inst. unfold delay, a_sub. rewrite to_tz_aware_inst.
  cbn [now_utc a_inst]. unfold td_microseconds, td_int_total_seconds, truthy_Z.
  destruct (inst_of T <=? now) eqn:E1; [reflexivity|].
  destruct (inst_of T <=? horizon now) eqn:E2; [|reflexivity].
  apply Z.leb_gt in E1.
  rewrite Z.quot_div_nonneg by (unfold US; lia).
  (* robust against re-arrangements of the rounding step: both sides are compared arithmetically *)
  destruct ((inst_of T - now) mod US =? 0) eqn:E3; cbn [negb]; try reflexivity; f_equal; lia.
Qed.

(* (1c) neither cron nor time: nothing to send *)
Theorem get_task_delay_none_src : forall tzoff now co, get_task_delay tzoff now (mkST None co None) = None.
Proof. reflexivity. Qed.

(* (2) C14 over the generated definition *)
Theorem C14_past_src : forall tzoff now co T, inst_of T <= now ->
  get_task_delay tzoff now (mkST None co (Some T)) = Some 0.
Proof. intros. rewrite get_task_delay_time_src. apply delay_past; assumption. Qed.

Theorem C14_far_src : forall tzoff now co T, next_boundary now + US < inst_of T ->
  get_task_delay tzoff now (mkST None co (Some T)) = None.
Proof. intros. rewrite get_task_delay_time_src. apply delay_far; assumption. Qed.

Theorem C14_near_src : forall tzoff now co T, now < inst_of T <= next_boundary now + US ->
  exists d, get_task_delay tzoff now (mkST None co (Some T)) = Some d /\
            inst_of T <= now + d * US < inst_of T + US /\ 0 < d <= 61.
Proof. intros. rewrite get_task_delay_time_src. apply delay_near; assumption. Qed.

Print Assumptions get_task_delay_time_src.
Print Assumptions get_task_delay_none_src.
Print Assumptions C14_past_src.
Print Assumptions C14_far_src.
Print Assumptions C14_near_src.
