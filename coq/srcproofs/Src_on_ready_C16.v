(* Source tie for taskiq/scheduler/scheduler.py, TaskiqScheduler.on_ready, property C16 (scheduled sends carry the
   schedule's payload and honour source callbacks).

   `Gen_on_ready.on_ready_py` is GENERATED from the repository's source text on every run (harness/pygal_m.py with the
   primitives of harness/pygal_on_ready.py): the body of the `async def` is translated statement by statement into the
   statement monad of PyStm.v; its primitives (source.pre_send / post_send, AsyncKicker(...), .with_labels(schedule_id=),
   .kiq( *task.args, **task.kwargs )) have the meaning given in PyPreludeSched.v.  This file is hand-written and
   committed; it is re-checked against the freshly generated definition on every run of the C16 check.

   The hand-written model SchedSource.on_ready is a pure function into (effects, result) with FIVE results: two of
   them (ROk, RCancelled) are normal returns of the coroutine - the model tells them apart, a Python function
   returning None twice does not - and three are the exception that propagates.  on_ready_src: the generated function,
   run on the scheduler / source / task described by (prepare, kick_ok) / (pre, post_ok) / (sid, p), IS the model's
   run read back as a run of the monad (run_of: the effect list as it is; ROk, RCancelled -> returned; RPreRaised,
   RSendError, RPostRaised -> the exception), for EVERY label preparation, source behaviour, kick outcome, schedule id
   and payload.  No hypothesis.  on_ready_src_inv is the converse reading: the model's pair is the generated run's
   effect list and outcome, the two normal returns named by what pre_send did - so nothing of the model is lost.

   The proofs name nothing of the generated text but the definition itself: case analysis on the three behaviours
   and computation. *)
From Coq Require Import List Arith Bool ZArith.
From TQ Require Import SchedSource SchedSourceProofs PyStm PyPreludeSched.
From Src Require Import Gen_on_ready.
Import ListNotations.

(* a run of the model, read as a run of the statement monad *)
Definition outcome_of (r : result) : outc sexc unit :=
  match r with
  | ROk | RCancelled => Ok tt
  | RPreRaised => Exc XPreOther
  | RSendError => Exc XSendError
  | RPostRaised => Exc XPostOther
  end.
Definition run_of {pval} (r : list (eff pval) * result) : SM pval unit := (fst r, outcome_of (snd r)).

(* ... and back: the two normal returns are named by what pre_send did *)
Definition result_of (pre : pre_out) (o : outc sexc unit) : result :=
  match o with
  | Ok _ => match pre with PreCancel => RCancelled | _ => ROk end
  | Exc XCancelled => RCancelled
  | Exc XPreOther => RPreRaised
  | Exc XSendError => RSendError
  | Exc XPostOther => RPostRaised
  end.

(* the objects a configuration of the model describes *)
Definition on_ready_gen {pval} (prepare : lval -> pval) (pre : pre_out) (kick_ok post_ok : bool) (sid : nat) (p : payload)
  : SM pval unit :=
  on_ready_py (mksched prepare kick_ok) (mksource pre post_ok) (mkfired sid p).

Ltac run_both :=
  unfold on_ready_gen, on_ready_py, run_of, outcome_of, on_ready, mk_msg, kicker_labels,
    source_pre_send, source_post_send, kicker_kiq, with_labels, AsyncKicker, label_schedule_id,
    schedule_id, task_name, task_labels, task_args, task_kwargs, PyPreludeSched.try_else, PyPreludeSched.try_except,
    try_except_on;
  cbn [run_fn sbind bind lift next return_ raise_ ret raise emit try_else_on is_ScheduledTaskCancelledError is_exception
       src_pre src_post_ok sch_prepare sch_kick_ok f_sid f_payload kk_name kk_broker kk_labels app fst snd].

Theorem on_ready_src : forall (pval : Type) (prepare : lval -> pval) pre kick_ok post_ok sid p,
  on_ready_gen prepare pre kick_ok post_ok sid p = run_of (on_ready prepare pre kick_ok post_ok sid p).
Proof.
  intros pval prepare pre kick_ok post_ok sid p.
  destruct pre, kick_ok, post_ok; run_both; reflexivity.
Qed.
Print Assumptions on_ready_src.

Theorem on_ready_src_inv : forall (pval : Type) (prepare : lval -> pval) pre kick_ok post_ok sid p,
  on_ready prepare pre kick_ok post_ok sid p =
  (fst (on_ready_gen prepare pre kick_ok post_ok sid p), result_of pre (snd (on_ready_gen prepare pre kick_ok post_ok sid p))).
Proof.
  intros pval prepare pre kick_ok post_ok sid p. rewrite on_ready_src.
  destruct pre, kick_ok, post_ok; reflexivity.
Qed.
Print Assumptions on_ready_src_inv.

(* pre_send cancels (ScheduledTaskCancelledError): nothing is sent, post_send is not called, on_ready returns *)
Theorem C16_cancel_src : forall (pval : Type) (prepare : lval -> pval) kick_ok post_ok sid p,
  on_ready_gen prepare PreCancel kick_ok post_ok sid p = ([EPre sid], Ok tt).
Proof. intros. rewrite on_ready_src, on_ready_cancel. reflexivity. Qed.
Print Assumptions C16_cancel_src.

(* pre_send cancels or raises anything else: no Kick, no PostSend among the effects; a cancel returns, anything else
   propagates *)
Theorem C16_no_send_unless_pre_ok_src : forall (pval : Type) (prepare : lval -> pval) pre kick_ok post_ok sid p,
  pre <> PreOk ->
  let (effs, o) := on_ready_gen prepare pre kick_ok post_ok sid p in
  effs = [EPre sid] /\ existsb is_kick effs = false /\ existsb is_post effs = false /\
  (pre = PreCancel -> o = Ok tt) /\ (pre = PreRaise -> o = Exc XPreOther).
Proof.
  intros pval prepare pre kick_ok post_ok sid p H. rewrite on_ready_src.
  pose proof (on_ready_no_send pval prepare pre kick_ok post_ok sid p H) as N.
  destruct (on_ready prepare pre kick_ok post_ok sid p) as [effs r]. unfold run_of. cbn [fst snd].
  destruct N as (N1 & N2 & N3 & N4 & N5). repeat split; try assumption.
  - intros E. rewrite (N4 E). reflexivity.
  - intros E. rewrite (N5 E). reflexivity.
Qed.
Print Assumptions C16_no_send_unless_pre_ok_src.

(* otherwise: pre_send, then exactly one Kick carrying the schedule's task name / args / kwargs, every label of the
   schedule prepared, plus schedule_id; then PostSend (iff the kick succeeded); the coroutine returns iff both went
   through *)
Theorem C16_payload_src : forall (pval : Type) (prepare : lval -> pval) kick_ok post_ok sid p,
  exists m,
    fst (on_ready_gen prepare PreOk kick_ok post_ok sid p) = EPre sid :: EKick m :: (if kick_ok then [EPost sid] else []) /\
    m_task m = p_task p /\ m_args m = p_args p /\ m_kwargs m = p_kwargs p /\
    lookup K_SCHEDULE_ID (m_labels m) = Some (prepare (LSid sid)) /\
    (forall k, k <> K_SCHEDULE_ID -> lookup k (m_labels m) = option_map prepare (lookup k (p_labels p))) /\
    snd (on_ready_gen prepare PreOk kick_ok post_ok sid p) =
      (if kick_ok then if post_ok then Ok tt else Exc XPostOther else Exc XSendError).
Proof.
  intros pval prepare kick_ok post_ok sid p. rewrite on_ready_src.
  destruct (on_ready_payload pval prepare kick_ok post_ok sid p) as (m & H1 & H2 & H3 & H4 & H5 & H6 & H7).
  exists m. unfold run_of. cbn [fst snd]. rewrite H7. repeat split; try assumption.
  destruct kick_ok, post_ok; reflexivity.
Qed.
Print Assumptions C16_payload_src.
