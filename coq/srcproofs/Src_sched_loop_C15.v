(* Source tie for taskiq/cli/scheduler/run.py: get_schedules, get_all_schedules, delayed_send and ONE ITERATION of
   run_scheduler_loop's `while True:`; property C15 (the scheduler loop sends each due schedule once per occurrence).

   `Gen_sched_loop.{get_schedules_py, get_all_schedules_py, delayed_send_py, loop_iteration_py}` are GENERATED from the
   repository's source text on every run (harness/pygal_m.py with the primitives of harness/pygal_sched_loop.py); the
   primitives have the meaning given in coq/theories/PyPreludeLoop.v.  This file is hand-written and committed; it is
   re-checked against the freshly generated definitions on every run of the C15 check.  It names nothing of the
   generated text but the four definitions.

   Shape of the statements.  The hand-written model (coq/theories/SchedLoop.v) describes one iteration by
   `poll_body cron_due now listings : list (source index, schedule id, instant at which on_ready is called)` and
   `sleep_len now`.  The generated iteration is a run of the statement monad: an ordered list of effects and an
   outcome.  `loop_iteration_src` characterises that run completely, for EVERY scheduler (any sources - listed once -,
   any listing, raising sources, tasks whose get_task_delay raises ValueError or anything else) and every world;
   `loop_body_src`, `sleep_src`, `sleep_len_src` read the model's two quantities off it. *)
From Coq Require Import List Arith Bool ZArith Lia.
From TQ Require Import SchedDelay SchedLoop SchedLoopProofs PyPrelude PyStm PyPreludeLoop PyPreludeLoopProofs.
From Src Require Import Gen_sched_loop.
Import ListNotations.
Open Scope Z_scope.

(* comparisons on Z as propositions, for lia *)
Ltac zprop :=
  repeat match goal with
         | H : negb _ = true |- _ => apply negb_true_iff in H
         | H : negb _ = false |- _ => apply negb_false_iff in H
         | H : (_ >? _) = _ |- _ => rewrite Z.gtb_ltb in H
         | H : (_ >=? _) = _ |- _ => rewrite Z.geb_leb in H
         | H : (_ <? _) = true |- _ => apply Z.ltb_lt in H
         | H : (_ <? _) = false |- _ => apply Z.ltb_ge in H
         | H : (_ <=? _) = true |- _ => apply Z.leb_le in H
         | H : (_ <=? _) = false |- _ => apply Z.leb_gt in H
         | H : (_ =? _) = true |- _ => apply Z.eqb_eq in H
         | H : (_ =? _) = false |- _ => apply Z.eqb_neq in H
         end.
(* decide every Boolean test of the goal (those of the generated text and those of the statement); the combinations
   that contradict each other are closed by lia *)
Ltac split_ifs :=
  repeat match goal with |- context [if ?b then _ else _] => destruct b eqn:? end.

Ltac run_stm :=
  cbn [run_fn run_fn_ret sbind bind lift next return_ return_v raise_ ret raise emit try_else_on
       is_ValueError is_exception app fst snd].

(* ------------------------------------------------------------------ get_schedules / get_all_schedules *)
(* what the loop gets from a source: its listing, [] when get_schedules() raised - the model's src_body reads None so *)
Definition listing_or_empty (s : lsource) : list ltask := match ls_listing s with Some l => l | None => [] end.

(* the source is asked once; get_schedules never raises *)
Theorem get_schedules_src : forall s, get_schedules_py s = ([LList (ls_id s)], Ok (listing_or_empty s)).
Proof.
  intros s. unfold get_schedules_py, source_get_schedules, listing_or_empty, PyPreludeLoop.try_except, try_except_on.
  destruct (ls_listing s); run_stm; reflexivity.
Qed.
Print Assumptions get_schedules_src.

(* every source is asked once, in order; the result is the dict built from (source, listing or []) - no hypothesis *)
Theorem get_all_schedules_gen_src : forall sch,
  get_all_schedules_py sch =
  (map (fun s => LList (ls_id s)) (lsc_sources sch),
   Ok (dict_of_pairs (combine (lsc_sources sch) (map listing_or_empty (lsc_sources sch))))).
Proof.
  intros sch. unfold get_all_schedules_py, sched_sources, zip.
  rewrite (gather_all_ok _ (fun s => [LList (ls_id s)]) listing_or_empty) by (intros s _; apply get_schedules_src).
  run_stm. rewrite app_nil_r. f_equal.
  induction (lsc_sources sch) as [|s r IH]; [reflexivity | cbn [flat_map map app]; rewrite IH; reflexivity].
Qed.
Print Assumptions get_all_schedules_gen_src.

Lemma combine_map_self {A B} (f : A -> B) (l : list A) : combine l (map f l) = map (fun x => (x, f x)) l.
Proof. induction l as [|x r IH]; [reflexivity | cbn [combine map]; rewrite IH; reflexivity]. Qed.

(* when no source object is listed twice in scheduler.sources, the dict lists (source, listing or []) per source, in
   the order of scheduler.sources: a raising source is listed with [] exactly as the model's src_body assumes *)
Theorem get_all_schedules_src : forall sch, NoDup (map ls_id (lsc_sources sch)) ->
  get_all_schedules_py sch =
  (map (fun s => LList (ls_id s)) (lsc_sources sch), Ok (map (fun s => (s, listing_or_empty s)) (lsc_sources sch))).
Proof.
  intros sch H. rewrite get_all_schedules_gen_src, combine_map_self, dict_of_pairs_nodup; [reflexivity|].
  rewrite map_map. exact H.
Qed.
Print Assumptions get_all_schedules_src.

(* the same source OBJECT twice in scheduler.sources: asked twice, listed once (one dict key) - the model's listings
   are indexed by position and would count it twice; see notes/srctie_sched_loop.md *)
Example get_all_schedules_same_object_twice : forall ok t,
  let s := mklsource 7 (Some [t]) in
  get_all_schedules_py (mklsched [s; s] ok) = ([LList 7; LList 7], Ok [(s, [t])]).
Proof. intros. rewrite get_all_schedules_gen_src. reflexivity. Qed.

(* ------------------------------------------------------------------ delayed_send *)
(* what a spawned delayed_send does: sleep `delay` seconds if delay > 0, then call on_ready(source, task) once;
   whatever on_ready raises leaves the coroutine *)
Definition send_run (sch : lsched) (i sid : nat) (d : Z) : LM unit :=
  ((if d >? 0 then [LSleep (d * US)] else []) ++ [LOnReady i sid],
   if lsc_on_ready_ok sch i sid then Ok tt else Exc XOnReady).

Theorem delayed_send_src : forall sch src t d,
  delayed_send_py sch src t d = send_run sch (ls_id src) (lt_sid t) d.
Proof.
  intros sch src t d. unfold delayed_send_py, send_run, asyncio_sleep_s, scheduler_on_ready.
  split_ifs; run_stm; try reflexivity; exfalso; zprop; lia.
Qed.
Print Assumptions delayed_send_src.

(* ------------------------------------------------------------------ one iteration of the loop *)
(* a created task is kept in running_schedules and discards itself from it when done *)
Definition spawn3 (c : LM unit) : list leff := [LSpawn c; LKeep c; LOnDone c].

(* one task of one source: nothing (ValueError is swallowed, None), a spawn, or the exception that ends the iteration *)
Definition task_step (w : world) (sch : lsched) (src : lsource) (t : ltask) : list leff * option lexc :=
  match lt_kind t with
  | None => ([], Some XDelayOther)
  | Some k => match due (w_cron_due w) k (w_now w) with
              | DSend d => (spawn3 (send_run sch (ls_id src) (lt_sid t) d), None)
              | _ => ([], None)
              end
  end.
Definition source_step (w : world) (sch : lsched) (p : lsource * list ltask) : list leff * option lexc :=
  run_list (task_step w sch (fst p)) (snd p).
Definition body_run (w : world) (sch : lsched) : list leff * option lexc :=
  run_list (source_step w sch) (map (fun s => (s, listing_or_empty s)) (lsc_sources sch)).

(* the sleep at the end: until floor_minute(first clock read) + 1 min, measured from the second clock read *)
Definition slept (w : world) : Z := next_poll (w_read w 0%nat) - w_read w 1%nat.

(* the whole run of one iteration, for every world and every scheduler whose sources are pairwise different objects:
   all sources are asked (in order), then source by source, task by task, every due task is spawned / kept / given its
   done-callback, a ValueError of get_task_delay skips the task, any other exception ends the iteration before the
   sleep; otherwise - only then, after all of this - the clock is read twice and the iteration ends by sleeping `slept w` *)
Theorem loop_iteration_src : forall w sch, NoDup (map ls_id (lsc_sources sch)) ->
  loop_iteration_py w sch tt tt =
  (map (fun s => LList (ls_id s)) (lsc_sources sch) ++ fst (body_run w sch) ++
     match snd (body_run w sch) with None => [LNow 0; LNow 1; LSleep (slept w)] | Some _ => [] end,
   match snd (body_run w sch) with None => Ok tt | Some e => Exc e end).
Proof.
  intros w sch H. unfold loop_iteration_py. rewrite (get_all_schedules_src sch H). unfold dict_items. run_stm.
  rewrite (for_run (source_step w sch)).
  - fold (body_run w sch). destruct (body_run w sch) as [es [e|]]; cbn [outcome_of fst snd]; run_stm.
    + rewrite ?app_nil_r, <- ?app_assoc. reflexivity.
    + unfold asyncio_sleep_f, at_clock_read. run_stm.
      match goal with |- (?l, _) = _ => match l with context [LSleep ?a] =>
        replace a with (slept w)
          by (unfold td_total_seconds, datetime_now, naive_replace_s_us, slept, next_poll, td_make, MIN, US; lia) end end.
      rewrite ?app_nil_r, <- ?app_assoc. reflexivity.
  - intros [src tasks] _. unfold source_step. cbn [fst snd].
    rewrite (for_c_run (task_step w sch src)); [split; reflexivity|].
    intros t _. unfold task_step, get_task_delay, try_except_on.
    destruct (lt_kind t) as [k|]; [destruct (due (w_cron_due w) k (w_now w)) eqn:D|];
      unfold step_c_is, loop_create_task, set_add, add_done_callback_discard, continue_; run_stm;
      try rewrite delayed_send_src; cbn [fst snd]; auto.
Qed.
Print Assumptions loop_iteration_src.

(* ------------------------------------------------------------------ the model's quantities, read off a run *)
(* what a task started at instant t does, as the model's spawn triples: each on_ready call with the instant it happens
   at = t + what was slept before it *)
Fixpoint fires (t : Z) (es : list leff) : list spawn :=
  match es with
  | [] => []
  | LSleep us :: r => fires (t + us) r
  | LOnReady i sid :: r => (i, sid, t) :: fires t r
  | _ :: r => fires t r
  end.
(* the tasks created by an iteration whose body runs at instant `now` (the model's idealisation: a created task starts
   at the instant of the poll's body) *)
Definition spawns_at (now : Z) (es : list leff) : list spawn :=
  flat_map (fun e => match e with LSpawn c => fires now (fst c) | _ => [] end) es.
(* what the iteration itself sleeps, and its bookkeeping of created tasks *)
Definition sleeps (es : list leff) : list Z := flat_map (fun e => match e with LSleep us => [us] | _ => [] end) es.
Definition created (es : list leff) : list (LM unit) := flat_map (fun e => match e with LSpawn c => [c] | _ => [] end) es.
Definition kept (es : list leff) : list (LM unit) := flat_map (fun e => match e with LKeep c => [c] | _ => [] end) es.
Definition discarding (es : list leff) : list (LM unit) := flat_map (fun e => match e with LOnDone c => [c] | _ => [] end) es.

Lemma proj_listing {A B} (f : leff -> list B) (g : A -> nat) (l : list A) :
  (forall i, f (LList i) = []) -> flat_map f (map (fun x => LList (g x)) l) = [].
Proof. intros H. induction l as [|i r IH]; [reflexivity | cbn [map flat_map]; rewrite H, IH; reflexivity]. Qed.

(* the body of an iteration does not sleep (the tasks it creates do, later) *)
Lemma body_no_sleep w sch : forall l, sleeps (fst (run_list (source_step w sch) l)) = [].
Proof.
  assert (T : forall src ts, sleeps (fst (run_list (task_step w sch src) ts)) = []).
  { intros src ts. induction ts as [|t0 ts IHt]; cbn [run_list fst]; [reflexivity|].
    assert (Q : sleeps (fst (task_step w sch src t0)) = []).
    { unfold task_step. destruct (lt_kind t0) as [k|]; [destruct (due (w_cron_due w) k (w_now w))|]; reflexivity. }
    destruct (task_step w sch src t0) as [es [e0|]]; cbn [fst] in *; [exact Q|].
    destruct (run_list (task_step w sch src) ts) as [es' o']. cbn [fst] in *. unfold sleeps in *. rewrite flat_map_app, Q, IHt. reflexivity. }
  intros l. induction l as [|p r IH]; cbn [run_list fst]; [reflexivity|].
  assert (P := T (fst p) (snd p)). fold (source_step w sch p) in P.
  destruct (source_step w sch p) as [es [e0|]]; cbn [fst] in *; [exact P|].
  destruct (run_list (source_step w sch) r) as [es' o']. cbn [fst] in *. unfold sleeps in *. rewrite flat_map_app, P, IH. reflexivity.
Qed.

(* the sources of the scheduler are pairwise different objects and none of their tasks makes get_task_delay raise
   something else than ValueError: the iteration returns (and has slept); otherwise ... *)
Theorem loop_returns_src : forall w sch, NoDup (map ls_id (lsc_sources sch)) ->
  (forall s t, In s (lsc_sources sch) -> In t (listing_or_empty s) -> lt_kind t <> None) ->
  snd (loop_iteration_py w sch tt tt) = Ok tt.
Proof.
  intros w sch H Hk. rewrite (loop_iteration_src w sch H). cbn [snd].
  assert (E : snd (body_run w sch) = None); [|rewrite E; reflexivity].
  unfold body_run. apply run_list_none. intros p Hp. apply in_map_iff in Hp. destruct Hp as [s [<- Hs]].
  unfold source_step. cbn [fst snd]. apply run_list_none. intros t Ht. unfold task_step.
  destruct (lt_kind t) as [k|] eqn:K; [destruct (due (w_cron_due w) k (w_now w)); reflexivity|].
  exfalso. exact (Hk s t Hs Ht K).
Qed.
Print Assumptions loop_returns_src.

(* ... an exception of get_task_delay that is not a ValueError is NOT swallowed: it ends the iteration (and thereby
   run_scheduler_loop) before the sleep *)
Theorem loop_other_exception_src : forall w sch s t, NoDup (map ls_id (lsc_sources sch)) ->
  In s (lsc_sources sch) -> In t (listing_or_empty s) -> lt_kind t = None ->
  snd (loop_iteration_py w sch tt tt) = Exc XDelayOther /\ sleeps (fst (loop_iteration_py w sch tt tt)) = [].
Proof.
  intros w sch s t H Hs Ht K. rewrite (loop_iteration_src w sch H). cbn [fst snd].
  assert (R : snd (body_run w sch) <> None).
  { unfold body_run. apply run_list_raises. exists (s, listing_or_empty s).
    split; [apply (in_map (fun s0 => (s0, listing_or_empty s0))); exact Hs|].
    unfold source_step. cbn [fst snd]. apply run_list_raises. exists t. split; [exact Ht|]. unfold task_step. rewrite K. discriminate. }
  destruct (snd (body_run w sch)) as [e|] eqn:E; [|exfalso; apply R; reflexivity].
  assert (e = XDelayOther) as ->.
  { unfold body_run in E. apply run_list_some in E. destruct E as [p [_ E]]. unfold source_step in E.
    apply run_list_some in E. destruct E as [t' [_ E]]. unfold task_step in E.
    destruct (lt_kind t') as [k|]; [destruct (due (w_cron_due w) k (w_now w)); discriminate | inversion E; reflexivity]. }
  split; [reflexivity|]. unfold sleeps. rewrite !flat_map_app, proj_listing by reflexivity.
  unfold body_run. fold (sleeps (fst (run_list (source_step w sch) (map (fun s0 => (s0, listing_or_empty s0)) (lsc_sources sch))))).
  rewrite body_no_sleep. reflexivity.
Qed.
Print Assumptions loop_other_exception_src.

(* ------------------------------------------------------------------ the iteration on the scheduler of a model listing *)
(* the scheduler a listing of the model describes: source i is object number i, it lists the model's schedules *)
Definition task_of (s : sched) : ltask := mkltask (fst s) (Some (snd s)).
Definition source_of (i : nat) (l : option (list sched)) : lsource := mklsource i (option_map (map task_of) l).
Definition scheduler_of (ok : nat -> nat -> bool) (ls : list (option (list sched))) : lsched :=
  mklsched (mapi_from source_of 0%nat ls) ok.

Lemma ids_mapi_from : forall ls i, map ls_id (mapi_from source_of i ls) = seq i (length ls).
Proof. induction ls as [|l r IH]; intros i; [reflexivity | cbn [mapi_from map length seq ls_id source_of]; rewrite IH; reflexivity]. Qed.

Lemma scheduler_of_nodup ok ls : NoDup (map ls_id (lsc_sources (scheduler_of ok ls))).
Proof. unfold scheduler_of. cbn [lsc_sources]. rewrite ids_mapi_from. apply seq_NoDup. Qed.

Lemma due_nonneg cd k now d : due cd k now = DSend d -> 0 <= d.
Proof.
  destruct k as [c| |T]; cbn [due].
  - destruct (cd c now); intros E; inversion E; lia.
  - discriminate.
  - intros E. destruct (due_oneshot cd T now d E) as [[_ ->]|[_ [_ ?]]]; lia.
Qed.

Lemma fires_send_run sch i sid d now : 0 <= d -> fires now (fst (send_run sch i sid d)) = [(i, sid, now + d * US)].
Proof.
  intros H. unfold send_run. cbn [fst]. destruct (d >? 0) eqn:E; cbn [app fires].
  - reflexivity.
  - assert (d = 0) as -> by lia. do 2 f_equal. lia.
Qed.

(* the body of the iteration on a model listing: the model's spawns, nobody raises *)
Lemma tasks_of_model w sch src ss :
  run_list (task_step w sch src) (map task_of ss) =
  (flat_map (fun s => match due (w_cron_due w) (snd s) (w_now w) with
                      | DSend d => spawn3 (send_run sch (ls_id src) (fst s) d) | _ => [] end) ss, None).
Proof.
  induction ss as [|s r IH]; [reflexivity|]. cbn [map run_list flat_map]. rewrite IH. unfold task_step at 1.
  cbn [task_of lt_kind lt_sid]. destruct (due (w_cron_due w) (snd s) (w_now w)); reflexivity.
Qed.

Lemma tasks_of_model_proj w sch j ss :
  let es := flat_map (fun s => match due (w_cron_due w) (snd s) (w_now w) with
                               | DSend d => spawn3 (send_run sch j (fst s) d) | _ => [] end) ss in
  spawns_at (w_now w) es = src_body (w_cron_due w) (w_now w) j (Some ss) /\
  sleeps es = [] /\ kept es = created es /\ discarding es = created es.
Proof.
  cbv zeta. cbn [src_body]. induction ss as [|s r [IH1 [IH2 [IH3 IH4]]]]; [repeat split; reflexivity|]. cbn [flat_map].
  unfold spawns_at, sleeps, kept, created, discarding in *. rewrite !flat_map_app, IH1, IH2, IH3, IH4.
  destruct (due (w_cron_due w) (snd s) (w_now w)) eqn:D; cbn [spawn3 flat_map app]; try (repeat split; reflexivity).
  rewrite (fires_send_run _ _ _ _ _ (due_nonneg _ _ _ _ D)). repeat split; reflexivity.
Qed.

Lemma source_of_model w sch i l :
  exists es, source_step w sch (source_of i l, listing_or_empty (source_of i l)) = (es, None) /\
             spawns_at (w_now w) es = src_body (w_cron_due w) (w_now w) i l /\
             sleeps es = [] /\ kept es = created es /\ discarding es = created es.
Proof.
  unfold source_step, listing_or_empty. cbn [fst snd source_of ls_listing]. destruct l as [ss|]; cbn [option_map].
  - rewrite tasks_of_model. eexists. split; [reflexivity|]. exact (tasks_of_model_proj w sch i ss).
  - exists []. repeat split; reflexivity.
Qed.

Lemma body_of_model w sch : forall ls i,
  exists es, run_list (source_step w sch) (map (fun s => (s, listing_or_empty s)) (mapi_from source_of i ls)) = (es, None) /\
             spawns_at (w_now w) es = poll_body_from (w_cron_due w) (w_now w) i ls /\
             sleeps es = [] /\ kept es = created es /\ discarding es = created es.
Proof.
  induction ls as [|l r IH]; intros i; [exists []; repeat split; reflexivity|].
  cbn [mapi_from map run_list poll_body_from].
  destruct (source_of_model w sch i l) as [es1 [E1 [S1 [Z1 [K1 D1]]]]]. rewrite E1.
  destruct (IH (S i)) as [es2 [E2 [S2 [Z2 [K2 D2]]]]]. rewrite E2. exists (es1 ++ es2). split; [reflexivity|].
  unfold spawns_at, sleeps, kept, created, discarding in *. rewrite !flat_map_app, S1, S2, Z1, Z2, K1, K2, D1, D2.
  repeat split; reflexivity.
Qed.

Lemma no_spawn_in_listing (l : list lsource) :
  spawns_at 0 (map (fun s => LList (ls_id s)) l) = [] /\ forall now, spawns_at now (map (fun s => LList (ls_id s)) l) = [].
Proof. split; [|intros now]; induction l as [|s r IH]; try reflexivity; cbn [map spawns_at flat_map app]; exact IH. Qed.

(* the run of one iteration on the scheduler of a model listing, in the model's terms *)
Lemma iteration_of_model w ok ls :
  exists es, loop_iteration_py w (scheduler_of ok ls) tt tt =
             (map LList (seq 0 (length ls)) ++ es ++ [LNow 0; LNow 1; LSleep (slept w)], Ok tt) /\
             spawns_at (w_now w) es = poll_body (w_cron_due w) (w_now w) ls /\
             sleeps es = [] /\ kept es = created es /\ discarding es = created es.
Proof.
  set (sch := scheduler_of ok ls).
  rewrite (loop_iteration_src w sch (scheduler_of_nodup ok ls)). unfold body_run.
  change (lsc_sources sch) with (mapi_from source_of 0%nat ls).
  destruct (body_of_model w sch ls 0%nat) as [es [E R]]. rewrite E. cbn [fst snd].
  exists es. split; [|exact R]. rewrite <- (ids_mapi_from ls 0%nat), map_map. reflexivity.
Qed.

(* MAIN: the tasks one iteration creates - each read as (source index, schedule id, instant at which it calls on_ready)
   - are exactly the model's poll_body, for every cron decision, instant, listing (raising sources, unparsable crons
   included) and every behaviour of on_ready *)
Theorem loop_body_src : forall w ok ls,
  spawns_at (w_now w) (fst (loop_iteration_py w (scheduler_of ok ls) tt tt)) = poll_body (w_cron_due w) (w_now w) ls /\
  snd (loop_iteration_py w (scheduler_of ok ls) tt tt) = Ok tt.
Proof.
  intros w ok ls. destruct (iteration_of_model w ok ls) as [es [E [S _]]]. rewrite E. cbn [fst snd]. split; [|reflexivity].
  unfold spawns_at in *. rewrite !flat_map_app, S, proj_listing by reflexivity. cbn [flat_map app]. apply app_nil_r.
Qed.
Print Assumptions loop_body_src.

(* the iteration sleeps exactly once, at its end: until floor_minute(first datetime.now()) + 1 min, measured from the
   second datetime.now() *)
Theorem sleep_src : forall w ok ls,
  sleeps (fst (loop_iteration_py w (scheduler_of ok ls) tt tt)) = [next_poll (w_read w 0%nat) - w_read w 1%nat] /\
  exists es, fst (loop_iteration_py w (scheduler_of ok ls) tt tt) = es ++ [LSleep (next_poll (w_read w 0%nat) - w_read w 1%nat)].
Proof.
  intros w ok ls. destruct (iteration_of_model w ok ls) as [es [E [_ [Z _]]]]. rewrite E. cbn [fst]. split.
  - unfold sleeps in *. rewrite !flat_map_app, Z, proj_listing by reflexivity. reflexivity.
  - exists (map LList (seq 0 (length ls)) ++ es ++ [LNow 0; LNow 1]). rewrite <- !app_assoc. reflexivity.
Qed.
Print Assumptions sleep_src.

(* ... which is the model's sleep_len when both reads return the instant of the body *)
Theorem sleep_len_src : forall w ok ls now, w_read w 0%nat = now -> w_read w 1%nat = now ->
  sleeps (fst (loop_iteration_py w (scheduler_of ok ls) tt tt)) = [sleep_len now].
Proof. intros w ok ls now H0 H1. rewrite (proj1 (sleep_src w ok ls)), H0, H1. reflexivity. Qed.
Print Assumptions sleep_len_src.

(* ... and which, whatever the two reads return, ends at the model's next_poll of the FIRST read: on a minute
   boundary; it is positive and at most a minute if the second read is not before the first and not after that
   boundary (if a minute boundary passes between the two reads the sleep is <= 0: asyncio.sleep returns at once and
   the next poll starts late by the time between the reads - the model's next_poll (single instant) does not show it) *)
Theorem sleep_ends_on_boundary_src : forall w ok ls us,
  In us (sleeps (fst (loop_iteration_py w (scheduler_of ok ls) tt tt))) ->
  w_read w 1%nat + us = next_poll (w_read w 0%nat) /\
  floor_minute (w_read w 1%nat + us) = w_read w 1%nat + us /\
  (w_read w 0%nat <= w_read w 1%nat -> us <= MIN) /\
  (w_read w 1%nat < next_poll (w_read w 0%nat) -> 0 < us).
Proof.
  intros w ok ls us H. rewrite (proj1 (sleep_src w ok ls)) in H. destruct H as [<-|[]].
  pose proof (next_poll_spec (w_read w 0%nat)) as [P1 P2].
  replace (w_read w 1%nat + (next_poll (w_read w 0%nat) - w_read w 1%nat)) with (next_poll (w_read w 0%nat)) by lia.
  repeat split; try assumption; lia.
Qed.
Print Assumptions sleep_ends_on_boundary_src.

(* every created task, and nothing else, is put into running_schedules and gets the done-callback that discards it *)
Theorem bookkeeping_src : forall w ok ls,
  let es := fst (loop_iteration_py w (scheduler_of ok ls) tt tt) in
  kept es = created es /\ discarding es = created es.
Proof.
  intros w ok ls. cbv zeta. destruct (iteration_of_model w ok ls) as [es [E [_ [_ [K D]]]]]. rewrite E. cbn [fst].
  unfold kept, created, discarding in *. rewrite !flat_map_app, K, D, !proj_listing by reflexivity. split; reflexivity.
Qed.
Print Assumptions bookkeeping_src.

(* what the third component of the model's spawn triples means: a delayed_send started at instant t0 calls on_ready
   exactly once, for its own source and schedule, at t0 + delay seconds (at t0 when delay <= 0) *)
Theorem delayed_send_fires_src : forall sch src t d t0,
  fires t0 (fst (delayed_send_py sch src t d)) = [(ls_id src, lt_sid t, t0 + Z.max 0 d * US)].
Proof.
  intros sch src t d t0. rewrite delayed_send_src. unfold send_run. cbn [fst].
  destruct (d >? 0) eqn:E; cbn [app fires]; do 2 f_equal; lia.
Qed.
Print Assumptions delayed_send_fires_src.

(* ------------------------------------------------------------------ C15's per-poll theorems over the generated iteration *)
(* the spawn triples of the generated iteration run at `now` on the scheduler of listing ls (rd: what the two
   datetime.now() reads return, ok: which on_ready calls return - neither matters) *)
Definition iteration_spawns (cron_due : nat -> Z -> bool) (now : Z) (rd : nat -> Z) (ok : nat -> nat -> bool)
           (ls : list (option (list sched))) : list spawn :=
  spawns_at now (fst (loop_iteration_py (mkworld cron_due now rd) (scheduler_of ok ls) tt tt)).

Lemma iteration_spawns_model cron_due now rd ok ls : iteration_spawns cron_due now rd ok ls = poll_body cron_due now ls.
Proof. exact (proj1 (loop_body_src (mkworld cron_due now rd) ok ls)). Qed.

Theorem C15_cron_per_minute_src : forall (cron_due : nat -> Z -> bool) now rd ok (ls : list (option (list sched))) i (l : list sched) s c,
  nth_error ls i = Some (Some l) -> NoDup (map fst l) -> In (s, KCron c) l ->
  cnt i s (iteration_spawns cron_due now rd ok ls) = (if cron_due c now then 1 else 0)%nat /\
  (forall f, In (i, s, f) (iteration_spawns cron_due now rd ok ls) -> f = now).
Proof. intros cron_due now rd ok ls. rewrite iteration_spawns_model. exact (cron_per_minute cron_due now ls). Qed.
Print Assumptions C15_cron_per_minute_src.

Theorem C15_never_otherwise_src : forall (cron_due : nat -> Z -> bool) now rd ok (ls : list (option (list sched))) i s,
  (nth_error ls i = None \/ nth_error ls i = Some None \/
   (exists l : list sched, nth_error ls i = Some (Some l) /\ (~ In s (map fst l) \/ (NoDup (map fst l) /\ In (s, KBadCron) l)))) ->
  cnt i s (iteration_spawns cron_due now rd ok ls) = 0%nat.
Proof. intros cron_due now rd ok ls. rewrite iteration_spawns_model. exact (never_otherwise cron_due now ls). Qed.
Print Assumptions C15_never_otherwise_src.

Theorem C15_oneshot_timing_src : forall (cron_due : nat -> Z -> bool) now rd ok (ls : list (option (list sched))) i (l : list sched) s T,
  nth_error ls i = Some (Some l) -> NoDup (map fst l) -> In (s, KOne T) l ->
  cnt i s (iteration_spawns cron_due now rd ok ls) = (if (T <=? next_boundary now + US)%Z then 1%nat else 0%nat) /\
  (forall f, In (i, s, f) (iteration_spawns cron_due now rd ok ls) -> (T <= now /\ f = now) \/ (now < T /\ T <= f < T + US)).
Proof. intros cron_due now rd ok ls. rewrite iteration_spawns_model. exact (oneshot_timing cron_due now ls). Qed.
Print Assumptions C15_oneshot_timing_src.

(* C15_next_poll_on_boundary over the generated sleep, both clock reads at the instant b of the body: the iteration's
   sleep ends on a minute boundary, after b, at most a minute later *)
Theorem C15_next_poll_on_boundary_src : forall w ok ls b us, w_read w 0%nat = b -> w_read w 1%nat = b ->
  In us (sleeps (fst (loop_iteration_py w (scheduler_of ok ls) tt tt))) ->
  floor_minute (b + us) = b + us /\ b < b + us <= b + MIN.
Proof.
  intros w ok ls b us H0 H1 H. destruct (sleep_ends_on_boundary_src w ok ls us H) as [E _]. rewrite H0, H1 in E. rewrite E.
  exact (next_poll_spec b).
Qed.
Print Assumptions C15_next_poll_on_boundary_src.

(* non-vacuity: the generated iteration COMPUTES on the listing of C15_body_nonvacuous (coq/props/C15.v) - a due cron,
   a cron that is not due, an unparsable cron, a raising source, a one-shot half a second ahead, one beyond the window *)
Example loop_iteration_computes :
  let w := mkworld (fun c t => Nat.eqb c 0) 1900000080000000 (fun _ => 1900000080000000) in
  let ls := [Some [(1%nat, KCron 0); (2%nat, KCron 1); (3%nat, KBadCron)]; None;
             Some [(4%nat, KOne 1900000080500000); (5%nat, KOne 1900000141000001)]] in
  let r := loop_iteration_py w (scheduler_of (fun _ _ => true) ls) tt tt in
  spawns_at (w_now w) (fst r) = [(0%nat, 1%nat, 1900000080000000); (2%nat, 4%nat, 1900000081000000)] /\
  sleeps (fst r) = [60000000] /\ snd r = Ok tt /\ length (fst r) = 12%nat.
Proof. vm_compute. repeat split; reflexivity. Qed.
