(* Source tie for taskiq/cli/scheduler/run.py - the cron branch (C13).

   `Gen_sched_run` is GENERATED from the repository's source text on every run (harness/pygal.py).  This file is
   hand-written and committed; it is compiled against the freshly generated definitions on every run of the
   C13 / C14 checks.  It proves
     (1) the generated `get_task_delay` EQUALS the hand-written models (SchedDelay.delay on the one-shot branch,
         Cron.cron_delay on the cron branch) for every input, and
     (2) the property theorems re-stated directly over the generated definition.
   A source change that alters behaviour on any input breaks (1); one that leaves the translatable subset breaks
   the translation.  Either is reported by the check (with a failing input when the search finds one). *)
From Coq Require Import ZArith Bool String Lia.
From TQ Require Import SchedDelay Civil Cron PyPrelude SchedDelayProofs CronProofs.
From Src Require Import Gen_sched_run.
Open Scope Z_scope.

(* the model's reading of a cron_offset value (falsy values - None, "", timedelta(0) - mean no offset) *)
Definition off_of (co : cron_offset_t) : offset :=
  match co with
  | CoNone => NoOffset
  | CoStr s => if truthy_str s then Zone 0 else NoOffset
  | CoTd d => if truthy_Z d then Delta d else NoOffset
  end.
Definition zone_tbl (tzoff : string -> Z -> Z) (co : cron_offset_t) : nat -> Z -> Z :=
  fun _ => match co with CoStr s => tzoff s | _ => fun _ => 0 end.

(* (1b) cron branch: generated code = Cron.cron_delay *)
Theorem get_task_delay_cron_src : forall tzoff now e co tm,
  get_task_delay tzoff now (mkST (Some e) co tm) = cron_delay (zone_tbl tzoff co) e (off_of co) now.
Proof.
  intros tzoff now e co tm. unfold get_task_delay, cron_delay, cron_due, is_now. cbn [st_cron st_cron_offset].
  destruct co as [|s|d]; cbn [off_of zone_tbl shift].
  - unfold now_utc, a_wall; cbn [a_inst a_off]. reflexivity.
  - destruct (truthy_str s); cbn [shift];
      unfold a_astimezone, pytz_timezone, now_utc, a_wall; cbn [a_inst a_off]; reflexivity.
  - destruct (truthy_Z d) eqn:Ed; cbn [shift]; unfold a_add, now_utc, a_wall; cbn [a_inst a_off];
      rewrite ?Z.add_0_r; reflexivity.
Qed.

(* (2) C13 over the generated definition: due exactly in the minutes the expression matches, read on the clock
   selected by the offset; 0 when due and None otherwise *)
Theorem C13_due_iff_src : forall tzoff now e co tm, wf_expr e = true ->
  (get_task_delay tzoff now (mkST (Some e) co tm) = Some 0 <->
   Matches e (fields_of (floor_minute (now + shift (zone_tbl tzoff co) (off_of co) now)))) /\
  (get_task_delay tzoff now (mkST (Some e) co tm) = None <->
   ~ Matches e (fields_of (floor_minute (now + shift (zone_tbl tzoff co) (off_of co) now)))).
Proof.
  intros tzoff now e co tm Hwf. rewrite get_task_delay_cron_src. unfold cron_delay.
  pose proof (due_iff (zone_tbl tzoff co) e (off_of co) now Hwf) as H.
  destruct (cron_due (zone_tbl tzoff co) e (off_of co) now) eqn:E.
  - split; split; intro A; try reflexivity; try discriminate.
    + apply H; reflexivity.
    + exfalso; apply A, H; reflexivity.
  - split; split; intro A; try reflexivity; try discriminate.
    + apply H in A; discriminate.
    + intro M; apply H in M; discriminate.
Qed.

Theorem C13_seconds_irrelevant_src : forall tzoff now1 now2 e co tm,
  floor_minute (now1 + shift (zone_tbl tzoff co) (off_of co) now1) =
  floor_minute (now2 + shift (zone_tbl tzoff co) (off_of co) now2) ->
  get_task_delay tzoff now1 (mkST (Some e) co tm) = get_task_delay tzoff now2 (mkST (Some e) co tm).
Proof.
  intros. rewrite !get_task_delay_cron_src. unfold cron_delay.
  rewrite (seconds_irrelevant (zone_tbl tzoff co) e (off_of co) now1 now2) by assumption. reflexivity.
Qed.

Print Assumptions get_task_delay_cron_src.
Print Assumptions C13_due_iff_src.
Print Assumptions C13_seconds_irrelevant_src.
