(* Source tie for taskiq/cli/worker/process_manager.py (C17, C18) - the part shared by Src_procman_C17.v / _C18.v.

   `Gen_procman.*_py` are GENERATED from the repository's source text on every run (harness/pygal_procman.py on top of
   harness/pygal_m.py): ReloadAllAction.handle, ReloadOneAction.handle, ProcessManager.prepare_workers, and
   ProcessManager.start split into the statements before its `while True:` (start_init_py) and ONE iteration of that
   loop (start_iter_py), as programs of the state + writer + exception monad of PyPreludeProcMan.v.  This file is
   hand-written and committed; it is re-checked against the freshly generated definitions on every run of C17 / C18.

   Two levels.  coq/proofs/PyPreludeProcManProofs.v (independent of generated text) proves that HAND-WRITTEN monadic
   programs over the same primitives - tick_m, start_init_m, handle_prog, ... - are the model ProcMan.v.  Here: each
   generated function is, pointwise, the corresponding hand-written program.  The proofs name nothing of the generated
   text but the five definitions: both sides are evaluated symbolically, every loop of the generated text is rewritten
   into the hand-written loop (for_ext / while_ext: the side condition "the bodies agree" is proved the same way,
   recursively), calls of generated functions are rewritten by the theorems proved before, every stuck test is split.

   start_iter_src: for EVERY configuration, state and script of asynchronous events of the tick - the state after one
   iteration, its effect list and how it ended (goes on / returned None / returned -1 / ProcessLookupError escaped /
   loop fuel exhausted) are those of ProcMan.tick.  No hypothesis. *)
From Coq Require Import ZArith List Bool Arith Lia.
From TQ Require Import ProcMan ProcManInv PyPreludeProcMan PyPreludeProcManProofs PyPreludeProcManRun.
From Src Require Import Gen_procman.
Import ListNotations.

(* split on the first stuck scrutinee that is not itself a match (a negated test: on the test) *)
Ltac split_head :=
  match goal with
  | |- context [match ?x with _ => _ end] =>
    lazymatch x with
    | context [match _ with _ => _ end] => fail
    | negb ?y => destruct y eqn:?
    | _ => destruct x eqn:?
    end
  end.
Ltac has_match := lazymatch goal with |- context [match _ with _ => _ end] => idtac end.

(* a branch whose tests contradict each other (the two sides ask them in a different order) *)
Ltac tests_to_props :=
  repeat match goal with
         | H : (_ <? _)%Z = true |- _ => apply Z.ltb_lt in H
         | H : (_ <? _)%Z = false |- _ => apply Z.ltb_ge in H
         | H : (_ <=? _)%Z = true |- _ => apply Z.leb_le in H
         | H : (_ <=? _)%Z = false |- _ => apply Z.leb_gt in H
         | H : (_ >=? _)%Z = _ |- _ => rewrite Z.geb_leb in H
         | H : (_ >? _)%Z = _ |- _ => rewrite Z.gtb_ltb in H
         | H : (_ =? _)%Z = true |- _ => apply Z.eqb_eq in H
         | H : (_ =? _)%Z = false |- _ => apply Z.eqb_neq in H
         | H : (_ <? _) = true |- _ => apply Nat.ltb_lt in H
         | H : (_ <? _) = false |- _ => apply Nat.ltb_ge in H
         | H : (_ <=? _) = true |- _ => apply Nat.leb_le in H
         | H : (_ <=? _) = false |- _ => apply Nat.leb_gt in H
         | H : (_ =? _) = true |- _ => apply Nat.eqb_eq in H
         | H : (_ =? _) = false |- _ => apply Nat.eqb_neq in H
         end.
Ltac absurd_branch := solve [exfalso; tests_to_props; first [congruence | lia]].

Ltac known_step b :=
  lazymatch b with
  | put_one_step => idtac | shutdown_step => idtac | scan_step => idtac | spawn_step => idtac
  | drain_step _ => idtac
  end.
(* a loop of the generated text that has become reachable (all its arguments are closed terms) *)
Ltac reachable_unknown_loop :=
  match goal with
  | |- context [@for_ ?S0 ?R ?Y ?St ?l ?b ?s ?ms] => tryif known_step b then fail else idtac
  | |- context [@while_ ?S0 ?R ?St ?t ?b ?s ?ms] => tryif known_step b then fail else idtac
  end.

Ltac units := repeat match goal with u : unit |- _ => destruct u end.

(* calls of generated functions -> what they were proved to be (redefined below, as the theorems become available) *)
Ltac calls := fail.

(* evaluate both sides; a call of a generated function is replaced by what it was proved to be; a loop of the generated
   text that has become reachable must become a hand-written loop (or vanish, if its body does nothing) - if it cannot,
   give up at once; otherwise split on the first stuck test; no test left: the two sides must be equal.
   poll_pids: worker.pid read after an is_alive() poll is the pid read before it (pid_after_poll) *)
Ltac poll_pids :=
  repeat match goal with
         | H : is_alive (nth ?k (workers (deliver_np ?st ?ev)) dummy) = (?al, ?w) |- _ =>
             rewrite (pid_after_poll st ev k al w H)
         end.

Ltac crunch :=
  pm; poll_pids;
  first [ lazymatch goal with |- ?l = ?r => constr_eq l r; reflexivity end
        | tryif calls then crunch
          else tryif reachable_unknown_loop then (once loop_to_model; crunch)
          else tryif has_match then (once split_head; [> first [ crunch | absurd_branch ] .. ])
          else (rewrite ?app_nil_r; reflexivity) ]
with side X := intros; units; unfold X; crunch
with loop_to_model :=
  match goal with
  | |- context [@for_ ?S0 ?R ?Y ?St ?l ?b ?s ?ms] =>
      tryif known_step b then fail else
      first [ rewrite (@for_ext S0 R Y St b put_one_step) by side put_one_step
            | rewrite (@for_ext S0 R Y St b shutdown_step) by side shutdown_step
            | rewrite (@for_ext S0 R Y St b scan_step) by side scan_step
            | rewrite (@for_ext S0 R Y St b spawn_step) by side spawn_step
            | rewrite (@for_noop S0 R Y St b) by (intros; units; crunch) ]
  | c : cfg |- context [@while_ ?S0 ?R ?St ?t ?b ?s ?ms] =>
      tryif known_step b then fail else
      rewrite (@while_ext S0 R St t drain_cond b (drain_step c)); [ | solve [side drain_cond] | solve [side drain_step] ]
  end.

(* ---- ReloadAllAction.handle = the model's expansion of a reload-all (ProcMan.body, case ReloadAll) *)
Lemma reload_all_src_m : forall u n q ms, reload_all_handle_py u n q ms = reload_all_m n ms.
Proof.
  intros. rewrite <- reload_all_prog_spec. unfold reload_all_handle_py, reload_all_prog. crunch.
Qed.

Theorem reload_all_src : forall u n q st te,
  reload_all_handle_py u n q (mkPms st te) = (mkPms (enq st (map (fun i => ReloadOne i true) (seq 0 n))) te, [], Ok tt).
Proof. intros. rewrite reload_all_src_m. reflexivity. Qed.
Print Assumptions reload_all_src.

(* ---- ReloadOneAction.handle = ProcMan.handle_reload (state and effects) *)
Lemma handle_reload_src_m : forall r w a f ms, reload_one_handle_py r w a f ms = handle_m (ro_num r) ms.
Proof.
  intros. rewrite <- handle_prog_spec. unfold reload_one_handle_py, handle_prog. crunch.
Qed.

Theorem handle_reload_src : forall i b w a f st te,
  reload_one_handle_py (mkRone i b) w a f (mkPms st te) =
  (mkPms (fst (handle_reload i st)) te, snd (handle_reload i st), Ok tt).
Proof.
  intros. rewrite handle_reload_src_m. unfold handle_m. cbn [ro_num ms_st ms_te].
  destruct (handle_reload i st). reflexivity.
Qed.
Print Assumptions handle_reload_src.

(* ---- prepare_workers (from a manager without workers), and the statements of start() before its loop = ProcMan.init *)
Lemma prepare_workers_src_m : forall c ms, prepare_workers_py c ms = prepare_workers_m c ms.
Proof. intros. unfold prepare_workers_py, prepare_workers_m. crunch. Qed.

Theorem prepare_workers_src : forall c q r p0 te,
  prepare_workers_py c (mkPms (mkState [] q r p0) te) =
  (mkPms (mkState (workers (fst (init c p0))) q r (next_pid (fst (init c p0)))) te, snd (init c p0), Ok tt).
Proof. intros. rewrite prepare_workers_src_m. apply prepare_workers_m_spec. Qed.
Print Assumptions prepare_workers_src.

Ltac calls ::=
  lazymatch goal with
  | |- context [reload_all_handle_py ?u ?n ?q ?ms] => rewrite (reload_all_src_m u n q ms)
  | |- context [reload_one_handle_py ?r ?w ?a ?f ?ms] => rewrite (handle_reload_src_m r w a f ms)
  | |- context [prepare_workers_py ?c ?ms] => rewrite (prepare_workers_src_m c ms)
  end.

Lemma start_init_src_m : forall c ms, start_init_py c ms = start_init_m c ms.
Proof. intros. unfold start_init_py, start_init_m. crunch. Qed.

Theorem start_init_src : forall c r p0 te,
  start_init_py c (mkPms (mkState [] [] r p0) te) = (mkPms (fst (init c p0)) te, snd (init c p0), Ok tt).
Proof. intros. rewrite start_init_src_m. apply start_init_m_spec. Qed.
Print Assumptions start_init_src.

(* ---- one iteration of `while True:` *)
Lemma start_iter_src_m : forall c ms, start_iter_py c ms = tick_m c ms.
Proof. intros. unfold start_iter_py, tick_m. crunch. Qed.

(* ... = ProcMan.tick: same state, same outcome (exit_value is injective), and the model's effect list is the
   generated one followed by the pseudo effect EExit with which the model marks a return of start() *)
Theorem start_iter_src : forall c st te,
  exists te' e',
    start_iter_py c (mkPms st te) = (mkPms (fst (fst (tick c st te))) te', e', exit_value (snd (tick c st te))) /\
    snd (fst (tick c st te)) = e' ++ exit_eff (snd (tick c st te)).
Proof. intros. rewrite start_iter_src_m. apply tick_m_spec. Qed.
Print Assumptions start_iter_src.

(* the same, read from the generated side *)
Theorem start_iter_src_inv : forall c st te ms' e o,
  start_iter_py c (mkPms st te) = (ms', e, o) ->
  exists om, tick c st te = (ms_st ms', e ++ exit_eff om, om) /\ o = exit_value om.
Proof. exact (iter_spec start_iter_py start_iter_src_m). Qed.
Print Assumptions start_iter_src_inv.

(* runs of the generated prologue + generated iteration over a history of ticks (PyPreludeProcManRun.v) *)
Definition run_py := run_py start_iter_py start_init_py.

Theorem run_src : forall c p0 hist l' o' s,
  run_py c p0 hist = (l', o', s) ->
  exists l o, run c p0 hist = (l, o, s) /\ o' = exit_value o /\ concat l = concat l' ++ exit_eff o /\ (o = Cont -> l = l').
Proof. exact (run_py_spec start_iter_py start_init_py start_iter_src_m start_init_src_m). Qed.
Print Assumptions run_src.
