(* Source tie for taskiq/receiver/receiver.py, Receiver.callback (C02, C07, C10) - the part shared by the three
   property files Src_callback_C02.v / _C07.v / _C10.v.

   `Gen_callback.callback_py` is GENERATED from the repository's source text on every run (harness/pygal_m.py with the
   primitives of harness/pygal_callback.py): the body of the `async def` is translated statement by statement into the
   statement monad of PyPreludePipeline.v (Pipeline.v's writer + exception monad plus `Return`), its primitives
   (formatter.loads, find_task, the middleware hooks, message.ack, run_task, set_result, ...) have the meaning given
   there.  This file is hand-written and committed; it is re-checked against the freshly generated definition on every
   run of the C02 / C07 / C10 checks.

   callback_src: the generated function, run on the receiver / message / raise_err flag described by a configuration
   c, IS the hand-written model Pipeline.callback_m c - for EVERY configuration: any stack length, any override mask,
   any hook behaviour (raising ones included), malformed / unknown messages, raise_err, finding D10's region.  No
   hypothesis.

   The proof names nothing of the generated text but the definition itself: it evaluates both sides symbolically -
   every `for_` loop that becomes reachable is rewritten into the model's hook loop (for_msg_hook / for_res_hook: one
   induction over the stack per loop shape, in proofs/PyPreludePipelineProofs.v; the side condition "the loop body is one
   iteration of that hook loop" is decided by computation), the outcome of every hook loop / of run_task is split
   into its cases, every other stuck test is split, and the two sides must then be the same event list and outcome. *)
From Coq Require Import List Arith Bool ZArith.
From TQ Require Import Base Pipeline PyPreludePipeline PyPreludePipelineProofs.
From Src Require Import Gen_callback.
Import ListNotations.

(* one loop of the generated text -> the model's hook loop (the side condition - the loop body is one iteration of
   that hook loop - is decided by computation on the three cases of a hook slot) *)
Ltac body_is_step :=
  intros ? ? ?; unfold msg_step, res_step, differs_from_base, class_pre_execute, class_post_execute, class_post_save,
    call_pre_execute, call_post_execute, call_post_save, call_res_hook; cbn [fst snd];
  match goal with |- context [match ?s ?w with _ => _ end] => destruct (s w) as [?f|] end;
  [match goal with |- context [match ?f ?a with _ => _ end] => destruct (f a) end|]; reflexivity.

Ltac loop_to_model :=
  match goal with
  | |- context [for_ (indexed_from _ _) _ _] =>
    first [ rewrite (for_msg_hook HPreExec h_pre_exec) by body_is_step
          | erewrite (for_res_hook HPostExec h_post_exec None) by body_is_step
          | erewrite (for_res_hook HPostSave h_post_save None) by body_is_step ]
  end.

(* split on the first stuck scrutinee that is not itself a match *)
Ltac split_head :=
  match goal with
  | |- context [match ?x with _ => _ end] =>
    lazymatch x with
    | context [match _ with _ => _ end] => fail
    | _ => destruct x eqn:?
    end
  end.

(* split on the outcome of a hook loop / of run_task whose arguments are known *)
Ltac split_on X := first [ match goal with H : X = _ |- _ => rewrite H end
                         | let o := fresh "o" in destruct X as [? o] eqn:?; destruct o ].
Ltac split_call :=
  match goal with
  | |- context [msg_hook_loop ?k ?s ?i ?st ?m] => split_on (msg_hook_loop k s i st m)
  | |- context [res_hook_loop ?k ?s ?x ?i ?st ?m ?r] => split_on (res_hook_loop k s x i st m r)
  | |- context [run_task ?c ?m] => split_on (run_task c m)
  end.

Ltac exc_of_loops :=
  repeat match goal with
         | H : msg_hook_loop _ _ _ _ _ = (_, Exc ?x) |- _ => is_var x; pose proof (msg_loop_exc _ _ _ _ _ _ _ H); subst x
         | H : res_hook_loop _ _ _ _ _ _ _ = (_, Exc ?x) |- _ => is_var x; pose proof (res_loop_exc _ _ _ _ _ _ _ _ _ H); subst x
         end.

Ltac simp :=
  cbn [run_fn sbind bind lift next return_ raise_ ret raise emit emits try_else is_exception catch
       pm_ackable app fst snd negb andb orb].

Ltac finish_eq := repeat rewrite app_nil_r; repeat rewrite <- app_assoc; cbn [app]; reflexivity.

Theorem callback_src : forall c, callback_py c (message_of c) (c_raise_err c) = callback_m c.
Proof.
  intros c. unfold callback_py, callback_m, message_of, middlewares.
  unfold formatter_loads, parse_labels, find_task, message_ack, self_run_task, set_result, mark_noresult,
    exc_is_noresult, ack_site, save_block, is_nores, when, acktype_eqb, try_except.
  repeat (simp; exc_of_loops; first [loop_to_model | split_call | split_head]).
  all: simp; finish_eq.
Qed.
Print Assumptions callback_src.

(* the run of the generated function on one message, closed by the end mark as Pipeline.callback closes callback_m *)
Definition callback_gen (c : pcfg) : list eff :=
  finish (callback_py c (message_of c) (c_raise_err c)) (fun _ => FDone).

Theorem callback_gen_src : forall c, callback_gen c = callback c.
Proof. intros c. unfold callback_gen, callback. rewrite callback_src. reflexivity. Qed.
Print Assumptions callback_gen_src.
