(* Source tie for taskiq/cli/worker/process_manager.py, property C18 (failure budget, reload-all, shutdown): the
   statements of coq/props/C18.v over runs of the definitions GENERATED from the current source text of
   ProcessManager.start (see Src_procman_C17.v for `run_py`; outcomes: Ok None = still looping, Ok (Some None) =
   start() returned None, Ok (Some (Some (-1))) = returned -1, Exc x = an exception left start()).  The generated
   effect lists carry no EExit (the model's mark for a return): after_shutdown's suffix is the Kills alone.
   Hand-written, committed, re-checked against the freshly generated Gen_procman.v on every run of ./check C18. *)
From Coq Require Import ZArith List Bool Arith Lia.
From TQ Require Import ProcMan ProcManInv ProcManC18 PyPreludeProcMan PyPreludeProcManProofs PyPreludeProcManRun.
From Src Require Import Gen_procman Src_procman_common.
Import ListNotations.

(* no exception leaves start(): no ProcessLookupError, the fuel of the drain loop suffices, nothing without a reading *)
Theorem C18_total_src : forall c p0 hist l o s,
  1 <= p0 -> run_py c p0 hist = (l, o, s) -> forall x, o <> Exc x.
Proof. exact (gen_C18_total _ _ start_iter_src_m start_init_src_m). Qed.
Print Assumptions C18_total_src.

(* -1 exactly when the number of handled failure reloads reaches max_fails >= 1 *)
Theorem C18_fail_exit_iff_src : forall c p0 hist l o s,
  run_py c p0 hist = (l, o, s) ->
  (o = Ok (Some (Some (-1)%Z)) <->
   (1 <= max_fails c)%Z /\ Z.of_nat (count is_fail_got (concat l)) = max_fails c) /\
  (o <> Ok (Some (Some (-1)%Z)) -> (max_fails c < 1)%Z \/ (Z.of_nat (count is_fail_got (concat l)) < max_fails c)%Z).
Proof. exact (gen_C18_fail_exit_iff _ _ start_iter_src_m start_init_src_m). Qed.
Print Assumptions C18_fail_exit_iff_src.

(* an iteration that takes >= 1 ReloadAll starts every slot exactly once (at most once if it exits) *)
Theorem C18_reload_all_once_src : forall c p0 hist l s te ms' effs o',
  1 <= p0 -> run_py c p0 hist = (l, Ok None, s) -> start_iter_py c (mkPms s te) = (ms', effs, o') ->
  existsb is_got_all effs = true ->
  forall slot, slot < nworkers c ->
    (o' = Ok None -> count (is_start_of slot) effs = 1) /\ count (is_start_of slot) effs <= 1.
Proof. exact (gen_C18_reload_all_once _ _ start_iter_src_m start_init_src_m). Qed.
Print Assumptions C18_reload_all_once_src.

(* the budget counter moves only by the failure reloads taken *)
Theorem C18_reload_all_budget_free_src : forall c p0 hist l s te ms' effs o',
  run_py c p0 hist = (l, Ok None, s) -> start_iter_py c (mkPms s te) = (ms', effs, o') ->
  restarts (ms_st ms') = (restarts s + (if (1 <=? max_fails c)%Z then Z.of_nat (count is_fail_got effs) else 0))%Z.
Proof. exact (gen_C18_reload_all_budget_free _ _ start_iter_src_m start_init_src_m). Qed.
Print Assumptions C18_reload_all_budget_free_src.

(* the iteration that takes Shutdown: afterwards one Kill per element of js and start() returns None; js is
   duplicate-free, every signalled process is a current worker that is not reaped, every worker still live was signalled *)
Theorem C18_shutdown_clean_src : forall c p0 hist l s te ms' effs o' suf,
  1 <= p0 -> run_py c p0 hist = (l, Ok None, s) -> start_iter_py c (mkPms s te) = (ms', effs, o') ->
  after_shutdown effs = Some suf ->
  o' = Ok (Some None) /\
  exists js, suf = map (fun j => Kill (pid (nth j (workers (ms_st ms')) dummy))) js /\
    NoDup js /\
    (forall j, In j js -> j < nworkers c /\ pst (nth j (workers (ms_st ms')) dummy) <> Reaped) /\
    (forall j, j < nworkers c -> pst (nth j (workers (ms_st ms')) dummy) = Live -> In j js).
Proof. exact (gen_C18_shutdown_clean _ _ start_iter_src_m start_init_src_m). Qed.
Print Assumptions C18_shutdown_clean_src.

Theorem C18_pids_distinct_src : forall c p0 hist l o s,
  1 <= p0 -> run_py c p0 hist = (l, o, s) ->
  NoDup (map pid (workers s)) /\ Forall (fun p => 1 <= p < next_pid s) (map pid (workers s)).
Proof. exact (gen_C18_pids_distinct _ _ start_iter_src_m start_init_src_m). Qed.
Print Assumptions C18_pids_distinct_src.

(* non-vacuity, by running the generated definitions *)
(* max_fails = 2: the second handled failure returns -1; a reload-all in between costs nothing *)
Example C18_fail_exit_nonvacuous_src :
  run_py (mkCfg 2 2) 100 [mkTE [Die 0] [] []; mkTE [Hup] [] []; mkTE [Die 1] [] []; mkTE [] [] []] =
  ([[Start 0 100; Start 1 101]; [];
    [Got (ReloadOne 0 false); Terminate 100; Join 100; Start 0 102; Got ReloadAll; Got (ReloadOne 0 true);
     Got (ReloadOne 1 true); Terminate 101; Join 101; Start 1 103];
    []; [Got (ReloadOne 1 false)]], Ok (Some (Some (-1)%Z)),
   mkState [mkProc 102 Live; mkProc 103 Reaped] [] 2 104).
Proof. vm_compute. reflexivity. Qed.

(* shutdown with one dead worker: only the live ones are signalled *)
Example C18_shutdown_nonvacuous_src :
  fst (run_py (mkCfg 3 (-1)) 100 [mkTE [Die 1; Term] [] []]) =
  ([[Start 0 100; Start 1 101; Start 2 102]; [Got Shutdown; Kill 100; Kill 102]], Ok (Some None)).
Proof. vm_compute. reflexivity. Qed.
