(* Source tie for taskiq/middlewares/retry_middleware.py, SimpleRetryMiddleware.on_error (C11).

   `Gen_retry.on_error` is GENERATED from the repository's source text on every run (harness/pygal.py with the
   primitives of harness/pygal_retry.py): the method is translated for its EFFECTS - the value is `None` when an
   exception leaves it (int() of a label that is not a number) and `Some` of the list of effects, in order,
   otherwise: EKiq kicker args kwargs (the awaited kicker.kiq call with the message args and kwargs) and ESetNoResult
   (result.error = NoResultError()).  This file is hand-written and committed; it is re-checked against the freshly
   generated definition on every run of the C11 check. *)
From Coq Require Import ZArith NArith List Bool String Lia.
From TQ Require Import Base64 Labels Retry PyPreludeRetry.
From Src Require Import Gen_retry.
Import ListNotations.
Open Scope Z_scope.

Definition cfg_of (s : rself) : cfg := mkCfg (rs_count s) (rs_label s) (rs_nror s).

(* the kicker of a re-send: same task name and id as the failed message, the message's own labels with the
   counter overwritten *)
Definition resend_kicker (s : rself) (m : rmsg) (r : Z) : rkicker :=
  mkRK (rm_name m) (rs_broker s) (Some (rm_tid m)) (dmerge (rm_labels m) [(K_RETRIES, LInt r)]).

Lemma str_true : pstr_of_string "true" = STR_true.
Proof. reflexivity. Qed.

(* (1) generated code = the model's decision, for every middleware configuration and every message *)
Theorem on_error_src : forall s m,
  on_error s m tt false =
  match decide (cfg_of s) (rm_labels m) with
  | DDisabled | DExhausted => Some []
  | DCrash => None
  | DResend r => Some (EKiq (resend_kicker s m r) (rm_args m) (rm_kwargs m)
                       :: if rs_nror s then [ESetNoResult] else [])
  end.
Proof.
  intros s m. unfold on_error, decide, retry_enabled, counter, max_retries, labels_get_default, is_true, cfg_of,
    resend_kicker, kicker_with_label, kicker_with_task_id, new_kicker.
  cbn [default_retry_count default_retry_label no_result_on_retry rk_name rk_broker rk_tid rk_labels].
  rewrite ?str_true.
  destruct (dget K_RETRIES (rm_labels m)) as [vr|] eqn:Er; destruct (dget K_MAXR (rm_labels m)) as [vm|] eqn:Em;
    cbn [py_int];
  repeat match goal with
         | |- context [match ?x with _ => _ end] =>
             match type of x with
             | option _ => destruct x eqn:?
             | lval => destruct x eqn:?
             | bool => destruct x eqn:?
             end
         end; cbn [negb app py_int] in *; try reflexivity; try congruence.
Qed.

(* (1') the no-result signal is never retried *)
Theorem on_error_noresult_src : forall s m, on_error s m tt true = Some [].
Proof. reflexivity. Qed.

(* (2) C11 over the generated definition: at most one re-send per failure; it happens exactly when retrying is
   enabled and _retries + 1 < max_retries; it carries the failed message's task name, id, args and its labels
   with only the counter changed; the result is replaced by the no-result signal iff no_result_on_retry *)
Theorem C11_resend_iff_src : forall s m r0 M,
  retry_enabled (cfg_of s) (rm_labels m) = true ->
  counter K_RETRIES (rm_labels m) = Some r0 -> max_retries (cfg_of s) (rm_labels m) = Some M ->
  on_error s m tt false =
    if r0 + 1 <? M
    then Some (EKiq (resend_kicker s m (r0 + 1)) (rm_args m) (rm_kwargs m) :: if rs_nror s then [ESetNoResult] else [])
    else Some [].
Proof.
  intros s m r0 M He Hc Hm. rewrite on_error_src. unfold decide. rewrite He, Hc, Hm. cbn [negb].
  destruct (r0 + 1 <? M); reflexivity.
Qed.

Theorem C11_disabled_src : forall s m,
  retry_enabled (cfg_of s) (rm_labels m) = false -> on_error s m tt false = Some [].
Proof. intros s m He. rewrite on_error_src. unfold decide. rewrite He. reflexivity. Qed.

Theorem C11_at_most_one_resend_src : forall s m x effs,
  on_error s m tt x = Some effs ->
  (List.length (filter (fun e => match e with EKiq _ _ _ => true | _ => false end) effs) <= 1)%nat.
Proof.
  intros s m [|] effs H.
  - rewrite on_error_noresult_src in H. injection H as <-. cbn. lia.
  - rewrite on_error_src in H. destruct (decide (cfg_of s) (rm_labels m)); try discriminate;
      injection H as <-; cbn; destruct (rs_nror s); cbn; lia.
Qed.

Print Assumptions on_error_src.
Print Assumptions on_error_noresult_src.
Print Assumptions C11_resend_iff_src.
Print Assumptions C11_disabled_src.
Print Assumptions C11_at_most_one_resend_src.
