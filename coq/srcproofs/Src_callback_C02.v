(* Source tie for Receiver.callback, property C02 (acknowledgement exactly once, never before the configured point).
   callback_src / callback_gen_src (Src_callback_common.v, re-checked on the same run) say that the function GENERATED
   from the repository's source text is the hand-written model; here the C02 theorems of coq/props/C02.v are re-stated
   over the generated definition.  Hand-written and committed; re-checked against the freshly generated Gen_callback.v
   on every run of the C02 check. *)
From Coq Require Import List Arith Bool ZArith.
From TQ Require Import Base BaseProofs Pipeline PipelineProofs PyPreludePipeline.
From Src Require Import Gen_callback Src_callback_common.
Import ListNotations.

(* the generated function is the model (restated here so that this file's obligations name it) *)
Theorem callback_src_C02 : forall c, callback_py c (message_of c) (c_raise_err c) = callback_m c.
Proof. exact callback_src. Qed.
Print Assumptions callback_src_C02.

(* every well-formed known-task message processed by the worker loop is acknowledged exactly once iff it is
   ackable, and the generated callback returns normally *)
Theorem C02_exactly_once_src : forall c, wf_recv c ->
  countb is_ack (callback_gen c) = (if c_ackable c then 1 else 0) /\ last (callback_gen c) (FCrash XHook) = FDone.
Proof. intros c W. rewrite callback_gen_src. apply ack_exactly_once. exact W. Qed.
Print Assumptions C02_exactly_once_src.

(* never twice - no hypothesis at all *)
Theorem C02_at_most_once_src : forall c, countb is_ack (callback_gen c) <= 1.
Proof. intros c. rewrite callback_gen_src. apply ack_at_most_once. Qed.
Print Assumptions C02_at_most_once_src.

(* at every prefix of the run of the generated callback (= every crash point): an ack in the prefix sits after the
   configured point; no hypothesis on the configuration *)
Theorem C02_not_before_src : forall c p, prefix p (callback_gen c) -> ack_not_before c p /\ countb is_ack p <= 1.
Proof. intros c p. rewrite callback_gen_src. apply ack_not_before_every_prefix. Qed.
Print Assumptions C02_not_before_src.
