(* Source tie for taskiq/kicker.py, AsyncKicker.kiq, property C10 (hooks fire in the documented order, once per
   message) - the send side.

   `Gen_kiq.kiq_py` is GENERATED from the repository's source text on every run (harness/pygal_m.py with the primitives
   of harness/pygal_kiq.py): the body of the `async def` is translated statement by statement into the statement monad
   of PyPreludePipeline.v; its primitives (self._prepare_message, the middlewares' pre_send / post_send, formatter.dumps,
   broker.kick, SendTaskError, AsyncTaskiqTask) have the meaning given in PyPreludeKiq.v.  This file is hand-written and
   committed; it is re-checked against the freshly generated definition on every run of the C10 check.

   kiq_src: the generated function, run on the kicker described by (st, m0, k) - the broker's middleware stack, the
   message _prepare_message builds, what dumps / kick do - IS the hand-written model Pipeline.kiq_m st m0 k, for EVERY
   stack (any length, any override mask, any hook behaviour, raising hooks included), message and kick outcome.
   No hypothesis.  Then C10's send-side theorems (coq/props/C10.v) are re-stated over the generated definition.

   The proof names nothing of the generated text but the definition itself: both sides are evaluated symbolically,
   every `for_` loop that becomes reachable is rewritten into the model's hook loop (for_msg_hook / for_unit_hook: one
   induction over the stack per loop shape, in proofs/; the side condition "the loop body is one iteration of that hook
   loop" is decided by computation), the outcome of each hook loop is split into (events, Ok v | Exc x), the kick
   outcome is split, and the two sides must then be the same event list and outcome. *)
From Coq Require Import List Arith Bool ZArith.
From TQ Require Import Base BaseProofs Pipeline PipelineProofs PipelineHooks PyPreludePipeline PyPreludePipelineProofs
  PyPreludeKiq PyPreludeKiqProofs.
From Src Require Import Gen_kiq.
Import ListNotations.

Ltac body_is_step :=
  intros ? ? ?; unfold msg_step, unit_step, differs_from_base, class_pre_send, class_post_send, call_pre_send,
    call_post_send; cbn [fst snd];
  match goal with |- context [match ?s ?w with _ => _ end] => destruct (s w) as [?f|] end;
  first [ reflexivity
        | match goal with |- context [match ?f ?a with _ => _ end] => tryif has_evar a then fail else destruct (f a) end;
          reflexivity ].

Ltac loop_to_model :=
  match goal with
  | |- context [for_ (indexed_from _ _) _ _] =>
    first [ rewrite (for_msg_hook HPreSend h_pre_send) by body_is_step
          | erewrite (for_unit_hook HPostSend h_post_send) by body_is_step ]
  end.

Ltac split_head :=
  match goal with
  | |- context [match ?x with _ => _ end] =>
    lazymatch x with
    | context [match _ with _ => _ end] => fail
    | _ => destruct x eqn:?
    end
  end.

Ltac split_on X := first [ match goal with H : X = _ |- _ => rewrite H end
                         | let o := fresh "o" in destruct X as [? o] eqn:?; destruct o ].
Ltac split_call :=
  match goal with
  | |- context [msg_hook_loop ?k ?s ?i ?st ?m] => split_on (msg_hook_loop k s i st m)
  | |- context [unit_hook_loop ?k ?s ?i ?st ?m] => split_on (unit_hook_loop k s i st m)
  end.

Ltac simp :=
  cbn [run_fn_ret sbind bind lift next return_v raise_ ret raise emit emits try_else is_exception catch
       k_stack k_msg0 k_kick app fst snd negb andb orb].

Ltac finish_eq := repeat rewrite app_nil_r; repeat rewrite <- app_assoc; cbn [app]; reflexivity.

Theorem kiq_src : forall st m0 k, kiq_py (mkkcfg st m0 k) tt tt = kiq_m st m0 k.
Proof.
  intros st m0 k. unfold kiq_py, kiq_m, kmiddlewares.
  unfold prepare_message, formatter_dumps, broker_kick, SendTaskError, AsyncTaskiqTask, task_id, try_except.
  repeat (simp; first [loop_to_model | split_call | split_head]).
  all: simp; finish_eq.
Qed.
Print Assumptions kiq_src.

(* the run of the generated function on one call, closed by the end mark as Pipeline.kiq closes kiq_m *)
Definition kiq_gen (st : list mw) (m0 : msg) (k : kickres) : list eff :=
  finish (kiq_py (mkkcfg st m0 k) tt tt) FSent.

Theorem kiq_gen_src : forall st m0 k, kiq_gen st m0 k = kiq st m0 k.
Proof. intros. unfold kiq_gen, kiq. rewrite kiq_src. reflexivity. Qed.
Print Assumptions kiq_gen_src.

(* send side, stacks of any length / any override mask / any (non-raising) hook functions: pre_send of every overriding
   middleware in registration order, each applied to its predecessor's output, then dumps + kick of the final message,
   then post_send of every overriding middleware with that message iff the kick succeeded, then the task handle with
   its id; a failing dumps / kick yields SendTaskError and no post_send *)
Theorem C10_send_order_src : forall st m0 k, total_hook h_pre_send st -> total_post_send st ->
  kiq_gen st m0 k =
  pre_send_events st m0 ++
  match k with
  | KickOk => [FDumps (sent_msg st m0); FKick (sent_msg st m0)] ++ post_send_events st m0 ++ [FSent (m_id (sent_msg st m0))]
  | KickFail => [FDumps (sent_msg st m0); FKick (sent_msg st m0); FCrash XSend]
  | DumpsFail => [FDumps (sent_msg st m0); FCrash XSend]
  end.
Proof. intros st m0 k T1 T2. rewrite kiq_gen_src. apply kiq_order; assumption. Qed.
Print Assumptions C10_send_order_src.

Theorem C10_send_failed_src : forall st m0 k, total_hook h_pre_send st -> total_post_send st -> k <> KickOk ->
  hook_indices HPostSend (kiq_gen st m0 k) = [] /\ last (kiq_gen st m0 k) FDone = FCrash XSend /\
  countb (fun e => match e with FSent _ => true | _ => false end) (kiq_gen st m0 k) = 0.
Proof. intros st m0 k T1 T2 Hk. rewrite kiq_gen_src. apply kiq_failed_send; assumption. Qed.
Print Assumptions C10_send_failed_src.

Theorem C10_send_once_src : forall st m0, total_hook h_pre_send st -> total_post_send st ->
  hook_indices HPreSend (kiq_gen st m0 KickOk) = overridden h_pre_send 0 st /\
  hook_indices HPostSend (kiq_gen st m0 KickOk) = overridden h_post_send 0 st.
Proof. intros st m0 T1 T2. rewrite kiq_gen_src. apply kiq_hooks_once; assumption. Qed.
Print Assumptions C10_send_once_src.
