(* Source tie for Receiver.callback, property C10 (hooks fire in the documented order, once per message) - the
   execution side.  The C10 theorems of coq/props/C10.v that are about the callback, re-stated over the function
   GENERATED from the repository's source text (see Src_callback_common.v).  Hand-written and committed; re-checked
   against the freshly generated Gen_callback.v on every run of the C10 check.  (The send side, AsyncKicker.kiq, is not
   part of this translation unit; on_error hooks fire inside run_task, a primitive here.) *)
From Coq Require Import List Arith Bool ZArith.
From TQ Require Import Base BaseProofs Pipeline PipelineProofs PipelineHooks PyPreludePipeline.
From Src Require Import Gen_callback Src_callback_common.
Import ListNotations.

Theorem callback_src_C10 : forall c, callback_py c (message_of c) (c_raise_err c) = callback_m c.
Proof. exact callback_src. Qed.
Print Assumptions callback_src_C10.

(* the whole run of the generated callback, explicitly - nothing else happens *)
Theorem C10_exec_explicit_src : forall c, wf_strict c ->
  callback_gen c =
    ev_pre c ++ acks c AckReceived ++
    (FExecBegin :: fst (try_block c (run_msg c)) ++ FExecEnd :: ev_dep_close c ++ ev_on_error c) ++
    acks c AckExecuted ++ ev_post_exec c ++ ev_save c ++ acks c AckSaved ++ [FDone].
Proof. intros c W. rewrite callback_gen_src. apply callback_explicit. exact W. Qed.
Print Assumptions C10_exec_explicit_src.

(* order: every run of the generated callback (ANY configuration, raising hooks included) is sorted by phase *)
Theorem C10_exec_order_src : forall c p1 x p2 y,
  callback_gen c = p1 ++ x :: p2 -> In y p1 -> phase (c_ack c) y <= phase (c_ack c) x.
Proof.
  intros c p1 x p2 y E H. rewrite callback_gen_src in E.
  eapply bs_order; [apply callback_sorted|exact E|exact H].
Qed.
Print Assumptions C10_exec_order_src.

(* once: every overridden hook of every middleware exactly once, in registration order, non-overridden never;
   post_save iff a result was stored *)
Theorem C10_once_src : forall c, wf_strict c ->
  hook_indices HPreExec (callback_gen c) = overridden h_pre_exec 0 (c_stack c) /\
  hook_indices HOnError (callback_gen c) = (if is_raise (found c) then overridden h_on_error 0 (c_stack c) else []) /\
  hook_indices HPostExec (callback_gen c) = overridden h_post_exec 0 (c_stack c) /\
  hook_indices HPostSave (callback_gen c) =
    (if negb (is_nores (res2 c)) && c_save_ok c then overridden h_post_save 0 (c_stack c) else []) /\
  hook_indices HPreSend (callback_gen c) = [] /\ hook_indices HPostSend (callback_gen c) = [].
Proof. intros c W. rewrite callback_gen_src. apply callback_hooks. exact W. Qed.
Print Assumptions C10_once_src.
