(* Source tie for taskiq/receiver/receiver.py, Receiver.run_task - the whole function - property C12 (dependencies are
   torn down exactly once, before the result becomes visible).

   `Gen_run_task_deps.run_task_py` is GENERATED from the repository's source text on every run (harness/pygal_m.py with
   the primitives of harness/pygal_run_task.py - the same translation as Gen_run_task.v of property C07, read over
   another alphabet): the body of the `async def` is translated statement by statement into the statement monad of
   PyStm.v; its primitives have the meaning given in PyPreludeRunTaskDeps.v (dependency_graph.async_ctx = FBegin,
   resolve_kwargs = the dependencies of the context tree opened in order, then possibly the failure; `await
   target_future` = the body observed entering and ending; dep_ctx.close( *args ) = taskiq_dependencies' teardown
   Deps.close_ctx with `args carries an exception` as the flag; on_error of the recording middleware).  This file is
   hand-written and committed; it is re-checked against the freshly generated definition on every run of the C12 check.

   run_task_src: the generated function, run in the execution a record w describes, has EXACTLY the effects
   Deps.run_task_effs gives that execution - and returns normally, with the TaskiqResult - for EVERY configuration
   (both propagate settings, with / without middleware), every context tree, failing / succeeding resolution, every
   way the body can end (return, Exception, BaseException, timeout, NoResultError), sync / async functions, any timeout
   label, whatever known_tasks / validate_params say.  No hypothesis.  Then C12's statements are re-stated over the
   generated function: directly over its own effect list (exactly once; every close after the function / the failing
   dependency finished and before run_task returns; the exception is handed to close iff propagate_exceptions and
   something was raised) and - as in coq/props/C12.v - over the callback's effect list with the generated run_task
   in the middle.

   The proofs name nothing of the generated text but the definition itself: both sides are evaluated symbolically,
   every stuck test is split, and the two sides must then be the same event list and outcome. *)
From Coq Require Import List Arith Bool ZArith Permutation.
From TQ Require Import Deps DepsProofs PyStm PyStmProofs PyPreludeRunTaskDeps.
From Src Require Import Gen_run_task_deps.
Import ListNotations.

(* the receiver, the task function and the message of the execution w *)
Definition run_task_gen (w : dworld) : RM rt_res := run_task_py w w w.
(* the TaskiqResult of the execution: is_err = `error is not None` = an exception was found *)
Definition result_of (w : dworld) : rt_res :=
  mkdres (found_exception (resolution_of w)) (found_exception (resolution_of w)).

(* split on the first stuck scrutinee that is not itself a match and not a run of the monad *)
Ltac split_head :=
  match goal with
  | |- context [match ?x with _ => _ end] =>
    lazymatch x with
    | context [match _ with _ => _ end] => fail
    | context [@sbind] => fail
    | context [@bind] => fail
    | context [@lift] => fail
    | context [@for_] => fail
    | _ => destruct x eqn:?
    end
  end.
Ltac unfold_prims :=
  unfold run_task_gen, run_task_py,
    get_running_loop, task_name, known_tasks, name_in, validate_params, task_signatures, task_hints, dependency_graphs,
    broker_of, executor_of, propagate_exceptions, prepared_handlers, handlers_get, func_object, original_func_or_self,
    object_is, prepare_task, signatures_get, hints_get, hints_or_empty, graphs_get,
    parse_params, custom_dependency_context, broker_state, dependency_overrides, overrides_or_none, Context,
    context_entries, bctx_update, bctx_copy, async_ctx, clock_start, clock_elapsed, round2, empty_kwargs, msg_args,
    msg_kwargs, kwargs_update, resolve_kwargs, iscoroutinefunction, call_coroutine_function, run_sync_helper,
    run_in_executor, wait_for, msg_labels, labels_get_timeout, float_of_label, label_or_zero, number_truthy,
    opened_dependencies, list_truthy, await_future, emits,
    no_exc_info, exc_info, dep_close, TaskiqResult, middlewares, class_on_error, differs_from_base, call_on_error,
    obj_truthy, is_not_none, try_except_on, PyPreludeRunTaskDeps.try_except, PyPreludeRunTaskDeps.try_else.
Ltac unfold_model :=
  unfold result_of, run_task_effs, close_effs, resolution_of.
Ltac simp :=
  cbn [run_fn_ret sbind bind lift next return_v raise_ ret raise emit emits try_else_on for_ fut_func has_exc
       is_NoResultError is_BaseException is_exception found_exception
       dw_cf dw_tree dw_resolve_ok dw_body dw_async dw_timeout dw_known dw_validate dw_prepared dw_obj dw_original dc_world dc_pe is_CancelledError
       propagate ack ackable has_mw save_ok
       app fst snd negb andb orb].
Ltac finish_eq := repeat rewrite app_nil_r; repeat rewrite <- app_assoc; cbn [app]; reflexivity.
Ltac run_both :=
  repeat (simp; first [rewrite orb_true_r | rewrite if_same | split_head]);
  simp; finish_eq.

Theorem run_task_src : forall w,
  run_task_gen w = (run_task_effs (dw_cf w) (dw_tree w) (resolution_of w), Ok (result_of w)).
Proof.
  intros [[prop ak akb mw sv] tree ok body async tmo known validate prepared obj orig].
  unfold_prims. unfold_model. run_both.
Qed.
Print Assumptions run_task_src.

(* run_task returns - the TaskiqResult - in every execution: all its effects precede the return to callback *)
Theorem run_task_returns_src : forall w, snd (run_task_gen w) = Ok (result_of w).
Proof. intros w. rewrite run_task_src. reflexivity. Qed.
Print Assumptions run_task_returns_src.

(* ---------------------------------------------------------------------------------- C12 over run_task's own effects *)
(* Deps.v states C12 over callback_effs (run_task's effects between the acknowledgements and the save).  With a message
   that cannot be acknowledged the callback's effects are run_task's followed by the save: *)
Definition quiet (cf : cfg) : cfg :=
  {| propagate := propagate cf; ack := ack cf; ackable := false; has_mw := has_mw cf; save_ok := save_ok cf |}.
Lemma callback_quiet : forall cf c r, callback_effs (quiet cf) c r = run_task_effs cf c r ++ save_effs cf r.
Proof.
  intros cf c r. unfold callback_effs, ack_at, quiet, run_task_effs, close_effs, save_effs.
  cbn [ackable propagate has_mw save_ok andb app]. rewrite app_nil_r. reflexivity.
Qed.
Lemma save_no_ids : forall cf r, opened_ids (save_effs cf r) = [] /\ closed_ids (save_effs cf r) = [].
Proof. intros cf r. unfold save_effs. destruct (no_result r); [|destruct (save_ok cf)]; split; reflexivity. Qed.

(* every dependency the execution opened is finalised exactly once by the time run_task returns *)
Theorem C12_run_task_exactly_once_src : forall w,
  Permutation (opened_ids (fst (run_task_gen w))) (closed_ids (fst (run_task_gen w))).
Proof.
  intros w. rewrite run_task_src. cbn [fst].
  pose proof (exactly_once_callback (quiet (dw_cf w)) (dw_tree w) (resolution_of w)) as P.
  rewrite callback_quiet, opened_ids_app, closed_ids_app in P.
  destruct (save_no_ids (dw_cf w) (resolution_of w)) as [S1 S2]. rewrite S1, S2, !app_nil_r in P. exact P.
Qed.
Print Assumptions C12_run_task_exactly_once_src.

(* every finaliser runs after the task function (or the failing dependency) finished, and nothing that makes the
   result visible (save, acknowledgement after execution) happens inside run_task before it *)
Theorem C12_run_task_close_after_finish_src : forall w l1 x l2,
  fst (run_task_gen w) = l1 ++ x :: l2 -> is_close x = true ->
  (forall y, In y l1 -> is_visible y = false) /\ (exists y, In y l1 /\ is_finish y = true).
Proof.
  intros w l1 x l2 E Hx. rewrite run_task_src in E. cbn [fst] in E.
  apply (before_visible_one (quiet (dw_cf w)) (dw_tree w) (resolution_of w) l1 x
                            (l2 ++ save_effs (dw_cf w) (resolution_of w))); [|exact Hx].
  rewrite callback_quiet, E, <- app_assoc. reflexivity.
Qed.
Print Assumptions C12_run_task_close_after_finish_src.

(* the exception is handed to a finaliser iff propagate_exceptions is set and the execution raised (the function, a
   timeout, NoResultError, or a dependency while being opened) *)
Theorem C12_run_task_propagation_src : forall w d s,
  In (FClose d s) (fst (run_task_gen w)) -> s = found_exception (resolution_of w) && propagate (dw_cf w).
Proof.
  intros w d s H. rewrite run_task_src in H. cbn [fst] in H.
  apply (propagation_callback (quiet (dw_cf w)) (dw_tree w) (resolution_of w) d s).
  rewrite callback_quiet. apply in_or_app. left. exact H.
Qed.
Print Assumptions C12_run_task_propagation_src.

(* ---------------------------------------------------------------------------------- C12 as stated in coq/props/C12.v *)
(* the callback's effects around the GENERATED run_task: acknowledgement sites and the save as in Deps.callback_effs *)
Definition callback_effs_gen (w : dworld) : list eff :=
  ack_at (dw_cf w) AReceived ++ fst (run_task_gen w) ++ ack_at (dw_cf w) AExecuted ++
  save_effs (dw_cf w) (resolution_of w) ++ ack_at (dw_cf w) ASaved.

Theorem callback_effs_gen_src : forall w,
  callback_effs_gen w = callback_effs (dw_cf w) (dw_tree w) (resolution_of w).
Proof. intros w. unfold callback_effs_gen. rewrite run_task_src. reflexivity. Qed.
Print Assumptions callback_effs_gen_src.

Theorem C12_exactly_once_execution_src : forall w,
  Permutation (opened_ids (callback_effs_gen w)) (closed_ids (callback_effs_gen w)).
Proof. intros w. rewrite callback_effs_gen_src. apply exactly_once_callback. Qed.
Print Assumptions C12_exactly_once_execution_src.

Theorem C12_before_visible_src : forall w l1 x l2,
  callback_effs_gen w = l1 ++ x :: l2 -> is_close x = true ->
  (forall y, In y l1 -> is_visible y = false) /\ (exists y, In y l1 /\ is_finish y = true).
Proof. intros w l1 x l2 E Hx. rewrite callback_effs_gen_src in E. eapply before_visible_one; eassumption. Qed.
Print Assumptions C12_before_visible_src.

Theorem C12_propagation_src : forall w d s,
  In (FClose d s) (callback_effs_gen w) -> s = found_exception (resolution_of w) && propagate (dw_cf w).
Proof. intros w d s H. rewrite callback_effs_gen_src in H. eapply propagation_callback; eassumption. Qed.
Print Assumptions C12_propagation_src.

(* the Boolean form the check evaluates on implementation observations holds on every execution of the generated text *)
Theorem C12_check_src : forall w, NoDup (open_order (dw_tree w)) ->
  C12_check (dw_cf w) (dw_tree w) (resolution_of w) (callback_effs_gen w) = true.
Proof. intros w N. rewrite callback_effs_gen_src. apply check_model. exact N. Qed.
Print Assumptions C12_check_src.
