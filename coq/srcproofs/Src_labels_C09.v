(* Source tie for taskiq/labels.py (LabelType, _LABEL_PARSERS, prepare_label, parse_label) and taskiq/message.py
   TaskiqMessage.parse_labels, property C09 (labels keep value and type end to end).

   `Gen_labels` is GENERATED from the repository's source text on every run (harness/pygal_labels.py on top of
   harness/pygal.py / pygal_m.py): the enum's member list and the parser table are read from the class body / the dict
   display, the three functions are translated statement by statement; their primitives have the meaning given in
   coq/theories/PyPreludeLabels.v.  This file is hand-written and committed; it is re-checked against the freshly
   generated definitions on every run of the C09 check.

   prepare_label_src / parse_label_src / parse_labels_src: the generated functions ARE the hand-written model's
   (Labels.prepare_label, Labels.parse_label, Labels.parse_labels) - for every label value, every wire string, every
   type number (the unknown ones included: both raise), every message - and for every `pyworld` W, i.e. whatever Python
   does outside the model (str of bytes, names of foreign types, int() of a non-str, ...).  Then C09's codec / wire
   theorems are re-stated over the generated functions.

   The proofs name nothing of the generated text but the five top-level definitions: case analysis and computation. *)
From Coq Require Import ZArith NArith List Bool String Lia.
From Coq.Strings Require Import Byte.
From TQ Require Import Base64 Base64Proofs Labels LabelsCodecProofs LabelsProofs PyStm PyPreludeLabels PyPreludeLabelsProofs.
From Src Require Import Gen_labels.
Import ListNotations.
Open Scope N_scope.

(* ---------------------------------------------------------------- prepare_label *)
(* never raises; its value is the model's, for every label value (the "other" objects included: str(v), ANY) *)
Theorem prepare_label_src : forall (W : pyworld) (v : lval),
  prepare_label_py W v = Some (Labels.prepare_label (w_sof W) v).
Proof.
  intros W v. unfold prepare_label_py.
  destruct v; cbn -[b64encode str_of_Z str_of_bool]; rewrite ?bytes_decode_b64; reflexivity.
Qed.
Print Assumptions prepare_label_src.

(* ---------------------------------------------------------------- parse_label *)
(* label_type = None: the value is handed back untouched *)
Theorem parse_label_untyped_src : forall (W : pyworld) (v : lval), parse_label_py W v None = Some v.
Proof. intros W v. reflexivity. Qed.
Print Assumptions parse_label_untyped_src.

(* both sides computed; where the generated text re-wraps a call that may raise (`match c with Some v => Some v | None =>
   None end`) the call's outcome is split *)
Ltac both_compute :=
  cbv -[pstr_eqb]; try rewrite (pstr_eqb_sym (_ :: _));      (* `"true" == s` is `s == "true"` *)
  repeat match goal with |- context [match ?x with Some _ => _ | None => _ end] => destruct x end; reflexivity.

(* I : v1 = t \/ v2 = t \/ ... \/ False, one disjunct per member of the generated enum *)
Ltac each_member I :=
  lazymatch type of I with
  | False => destruct I
  | _ \/ _ =>
      let J := fresh "J" in
      destruct I as [<-|J];
      [ first [ reflexivity | both_compute
              | lazymatch goal with |- ?G => fail 1 "for this member the generated parse_label is not the model's:" G end ]
      | each_member J ]
  end.

(* a wire string with a type number: the model's parse_label, for EVERY number (a number that is no LabelType raises) *)
Theorem parse_label_src : forall (W : pyworld) (s : pstr) (t : N),
  parse_label_py W (LStr s) (Some t) = Labels.parse_label (w_fos W) s t.
Proof.
  intros W s t.
  destruct (in_dec N.eq_dec t (map snd LabelType)) as [I|NI].
  - (* t is the value of a member: one case per member, both sides compute *)
    vm_compute in I. each_member I.
  - (* no member has this value: LabelType(t) raises / t is no key of the table; the model answers None as well *)
    assert (Hne : forall x, In x (map snd LabelType) -> (t =? x) = false).
    { intros x Hx. apply N.eqb_neq. intro Q. apply NI. rewrite Q. exact Hx. }
    unfold parse_label_py, Labels.parse_label.
    rewrite ?(enum_call_none _ _ NI).
    rewrite !Hne by (vm_compute; tauto).
    destruct (LABEL_PARSERS W) as [tbl|] eqn:T; [|reflexivity].
    first [ reflexivity
          | cbv in T; injection T as <-; unfold dict_contains, dict_getitem_call; cbn [dget];
            rewrite !Hne by (vm_compute; tauto); reflexivity ].
Qed.
Print Assumptions parse_label_src.

(* ---------------------------------------------------------------- TaskiqMessage.parse_labels *)
(* the message a worker builds from the wire form: every label value is the wire string *)
Definition msg_of_wire (w : wire) : tmsg :=
  mkTMsg (map (fun kv => (fst kv, LStr (snd kv))) (w_labels w)) (w_types w).
(* labels_types, when present, is a Python dict: its keys are pairwise different (Labels.dict, an association list,
   does not say so by itself) *)
Definition types_wf (w : wire) : Prop := match w_types w with Some ts => NoDup (keys ts) | None => True end.

Theorem parse_labels_src : forall (W : pyworld) (w : wire), types_wf w ->
  parse_labels_py W (msg_of_wire w)
  = match Labels.parse_labels (w_fos W) w with
    | Some L => ret (mkTMsg L (w_types w))       (* returns; the message now holds L *)
    | None => raise tt                           (* an exception leaves parse_labels *)
    end.
Proof.
  intros W [raw tys] WF. unfold parse_labels_py, msg_of_wire, Labels.parse_labels, types_wf in *.
  cbn [w_labels w_types tm_types tm_labels] in *.
  pose proof (parse_label_src W) as Hpl. revert Hpl. generalize (parse_label_py W). intros pl Hpl.
  destruct tys as [ts|]; [|reflexivity].
  unfold dict_items.
  match goal with |- context [for_ ts ?b _] => rewrite (for_parse_loop (w_fos W) pl Hpl b) with (raw := raw) end.
  - destruct (parse_loop (w_fos W) ts raw _); reflexivity.
  - (* the generated loop body is one iteration *)
    intros [k t] m. unfold parse_step, dict_contains, dict_getitem, dict_get. cbn [fst snd].
    destruct (dget k (tm_labels m)) as [x|] eqn:D; [|reflexivity].
    cbn. rewrite ?D. cbn. destruct (pl x (Some t)); reflexivity.
  - exact WF.
  - intros k _. apply dget_map_LStr.
Qed.
Print Assumptions parse_labels_src.

(* ---------------------------------------------------------------- C09's theorems over the generated functions *)
(* parse_label (prepare_label v) = v for the five primitive types (C09_codec), under CPython's float(str(f)) = f *)
Theorem C09_codec_src : forall (W : pyworld), (forall f, w_fos W (w_sof W f) = Some f) ->
  forall v, primitive v ->
    exists s t, prepare_label_py W v = Some (s, t) /\ parse_label_py W (LStr s) (Some t) = Some v.
Proof.
  intros W HF v P. exists (fst (Labels.prepare_label (w_sof W) v)), (snd (Labels.prepare_label (w_sof W) v)). split.
  - rewrite prepare_label_src. now rewrite <- surjective_pairing.
  - rewrite parse_label_src. now apply codec.
Qed.
Print Assumptions C09_codec_src.

(* the four float-free types need no hypothesis (C09_codec_nofloat) *)
Theorem C09_codec_nofloat_src : forall (W : pyworld) v,
  match v with LInt _ | LStr _ | LBool _ | LBytes _ => True | _ => False end ->
  exists s t, prepare_label_py W v = Some (s, t) /\ parse_label_py W (LStr s) (Some t) = Some v.
Proof.
  intros W v P. exists (fst (Labels.prepare_label (w_sof W) v)), (snd (Labels.prepare_label (w_sof W) v)). split.
  - rewrite prepare_label_src. now rewrite <- surjective_pairing.
  - rewrite parse_label_src.
    destruct v; try destruct P; cbn [Labels.prepare_label fst snd]; unfold Labels.parse_label; cbn.
    + now rewrite int_roundtrip.
    + reflexivity.
    + now rewrite bool_roundtrip.
    + now rewrite b64_roundtrip.
Qed.
Print Assumptions C09_codec_nofloat_src.

(* every other object travels as str(object) with type ANY and arrives as that str *)
Theorem C09_other_src : forall (W : pyworld) (s : pstr),
  prepare_label_py W (LOther s) = Some (s, T_ANY) /\ parse_label_py W (LStr s) (Some T_ANY) = Some (LStr s).
Proof. intros W s. split; [rewrite prepare_label_src|rewrite parse_label_src]; reflexivity. Qed.
Print Assumptions C09_other_src.

(* a whole label dict: the model's _prepare_message loop (Labels.prepare_labels - kicker.py is not part of this unit),
   then the GENERATED parse_labels on the message built from the wire form (C09_wire) *)
Theorem C09_wire_src : forall (W : pyworld), (forall f, w_fos W (w_sof W f) = Some f) ->
  forall d, NoDup (keys d) -> received d ->
    parse_labels_py W (msg_of_wire (prepare_labels (w_sof W) d))
    = ret (mkTMsg d (w_types (prepare_labels (w_sof W) d))).
Proof.
  intros W HF d ND RC. rewrite parse_labels_src.
  - rewrite (labels_roundtrip (w_sof W) (w_fos W) HF d ND). now rewrite norm_dict_received.
  - unfold types_wf, prepare_labels. cbn [w_types]. now rewrite keys_map_snd.
Qed.
Print Assumptions C09_wire_src.

(* non-vacuity: a wire with an unknown type number and one with a duplicate-free type dict *)
Example parse_labels_src_nonvacuous :
  let W := mkWorld (fun _ => []) (fun _ => None) (fun _ => []) (fun _ => EmptyString) (fun _ => None) (fun _ => None)
                   (fun _ _ => None) (fun _ => true) in
  parse_labels_py W (msg_of_wire (mkWire [(10, [52; 50]); (11, [84; 82; 85; 69]); (12, [120])] (Some [(11, 5); (10, 2); (13, 9)])))
  = ret (mkTMsg [(10, LInt 42%Z); (11, LBool true); (12, LStr [120])] (Some [(11, 5); (10, 2); (13, 9)]))
  /\ parse_labels_py W (msg_of_wire (mkWire [(10, [52; 50])] (Some [(10, 9)]))) = raise tt.
Proof. vm_compute. split; reflexivity. Qed.
