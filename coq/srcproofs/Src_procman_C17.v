(* Source tie for taskiq/cli/worker/process_manager.py, property C17 (one live worker per slot): the statements of
   coq/props/C17.v over runs of the definitions GENERATED from the current source text of ProcessManager.start -
   `run_py c p0 hist` = the generated prologue (start_init_py) from a freshly constructed manager with first free pid
   p0, then the generated loop iteration (start_iter_py) once per element of the history, until one returns or raises:
   (effects per iteration, how it ended - Ok None = still looping, Ok (Some r) = start() returned r, Exc x -, final state).
   Src_procman_common.v ties the generated definitions to the model; PyPreludeProcManRun.v carries C17.v's theorems over.
   Hand-written, committed, re-checked against the freshly generated Gen_procman.v on every run of ./check C17. *)
From Coq Require Import ZArith List Bool Arith Lia.
From TQ Require Import ProcMan ProcManInv ProcManC17 PyPreludeProcMan PyPreludeProcManProofs PyPreludeProcManRun.
From Src Require Import Gen_procman Src_procman_common.
Import ListNotations.

(* the number of slots never changes *)
Theorem C17_slots_constant_src : forall c p0 hist l o s,
  1 <= p0 -> run_py c p0 hist = (l, o, s) -> length (workers s) = nworkers c.
Proof. exact (gen_C17_slots_constant _ _ start_iter_src_m start_init_src_m). Qed.
Print Assumptions C17_slots_constant_src.

(* at every prefix of the effect trace every slot has at most one process started and not yet joined; every Start
   of a slot is immediately preceded by Terminate q; Join q of its previous occupant q *)
Theorem C17_one_live_per_slot_src : forall c p0 hist l o s,
  1 <= p0 -> run_py c p0 hist = (l, o, s) -> olps_check (concat l) = true /\ one_live_per_slot (concat l).
Proof. exact (gen_C17_one_live_per_slot _ _ start_iter_src_m start_init_src_m). Qed.
Print Assumptions C17_one_live_per_slot_src.

(* a reload pending in the queue when an iteration begins is served during that iteration, unless it exits *)
Theorem C17_replaced_next_tick_src : forall c p0 hist l s te ms' effs i b,
  1 <= p0 -> run_py c p0 hist = (l, Ok None, s) -> In (ReloadOne i b) (queue s) ->
  start_iter_py c (mkPms s te) = (ms', effs, Ok None) -> exists p, In (Start i p) effs.
Proof. exact (gen_C17_replaced_next_tick _ _ start_iter_src_m start_init_src_m). Qed.
Print Assumptions C17_replaced_next_tick_src.

(* a worker that is not Live when an iteration begins is, in that iteration, replaced or found dead by the scan *)
Theorem C17_scan_detects_src : forall c p0 hist l s te ms' effs i,
  1 <= p0 -> run_py c p0 hist = (l, Ok None, s) -> i < nworkers c -> pst (nth i (workers s) dummy) <> Live ->
  start_iter_py c (mkPms s te) = (ms', effs, Ok None) ->
  (exists p, In (Start i p) effs) \/ In (ReloadOne i false) (queue (ms_st ms')).
Proof. exact (gen_C17_scan_detects _ _ start_iter_src_m start_init_src_m). Qed.
Print Assumptions C17_scan_detects_src.

(* hence: replaced within the next two iterations, unless one of them exits *)
Theorem C17_replaced_within_two_src : forall c p0 hist l s te1 ms1 e1 te2 ms2 e2 i,
  1 <= p0 -> run_py c p0 hist = (l, Ok None, s) -> i < nworkers c -> pst (nth i (workers s) dummy) <> Live ->
  start_iter_py c (mkPms s te1) = (ms1, e1, Ok None) -> start_iter_py c (mkPms (ms_st ms1) te2) = (ms2, e2, Ok None) ->
  exists p, In (Start i p) (e1 ++ e2).
Proof. exact (gen_C17_replaced_within_two _ _ start_iter_src_m start_init_src_m). Qed.
Print Assumptions C17_replaced_within_two_src.

(* non-vacuity, by running the generated definitions: worker 1 dies during the first sleep - found dead by the first
   scan, replaced in the second iteration *)
Example C17_replaced_nonvacuous_src :
  fst (fst (run_py (mkCfg 2 (-1)) 100 [mkTE [Die 1] [] []; mkTE [] [] []])) =
  [[Start 0 100; Start 1 101]; []; [Got (ReloadOne 1 false); Terminate 101; Join 101; Start 1 102]].
Proof. vm_compute. reflexivity. Qed.
