(* Source tie for Receiver.callback, property C07 (the stored result reflects the outcome: one set_result per
   execution).  The C07 theorems of coq/props/C07.v that are about the callback, re-stated over the function GENERATED
   from the repository's source text (see Src_callback_common.v).  Hand-written and committed; re-checked against the
   freshly generated Gen_callback.v on every run of the C07 check.  run_task is a primitive of the translation (its
   meaning is Pipeline.run_task), so what run_task assembles (C07_result_reflects, C07_timeout) is not re-stated. *)
From Coq Require Import List Arith Bool ZArith.
From TQ Require Import Base BaseProofs Pipeline PipelineProofs PipelineHooks PyPreludePipeline.
From Src Require Import Gen_callback Src_callback_common.
Import ListNotations.

Theorem callback_src_C07 : forall c, callback_py c (message_of c) (c_raise_err c) = callback_m c.
Proof. exact callback_src. Qed.
Print Assumptions callback_src_C07.

(* exactly one set_result per execution of the generated callback - none iff the final result is the no-result
   signal - under the id of the message the function was run with, storing the result as left by the hooks *)
Theorem C07_one_save_src : forall c, wf_recv c ->
  countb is_savebegin (callback_gen c) = (if is_nores (res2 c) then 0 else 1) /\
  (forall i r, In (FSaveBegin i r) (callback_gen c) -> i = m_id (run_msg c) /\ r = res2 c).
Proof. intros c W. rewrite callback_gen_src. apply one_save. exact W. Qed.
Print Assumptions C07_one_save_src.

(* a failing backend: same run with FSaveOk replaced by FSaveErr and the post_save hooks removed; the message
   completes (when_saved ack, normal return) *)
Theorem C07_backend_isolated_src : forall c, wf_strict c -> is_nores (res2 c) = false ->
  exists A B,
    callback_gen (set_save_ok c true) = A ++ FSaveOk :: ev_post_save c ++ B /\
    callback_gen (set_save_ok c false) = A ++ FSaveErr :: B /\
    B = acks c AckSaved ++ [FDone].
Proof. intros c W N. rewrite !callback_gen_src. apply backend_isolated; assumption. Qed.
Print Assumptions C07_backend_isolated_src.

(* the generated callback completes for ANY backend result, raising post_save hooks included *)
Theorem C07_completes_src : forall c, wf_recv c -> last (callback_gen c) (FCrash XHook) = FDone.
Proof. intros c W. rewrite callback_gen_src. apply (ack_exactly_once c W). Qed.
Print Assumptions C07_completes_src.
