(* Source tie for taskiq/receiver/receiver.py, Receiver.run_task - the whole function - property C07 (the stored result
   reflects the outcome of the execution).

   `Gen_run_task.run_task_py` is GENERATED from the repository's source text on every run (harness/pygal_m.py with the
   primitives of harness/pygal_run_task.py): the body of the `async def` is translated statement by statement into the
   statement monad of PyStm.v; its primitives (the clock reads, dependency_graph.async_ctx, dep_ctx.resolve_kwargs,
   asyncio.iscoroutinefunction / wait_for / run_in_executor, `await target_future`, dep_ctx.close, TaskiqResult(...),
   the middlewares' on_error) have the meaning given in PyPreludeRunTask.v.  This file is hand-written and committed;
   it is re-checked against the freshly generated definition on every run of the C07 check.

   The hand-written model is Pipeline.run_task - the meaning the unit "callback" (Src_callback_*.v) gives to
   `await self.run_task(...)` inside Receiver.callback.  run_task_src_partial: the generated function, run on the
   receiver / task function / message a configuration c and a message m describe, IS Pipeline.run_task c m read as a
   run of the unit's monad (of_M: same effect list, same result; an exception of kind x that propagates is PipeExc x),
   for EVERY configuration (any middleware stack, any on_error hooks - raising ones included -, dependency plan,
   sync / async body, duration, timeout label, tie / race choices, both propagate settings) and whatever known_tasks /
   validate_params say - OUTSIDE the region of finding D10 (closes_coroutine c m: a sync function raising
   GeneratorExit).  There the model does not describe run_task as a function but what `await self.run_task(...)`
   does to callback (the coroutine is close()d: the model stops after the try block and raises XGenExit, the rest
   is abstracted); run_task_d10_src says what remains true there: the model's events are a prefix of the generated
   function's.  Hence `_partial`.

   The proofs name nothing of the generated text but the definition itself: both sides are evaluated symbolically, the
   `for_` loop that becomes reachable is rewritten into the model's hook loop (for_on_error, proofs/
   PyPreludeRunTaskProofs.v; the side condition "the body is one iteration" is decided by computation), every stuck
   test is split, and the two sides must then be the same event list and outcome. *)
From Coq Require Import List Arith Bool ZArith Lia.
From TQ Require Import Base BaseProofs Pipeline PipelineProofs PipelineHooks.
From TQ Require Import PyStm PyStmProofs PyPreludeRunTask PyPreludeRunTaskProofs.
From Src Require Import Gen_run_task.
Import ListNotations.

(* What the model does not look at and run_task only uses to decide whether to call _prepare_task (no event): the entry of
   self.prepared_handlers for the message's task name (the function object the per-name caches were built for, or no
   entry), which object `target` is, and the object its attribute original_func holds (if it has one).  ANY values: every
   theorem of this file is closed over the three at the end of the section, without a hypothesis about them. *)
Section AnyObjects.
Variable prepared : option nat.
Variable fobj : nat.
Variable forig : option nat.

(* the objects a configuration describes *)
Definition run_task_gen (c : pcfg) (known validate : bool) (m : msg) : RM res :=
  run_task_py (mkself c known validate prepared) (mkfunc c fobj forig) m.

(* the loop of the generated text -> the model's hook loop (side condition decided by computation on the cases of
   the hook slot) *)
Ltac body_is_step :=
  intros ? ? ?; unfold on_error_step, differs_from_base, class_on_error, call_on_error, of_M; cbn [fst snd];
  match goal with |- context [match ?s ?w with _ => _ end] => destruct (s w) as [?f|] end;
  [match goal with |- context [match ?f ?a with _ => _ end] => destruct (f a) end|]; reflexivity.
Ltac loop_to_model :=
  match goal with
  | |- context [for_ (indexed_from _ _) _ _] => erewrite for_on_error by body_is_step
  end.

(* split on the first stuck scrutinee that is not itself a match *)
Ltac split_head :=
  match goal with
  | |- context [match ?x with _ => _ end] =>
    lazymatch x with
    | context [match _ with _ => _ end] => fail
    | context [@sbind] => fail
    | context [@bind] => fail
    | context [@lift] => fail
    | context [@for_] => fail
    | context [res_hook_loop] => fail
    | context [body_part] => fail
    | _ => destruct x eqn:?
    end
  end.
(* split on the outcome of the hook loop / of the awaited body (the same outcome on both sides) *)
Ltac split_on X := first [ match goal with H : X = _ |- _ => rewrite H end
                         | let o := fresh "o" in destruct X as [? o] eqn:?; destruct o ].
Ltac split_call :=
  match goal with
  | |- context [res_hook_loop ?k ?s ?x ?i ?st ?m ?r] => split_on (res_hook_loop k s x i st m r)
  | |- context [body_part ?c ?m] => split_on (body_part c m)
  end.

(* `await target_future` for the awaitable the generated text built -> the model's body part *)
Ltac await_to_model :=
  match goal with
  | |- context [await_future _] =>
    first [ erewrite await_coro by eassumption | erewrite await_exec by eassumption
          | erewrite await_wait_coro by eassumption | erewrite await_wait_exec by eassumption ]
  end.

Ltac unfold_prims :=
  unfold run_task_gen, run_task_py,
    get_running_loop, task_name, known_tasks, name_in, validate_params, task_signatures, task_hints, dependency_graphs,
    broker_of, executor_of, propagate_exceptions, prepared_handlers, handlers_get, func_object, original_func_or_self,
    object_is, prepare_task, signatures_get, hints_get, hints_or_empty, graphs_get,
    parse_params, custom_dependency_context, broker_state, dependency_overrides, overrides_or_none, Context,
    context_entries, bctx_update, bctx_copy, async_ctx, clock_start, clock_elapsed, round2, empty_kwargs, msg_args,
    msg_kwargs, kwargs_update, resolve_kwargs, iscoroutinefunction, call_coroutine_function, run_sync_helper,
    run_in_executor, wait_for, msg_labels, labels_get_timeout, float_of_label, label_or_zero, number_truthy,
    opened_dependencies, list_truthy,
    no_exc_info, exc_info, dep_close, TaskiqResult, middlewares, obj_truthy, is_not_none,
    try_except_on, PyPreludeRunTask.try_except, PyPreludeRunTask.try_else.
Ltac unfold_model :=
  unfold of_M, run_body, raw_res, is_opened, is_raise, Pipeline.when, Pipeline.emits, Pipeline.emit, Pipeline.ret,
    Pipeline.raise.
Ltac simp :=
  cbn [run_fn_ret sbind bind lift next return_v raise_ ret raise emit try_else_on
       is_NoResultError is_BaseException is_exception exn_class option_map
       Pipeline.bind of_outc of_M run_body
       rs_cfg rs_known rs_validate rs_prepared fn_cfg fn_obj fn_original l_id l_timeout dc_cfg dc_pe is_CancelledError
       Nat.eqb E_NORESULT E_TIMEOUT E_DEP E_GENEXIT
       app fst snd negb andb orb].
Ltac finish_eq := repeat rewrite app_nil_r; repeat rewrite <- app_assoc; cbn [app]; reflexivity.
Ltac run_both :=
  repeat (simp; first [rewrite orb_true_r | rewrite if_same | loop_to_model | await_to_model | split_head | split_call]);
  simp; finish_eq.

(* Pipeline.run_task without the cut of finding D10 (the line `if closes_coroutine c m then raise XGenExit`): the events
   of the try block, then the rest of the function (PipelineProofs.rt_rest: close the dependency, assemble the result,
   on_error hooks).  PipelineProofs.run_task_fst / run_task_snd: this IS run_task wherever closes_coroutine is false. *)
Definition run_task_open (c : pcfg) (m : msg) : Pipeline.M res :=
  (FExecBegin :: fst (try_block c m) ++ FExecEnd :: fst (rt_rest c m (snd (try_block c m))),
   snd (rt_rest c m (snd (try_block c m)))).

Lemma run_task_open_eq : forall c m, closes_coroutine c m = false -> run_task_open c m = Pipeline.run_task c m.
Proof.
  intros c m H. unfold run_task_open. rewrite (surjective_pairing (Pipeline.run_task c m)).
  rewrite run_task_fst, run_task_snd, H. reflexivity.
Qed.

(* the generated function IS that run - for EVERY configuration, message, known_tasks / validate_params; no hypothesis *)
Theorem run_task_open_src : forall c known validate m,
  run_task_gen c known validate m = of_M (run_task_open c m).
Proof.
  intros c known validate m. unfold run_task_open, rt_rest. rewrite try_block_split.
  unfold_prims. unfold_model. run_both.
Qed.

(* generated = the hand-written model Pipeline.run_task, outside finding D10's region *)
Theorem run_task_src_partial : forall c known validate m, closes_coroutine c m = false ->
  run_task_gen c known validate m = of_M (Pipeline.run_task c m).
Proof. intros c known validate m H. rewrite run_task_open_src, (run_task_open_eq c m H). reflexivity. Qed.

(* inside it (a sync function raising GeneratorExit, awaited to its end): the model stops after the try block and
   raises XGenExit in callback; the generated function - run_task as a coroutine of its own - catches the exception like
   any other and goes on: the model's events are a prefix of its events *)
Theorem run_task_d10_src : forall c known validate m, closes_coroutine c m = true ->
  snd (Pipeline.run_task c m) = Pipeline.Exc XGenExit /\
  exists rest, fst (run_task_gen c known validate m) = fst (Pipeline.run_task c m) ++ rest.
Proof.
  intros c known validate m H. rewrite run_task_open_src, run_task_snd, run_task_fst, H. split; [reflexivity|].
  unfold of_M, run_task_open. cbn [fst]. exists (FExecEnd :: fst (rt_rest c m (snd (try_block c m)))). rewrite app_nil_r. reflexivity.
Qed.

(* ------------------------------------------------------------------------------------------ C07 over the generated function *)
(* what the generated run_task returns: the TaskiqResult assembled from the outcome of the try block
   (Pipeline.raw_res: is_err = an exception was found, return_value, error, labels = message.labels), handed through
   the on_error hooks iff an exception was found.  Hypothesis: no on_error hook raises (C07's wf_recv has it). *)
Theorem C07_result_src : forall c known validate m, total_hook h_on_error (c_stack c) ->
  snd (run_task_gen c known validate m) =
  Ok (let o := snd (try_block c m) in
      if is_raise o then fold_hook h_on_error (c_stack c) (raw_res m o) else raw_res m o).
Proof.
  intros c known validate m T. rewrite run_task_open_src. unfold of_M, run_task_open, rt_rest. cbn [snd].
  rewrite snd_bind. destruct (snd (try_block c m)) as [v|e] eqn:E; cbn [is_raise].
  - destruct (is_opened (c_dep c)); reflexivity.
  - assert (S : forall (a : Pipeline.M unit) (b : Pipeline.M res), snd a = Pipeline.Ok tt ->
                of_outc (match snd a with Pipeline.Ok _ => snd b | Pipeline.Exc x => Pipeline.Exc x end) = of_outc (snd b))
      by (intros a b Ha; rewrite Ha; reflexivity).
    rewrite S; [rewrite (res_loop_snd _ _ _ _ _ _ _ T); reflexivity|].
    destruct (is_opened (c_dep c)), (c_prop c); reflexivity.
Qed.

(* hooks that leave the result object alone do not raise *)
Lemma identity_total : forall st,
  Forall (fun w => match h_on_error w with Some f => forall y, f y = Some y | None => True end) st ->
  total_hook h_on_error st.
Proof.
  intros st Hid. unfold total_hook. induction Hid as [|w st Hw _ IH]; constructor; [|exact IH].
  cbv beta in *. revert Hw. destruct (h_on_error w) as [f|]; [|intros _; exact Logic.I].
  intros Hw x E. rewrite Hw in E. discriminate.
Qed.

(* C07_result_reflects over the generated function: with hooks that leave the result object alone, the returned result
   says is_err iff the execution raised (or timed out, or its dependency failed), carries the return value or the
   exception of THIS execution, and the labels of the message it was run with *)
Theorem C07_result_reflects_src : forall c known validate m,
  Forall (fun w => match h_on_error w with Some f => forall y, f y = Some y | None => True end) (c_stack c) ->
  exists r, snd (run_task_gen c known validate m) = Ok r /\ r_lab r = m_lab m /\
    match snd (try_block c m) with
    | BRet v => r_err r = false /\ r_val r = Some v /\ r_exc r = None
    | BRaise e => r_err r = true /\ r_val r = None /\ r_exc r = Some e
    end.
Proof.
  intros c known validate m I.
  pose proof (identity_total _ I) as T.
  exists (raw_res m (snd (try_block c m))). split; [|apply raw_res_reflects].
  rewrite (C07_result_src c known validate m T). cbv zeta. rewrite (fold_hook_id _ _ _ I).
  destruct (is_raise (snd (try_block c m))); reflexivity.
Qed.

(* C07_timeout / C07_no_timeout_label over the generated function: the timeout label of the message the function is run
   with is enforced for coroutine functions - the returned result carries TimeoutError when the body outlasts it or the
   label is <= 0, and the body's own outcome when it is faster or there is no label *)
Theorem C07_timeout_src : forall c known validate m t,
  Forall (fun w => match h_on_error w with Some f => forall y, f y = Some y | None => True end) (c_stack c) ->
  c_async c = true -> c_dep c <> DFail -> m_tmo m = Some t ->
  exists r, snd (run_task_gen c known validate m) = Ok r /\
    ((c_dur c > t)%Z -> r = raw_res m (BRaise E_TIMEOUT)) /\
    ((t <= 0)%Z -> r = raw_res m (BRaise E_TIMEOUT)) /\
    ((0 < t)%Z -> (c_dur c < t)%Z -> r = raw_res m (c_out c) /\
                                     In (FTaskEnd (BEnded (c_out c))) (fst (run_task_gen c known validate m))).
Proof.
  intros c known validate m t I A D L.
  destruct (C07_result_reflects_src c known validate m I) as (r & Hr & _).
  pose proof (identity_total _ I) as T.
  pose proof (C07_result_src c known validate m T) as Hs. cbv zeta in Hs. rewrite (fold_hook_id _ _ _ I) in Hs.
  assert (Hs' : snd (run_task_gen c known validate m) = Ok (raw_res m (snd (try_block c m))))
    by (rewrite Hs; destruct (is_raise (snd (try_block c m))); reflexivity).
  destruct (timeout_enforced c m t A D L) as (H1 & H2 & H3).
  exists (raw_res m (snd (try_block c m))). split; [exact Hs'|]. repeat split.
  - intros G. rewrite (H1 G). reflexivity.
  - intros G. destruct (H2 G) as [G1 _]. rewrite G1. reflexivity.
  - destruct (H3 H H0) as [G1 _]. rewrite G1. reflexivity.
  - destruct (H3 H H0) as [_ G2]. rewrite run_task_open_src. unfold of_M, run_task_open. cbn [fst].
    right. apply in_or_app. left. exact G2.
Qed.

Theorem C07_no_timeout_label_src : forall c known validate m,
  Forall (fun w => match h_on_error w with Some f => forall y, f y = Some y | None => True end) (c_stack c) ->
  c_dep c <> DFail -> m_tmo m = None ->
  snd (run_task_gen c known validate m) = Ok (raw_res m (c_out c)).
Proof.
  intros c known validate m I D L.
  pose proof (identity_total _ I) as T.
  rewrite (C07_result_src c known validate m T). cbv zeta. rewrite (fold_hook_id _ _ _ I), (no_timeout_label c m D L).
  destruct (is_raise (c_out c)); reflexivity.
Qed.

End AnyObjects.

(* closed over prepared / fobj / forig: forall prepared fobj forig, <the statement above> *)
Print Assumptions run_task_open_src.
Print Assumptions run_task_src_partial.
Print Assumptions run_task_d10_src.
Print Assumptions C07_result_src.
Print Assumptions C07_result_reflects_src.
Print Assumptions C07_timeout_src.
Print Assumptions C07_no_timeout_label_src.
