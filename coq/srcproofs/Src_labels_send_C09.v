(* Source tie for the SEND side of the label path, property C09:
     taskiq/kicker.py   AsyncKicker._prepare_message - its label loop, as a slice (harness/pygal_labels_send.py, slice_of)
     taskiq/context.py  Context.requeue - the whole coroutine
     taskiq/labels.py   LabelType, prepare_label - this unit's own copy (prepare_label_send_src is prepare_label_src again)

   `Gen_labels_send` is GENERATED from the repository's source text on every run; its primitives have the meaning given
   in coq/theories/PyPreludeLabels.v.  This file is hand-written and committed; it is re-checked against the freshly
   generated definitions on every run of the C09 check.

   prepare_message_labels_src: the two dicts the kicker's loop builds ARE the model's wire form (Labels.prepare_labels).
   requeue_src: what Context.requeue does - the received message's own dict after the counter bump, the wire form of
   the message that is kicked, NoResultError at the end; or the exception of int() before anything happened - IS the
   model's Labels.requeue.  Both for every `pyworld` and every label dict whose keys are pairwise different (a Python
   dict; Labels.dict is an association list and does not say so by itself).

   The proofs name nothing of the generated text but the top-level definitions. *)
From Coq Require Import ZArith NArith List Bool String Lia.
From Coq.Strings Require Import Byte.
From TQ Require Import Base64 Base64Proofs Labels LabelsCodecProofs LabelsProofs PyStm PyPreludeLabels PyPreludeLabelsProofs.
From Src Require Import Gen_labels_send.
Import ListNotations.
Open Scope N_scope.

Theorem prepare_label_send_src : forall (W : pyworld) (v : lval),
  prepare_label_py W v = Some (Labels.prepare_label (w_sof W) v).
Proof.
  intros W v. unfold prepare_label_py.
  destruct v; cbn -[b64encode str_of_Z str_of_bool]; rewrite ?bytes_decode_b64; reflexivity.
Qed.
Print Assumptions prepare_label_send_src.

(* the loop state is the pair of the two dicts, in the alphabetical order of the two local names; the body is one
   iteration of the model's map *)
Ltac body_is_prep_step W :=
  let k := fresh "k" in let x := fresh "x" in let l := fresh "l" in let t := fresh "t" in
  intros [k x] [l t]; unfold prep_step, prep_step_sw; cbn [fst snd];
  rewrite (prepare_label_send_src W x); cbn; reflexivity.
(* rewrite the one `for_` of the goal into the model's map; the three goals left: the rest, "the body is one iteration",
   "the keys are pairwise different" *)
Ltac loop_is_map W :=
  match goal with
  | |- context [for_ _ ?b _] =>
      first [ rewrite (for_prep_loop_nil (w_sof W) b) | rewrite (for_prep_loop_sw_nil (w_sof W) b) ]
  end.

(* ---------------------------------------------------------------- AsyncKicker._prepare_message: the label loop *)
Theorem prepare_message_labels_src : forall (W : pyworld) (d : dict lval), NoDup (keys d) ->
  prepare_message_labels_py W d = ret (rawd (w_sof W) d, Some (typd (w_sof W) d)).
Proof.
  intros W d ND. unfold prepare_message_labels_py, dict_items. cbv zeta.
  loop_is_map W.
  - reflexivity.
  - body_is_prep_step W.
  - exact ND.
Qed.
Print Assumptions prepare_message_labels_src.

(* ... i.e. the message _prepare_message returns carries the model's wire form *)
Theorem prepare_message_wire_src : forall (W : pyworld) (d : dict lval), NoDup (keys d) ->
  exists l t, prepare_message_labels_py W d = ret (l, t) /\ mkWire l t = prepare_labels (w_sof W) d.
Proof.
  intros W d ND. exists (rawd (w_sof W) d), (Some (typd (w_sof W) d)). split.
  - now apply prepare_message_labels_src.
  - reflexivity.
Qed.
Print Assumptions prepare_message_wire_src.

(* ---------------------------------------------------------------- Context.requeue *)
Definition requeue_run (r : option (dict lval * wire)) : QM unit :=
  match r with
  | Some (L', w) => ([ELabels L'; EKickW w], Exc XNoResult)
  | None => ([], Exc XRaised)
  end.

Theorem requeue_src : forall (W : pyworld) (L : dict lval) (tys : option (dict N)), NoDup (keys L) ->
  requeue_py W (mkTMsg L tys) = requeue_run (Labels.requeue (w_sof W) L).
Proof.
  intros W L tys ND. unfold requeue_py, requeue_run, Labels.requeue, counter, dict_get_default, dict_items.
  cbn [tm_labels].
  destruct (dget K_REQUEUE L) as [v|] eqn:D.
  - destruct (py_int v) as [c|] eqn:PI; [|reflexivity].
    cbn -[for_ dset str_of_Z prepare_labels]. cbv zeta.
    loop_is_map W.
    + reflexivity.
    + body_is_prep_step W.
    + apply NoDup_dset. exact ND.
  - cbn -[for_ dset str_of_Z prepare_labels]. cbv zeta.
    loop_is_map W.
    + reflexivity.
    + body_is_prep_step W.
    + apply NoDup_dset. exact ND.
Qed.
Print Assumptions requeue_src.

(* what C09_delivery uses of a requeue: the counter goes up by one, every other label of the received message is the
   same object as before, and the re-sent message is the re-prepared dict *)
Theorem C09_requeue_src : forall (W : pyworld) (L : dict lval) (tys : option (dict N)) (c : Z), NoDup (keys L) ->
  counter K_REQUEUE L = Some c ->
  requeue_py W (mkTMsg L tys)
  = (let L' := dset K_REQUEUE (LStr (str_of_Z (c + 1))) L in
     ([ELabels L'; EKickW (prepare_labels (w_sof W) L')], Exc XNoResult)).
Proof.
  intros W L tys c ND HC. rewrite requeue_src by exact ND. unfold Labels.requeue. rewrite HC. reflexivity.
Qed.
Print Assumptions C09_requeue_src.

Example requeue_src_nonvacuous :
  let W := mkWorld (fun _ => []) (fun _ => None) (fun _ => []) (fun _ => EmptyString) (fun _ => None) (fun _ => None)
                   (fun _ _ => None) (fun _ => true) in
  requeue_py W (mkTMsg [(10, LInt 7%Z); (K_REQUEUE, LStr [52; 49])] None)
  = ([ELabels [(10, LInt 7%Z); (K_REQUEUE, LStr [52; 50])];
      EKickW (mkWire [(10, [55]); (K_REQUEUE, [52; 50])] (Some [(10, T_INT); (K_REQUEUE, T_STR)]))], Exc XNoResult)
  /\ requeue_py W (mkTMsg [(K_REQUEUE, LStr [120])] None) = ([], Exc XRaised).
Proof. vm_compute. split; reflexivity. Qed.
