(* Defective variants of Labels.v whose code was repaired in /repo, with their witnesses.  They are the
   provenance of corpus/C09/d4a_with_labels_leak.json and corpus/C09/d4b_requeue_bytes_label*.json.

   D4a (fixed by 9b1b865): AsyncKicker.with_labels did  self.labels.update(labels)  - an in-place update of a
        dict that task.kicker() shares with the task (decor.py / shared_broker.py hand over task.labels itself).
   D4b (fixed by 9c81ca1): Context.requeue re-dumped the *parsed* message: label values as Python objects, next to
        the labels_types of the first encoding. *)
From Coq Require Import ZArith NArith List Bool.
From Coq.Strings Require Import Byte.
From TQ Require Import Base64 Labels.
Import ListNotations.
Open Scope nat_scope.

(* ---------------------------------------------------------------- D4a *)
Definition kstep_d4a (tb : list N) (ntasks : nat) (st : kstate) (o : kop) : option kstate :=
  match o with
  | OWithLabels k l =>
      match nth_error (kickers st) k with
      | Some kk =>
          match nth_error (heap st) (k_ref kk) with
          | Some d => Some (mkK (set_nth (k_ref kk) (dmerge d l) (heap st)) (kickers st) (out st))   (* in place *)
          | None => None
          end
      | None => None
      end
  | _ => kstep tb ntasks st o
  end.

Fixpoint krun_d4a (tb : list N) (ntasks : nat) (st : kstate) (ops : list kop) : option kstate :=
  match ops with
  | [] => Some st
  | o :: r => match kstep_d4a tb ntasks st o with Some st' => krun_d4a tb ntasks st' r | None => None end
  end.

Definition run_history_d4a decl tb ops := krun_d4a tb (length decl) (kinit decl) ops.

(* t = task(lab=1);  k = t.kicker().with_labels(extra="q");  k.kiq();  t.kiq() *)
Definition d4a_decl : list (dict lval) := [[(10%N, LInt 1)]].
Definition d4a_ops : list kop := [OKicker 0; OWithLabels 0 [(11%N, LStr [113%N])]; OKiq 0; OKicker 0; OKiq 1].

(* the statement of C09_no_leak, for the defective step function: false *)
Theorem C09_no_leak_refuted :
  exists decl tb ops st,
    length tb = length decl /\ run_history_d4a decl tb ops = Some st /\
    ~ ((forall t, t < length decl -> nth_error (heap st) t = nth_error decl t)
       /\ rev (out st) = spec_sent decl tb [] ops).
Proof.
  exists d4a_decl, [0%N], d4a_ops.
  eexists. split; [reflexivity|]. split; [vm_compute; reflexivity|].
  intros [H _]. specialize (H 0 (le_n 1)). vm_compute in H. discriminate.
Qed.

(* ... and the second send (plain task.kiq()) carries the other call's label *)
Example d4a_second_send_polluted :
  option_map (fun st => map s_labels (rev (out st))) (run_history_d4a d4a_decl [0%N] d4a_ops)
  = Some [[(10%N, LInt 1); (11%N, LStr [113%N])]; [(10%N, LInt 1); (11%N, LStr [113%N])]]
  /\ map s_labels (spec_sent d4a_decl [0%N] [] d4a_ops)
  = [[(10%N, LInt 1); (11%N, LStr [113%N])]; [(10%N, LInt 1)]].
Proof. vm_compute. split; reflexivity. Qed.

(* the repaired model on the same history *)
Example d4a_fixed_ok :
  option_map (fun st => (firstn 1 (heap st), map s_labels (rev (out st)))) (run_history d4a_decl [0%N] d4a_ops)
  = Some ([[(10%N, LInt 1)]], [[(10%N, LInt 1); (11%N, LStr [113%N])]; [(10%N, LInt 1)]]).
Proof. vm_compute. reflexivity. Qed.

(* ---------------------------------------------------------------- D4b *)
Inductive ser := JSON | PICKLE.
(* the re-dumped message: label values are Python objects *)
Record rwire := mkRW { rw_labels : dict lval; rw_types : option (dict N) }.

(* json has no encoding for bytes (the dump raises); pickle writes everything *)
Definition dumpable (s : ser) (v : lval) : bool :=
  match s, v with JSON, LBytes _ => false | _, _ => true end.

Definition requeue_d4b (s : ser) (types0 : dict N) (L : dict lval) : option (dict lval * rwire) :=
  match counter K_REQUEUE L with
  | None => None
  | Some c =>
      let L' := dset K_REQUEUE (LStr (str_of_Z (c + 1))) L in
      if forallb (fun kv => dumpable s (snd kv)) L' then Some (L', mkRW L' (Some types0)) else None
  end.

(* parse_label applied to a value that is already parsed *)
Definition parse_raw (fos : pstr -> option Z) (v : lval) (t : N) : option lval :=
  match v with
  | LStr s => parse_label fos s t
  | LInt _ => if (t =? T_INT)%N then Some v else None
  | LFloat _ => if (t =? T_FLOAT)%N then Some v else None
  | LBool _ => if (t =? T_BOOL)%N then Some v else None
  | LBytes bs => if (t =? T_BYTES)%N then option_map LBytes (b64decode (Ns_of_bytes bs)) else None
  | LOther _ => None
  end.

Fixpoint parse_loop_raw fos (types : dict N) (raw acc : dict lval) : option (dict lval) :=
  match types with
  | [] => Some acc
  | (k, t) :: r =>
      match dget k raw with
      | None => parse_loop_raw fos r raw acc
      | Some v => match parse_raw fos v t with
                  | None => None
                  | Some v' => parse_loop_raw fos r raw (dset k v' acc)
                  end
      end
  end.

Definition parse_rwire fos (w : rwire) : option (dict lval) :=
  match rw_types w with None => Some (rw_labels w) | Some ts => parse_loop_raw fos ts (rw_labels w) (rw_labels w) end.

Definition redeliver_d4b (s : ser) (sof : Z -> pstr) (fos : pstr -> option Z) (d : dict lval) : option (dict lval) :=
  match parse_labels fos (prepare_labels sof d), w_types (prepare_labels sof d) with
  | Some L, Some ts => match requeue_d4b s ts L with
                       | Some (_, w) => parse_rwire fos w
                       | None => None
                       end
  | _, _ => None
  end.

(* JSON: a bytes label makes Context.requeue() raise instead of re-sending *)
Theorem C09_requeue_refuted :
  exists d, NoDup (keys d) /\ Forall (fun kv => match snd kv with LOther _ => False | _ => True end) d /\
    redeliver_d4b JSON (tab_sof []) (tab_fos []) d = None
    /\ exists Ls, deliveries (tab_sof []) (tab_fos []) d [ARequeue] = Some Ls.   (* the repaired model re-delivers *)
Proof.
  exists [(10%N, LBytes [xff; x00])]. repeat split.
  - repeat constructor. cbn. tauto.
  - repeat constructor.
  - vm_compute. eexists. reflexivity.
Qed.

(* pickle: the raw bytes are base64-decoded a second time: b"QUJD" comes back as b"ABC" *)
Theorem C09_requeue_refuted_pickle :
  redeliver_d4b PICKLE (tab_sof []) (tab_fos []) [(10%N, LBytes [x51; x55; x4a; x44])]
  = Some [(10%N, LBytes [x41; x42; x43]); (K_REQUEUE, LStr [49%N])]
  /\ deliveries (tab_sof []) (tab_fos []) [(10%N, LBytes [x51; x55; x4a; x44])] [ARequeue]
  = Some [[(10%N, LBytes [x51; x55; x4a; x44])]; [(10%N, LBytes [x51; x55; x4a; x44]); (K_REQUEUE, LStr [49%N])]].
Proof. vm_compute. split; reflexivity. Qed.
