(* D8 (DESIGN.md section 5; repaired in /repo by "fix: process manager signals only live workers on
   shutdown"): the shutdown branch used to be

       for worker in self.workers:
           if worker.pid:
               os.kill(worker.pid, signal.SIGINT)

   i.e. it signalled every worker that had a pid, also one that the liveness scan had already found dead
   and reaped.  Plugged into the same drain loop / tick / run as the current code (ProcMan.run_gen), a
   SIGINT delivered between the queue drain and the scan of a tick in which that scan reaps a dead worker
   puts Shutdown *before* the worker's ReloadOne; the next tick then calls os.kill on a reaped pid. *)
From Coq Require Import ZArith List Bool Arith.
Import ListNotations.
From TQ Require Import ProcMan.

Fixpoint shutdown_all (idxs : list nat) (st : state) (aevs : list (list event)) : state * list effect * outcome :=
  match idxs with
  | [] => (st, [EExit ExitNone], Exited ExitNone)
  | k :: ks =>
      let w := nth k (workers st) dummy in
      if pid w =? 0 then shutdown_all ks st aevs
      else match pst w with
           | Reaped => (st, [Kill (pid w)], Crashed (pid w))          (* ProcessLookupError escapes start() *)
           | _ => let '(s, e, o) := shutdown_all ks st aevs in (s, Kill (pid w) :: e, o)
           end
  end.

Definition run_d8 := run_gen shutdown_all.

(* corpus/C18/d8_sigint_between_drain_and_scan.json *)
Definition d8_history : list tick_events :=
  [mkTE [Die 0] [] [[Int]]; mkTE [] [] []; mkTE [] [] []].

(* the statement "on SIGINT it signals ... no process other than its own live current workers and returns
   the success status" fails for the defective variant: pid 100 is signalled after it was reaped, and
   start() does not return at all *)
Theorem C18_shutdown_clean_refuted :
  exists hist, let '(l, o, s) := run_d8 (mkCfg 2 (-1)) 100 hist in
    o = Crashed 100 /\ last l [] = [Got Shutdown; Kill 100] /\
    nth 0 (workers s) dummy = mkProc 100 Reaped.
Proof. exists d8_history. vm_compute. repeat split. Qed.

(* the same history on the current code *)
Example d8_history_now :
  run (mkCfg 2 (-1)) 100 d8_history =
  ([[Start 0 100; Start 1 101]; []; [Got Shutdown; Kill 101; EExit ExitNone]], Exited ExitNone,
   mkState [mkProc 100 Reaped; mkProc 101 Live] [ReloadOne 0 false] 0 102).
Proof. vm_compute. reflexivity. Qed.
