(* Defective variants of the C06 model (coq/theories/Deps.v) and their witnesses.

   D2 (repaired in /repo by "fix: resolve dependencies of each execution against its own context copy"):
   run_task handed the broker's shared custom_dependency_context dict to the resolver *by reference*
       dep_ctx = dependency_graph.async_ctx(broker_ctx, ...)
   so every resolver context whose traversal starts after another message has been received (a sub-context of a
   use_cache=False dependency resolved after an await) copies the other message's Context.
   The witness is the corpus entry corpus/C06/d2_uncached_after_suspension.json.

   write-after (mutant of DESIGN.md section 9, never in the code base): the per-execution copy is made before the
   execution's Context is written into the broker's dict. *)
From Coq Require Import List Bool Arith.
From TQ Require Import Deps.
Import ListNotations.

(* broker_ctx.update({Context: ...}) ; async_ctx(broker_ctx) *)
Definition begin_shared : begin_t := fun h i => (upd_nth 0 (Some i) h, 0).

(* async_ctx(broker_ctx.copy()) ; broker_ctx.update({Context: ...}) *)
Definition begin_write_after : begin_t := fun h i =>
  let h1 := h ++ [hget h 0] in (upd_nth 0 (Some i) h1, length h).

Definition d2_witness : list action := [ABegin 0; ATraverse 0 0; ABegin 1; ATraverse 0 1; ARead 0 1].

(* 2 executions, 5 steps: execution 0 reads execution 1's Context *)
Theorem C06_isolated_refuted_shared :
  exists acts vals, length acts = 5 /\ run begin_shared init acts = Some vals /\
                    nth_error acts 4 = Some (ARead 0 1) /\ nth_error vals 4 = Some (VCtx (Some 1)) /\
                    C06_check acts vals = false.
Proof. exists d2_witness. eexists. vm_compute. repeat split. Qed.

(* the same five steps are harmless on the current code *)
Example d2_witness_fixed :
  run begin_copy init d2_witness = Some [VUnit; VUnit; VUnit; VUnit; VCtx (Some 0)].
Proof. vm_compute. reflexivity. Qed.

(* the cached dependencies of the top-level context are not affected even in the defective variant, as long as
   the traversal starts in the same task step as Begin (it does: no await in between) *)
Example d2_cached_unaffected :
  run begin_shared init [ABegin 0; ATraverse 0 0; ABegin 1; ATraverse 1 0; ARead 0 0; ARead 1 0]
  = Some [VUnit; VUnit; VUnit; VUnit; VCtx (Some 0); VCtx (Some 1)].
Proof. vm_compute. reflexivity. Qed.

Theorem C06_isolated_refuted_write_after :
  exists acts vals, run begin_write_after init acts = Some vals /\ C06_check acts vals = false.
Proof.
  exists [ABegin 0; ATraverse 0 0; ARead 0 0; ABegin 1; ATraverse 1 0; ARead 1 0]. eexists.
  vm_compute. repeat split.
Qed.
Example write_after_values :
  run begin_write_after init [ABegin 0; ATraverse 0 0; ARead 0 0; ABegin 1; ATraverse 1 0; ARead 1 0]
  = Some [VUnit; VUnit; VCtx None; VUnit; VUnit; VCtx (Some 0)].
Proof. vm_compute. reflexivity. Qed.

(* Seeded change C06/1 (never in /repo): the copy is made only when the task's *prepared* DependencyGraph has
   use_cache=False sub-graphs
       async_ctx(broker_ctx.copy() if dependency_graph.subgraphs else broker_ctx, overrides)
   but with broker.dependency_overrides async_ctx resolves a new graph, built per execution from the overrides.  p i
   stands for "the prepared graph of execution i's task has un-cached sub-graphs"; whether the execution creates
   sub-contexts (ATraverse i c with c > 0) depends on the *overridden* graph, so p i = false does not exclude them.
   Witness: corpus/C06/seeded1_override_adds_uncached.json. *)
Definition begin_cond (p : nat -> bool) : begin_t := fun h i => if p i then begin_copy h i else begin_shared h i.

Theorem C06_isolated_refuted_conditional_copy : forall p, p 0 = false ->
  exists vals, run (begin_cond p) init d2_witness = Some vals /\ C06_check d2_witness vals = false.
Proof.
  intros p H. unfold d2_witness. destruct (p 1) eqn:H1; eexists; unfold run, step, begin_cond; rewrite H; cbn;
    rewrite ?H1; cbn; split; reflexivity.
Qed.

(* with the test answering "copy" for every execution it is the current code *)
Lemma begin_cond_true : forall p h i, p i = true -> begin_cond p h i = begin_copy h i.
Proof. intros p h i H. unfold begin_cond. now rewrite H. Qed.
