(* FindingsExcSer.v - defective variant of ExcSer.v for the repaired finding D10 (property C19), with its witness.

   Before /repo commit 743840e find_pickleable_exception walked the MRO without looking at what kind of class it
   met: for  class L(Mixin, Exception)  defined inside a function (Python cannot pickle L by reference) and raised
   as L(),  L() fails to pickle, Mixin() constructs and pickles, and the `error` of the unpickled result was a Mixin
   instance - not an exception.  Replay: corpus/C19/d10_pickle_mixin_not_exception.json (must pass on the repaired
   tree).  The variant differs from the model in exactly the one test of first_ok. *)
From Coq Require Import List Bool Arith.
Import ListNotations.
From TQ Require Import ExcSer ExcSerProofs.

Fixpoint first_ok_d10 (c : coder) (l : list mro) (i : nat) : option nat :=
  match l with
  | [] => None
  | m :: t => if m_ok c m then Some i else first_ok_d10 c t (S i)      (* no  issubclass(supercls, BaseException)  test *)
  end.

Fixpoint prep_exc_d10 (c : coder) (g : graph) (fuel : nat) (seen : list nat) (id : nat) {struct fuel} : option prep :=
  match fuel with
  | O => None
  | S f =>
    if mem id seen then Some PNone else
    match nth_error g id with
    | None => None
    | Some n =>
      let seen' := id :: seen in
      let go := fun (o : option nat) =>
        match o with None => Some PNone | Some j => prep_exc_d10 c g f seen' j end in
      let octx := if n_suppress n then None else n_context n in
      if n_exc_rt c n then Some (PExc id) else
      match first_ok_d10 c (n_mro n) 0 with
      | Some i => Some (PBase id i)
      | None =>
        match go (n_cause n) with None => None | Some wc =>
        match go octx with None => None | Some wx =>
          if n_wrap_rt c n then Some (PWrap id (ensure c (n_args n)) wc wx (n_suppress n))
          else
            match go (n_cause n) with None => None | Some rc =>
            match go octx with None => None | Some rx =>
              Some (PRepr id (ensure c (n_args n)) rc rx (n_suppress n))
            end end
        end end
      end
    end
  end.

(* the unpickled object is whatever class was picked: an exception only if that class is one *)
Definition load_pickle_d10 (g : graph) (p : prep) : outcome :=
  match p with
  | PBase id i =>
      match nth_error g id with
      | Some n =>
        match nth_error (n_mro n) i with
        | Some m => if m_is_exc m then load_pickle g p else ONotExc
        | None => ONotExc
        end
      | None => ONotExc
      end
  | _ => load_pickle g p
  end.

Definition roundtrip_pickle_d10 (g : graph) (root : nat) : outcome :=
  match prep_exc_d10 CPickle g (S (length g)) [] root with
  | None => OFuel
  | Some p => load_pickle_d10 g p
  end.

(* flags measured for L() of  class L(Mixin, Exception)  (local): L is not importable, L() does not pickle,
   Mixin() does and Mixin is not an exception class *)
Definition d10_node := mkNode true RMissing false false false false false false LMismatch
                              [mkMro false false LMismatch true; mkMro false true LMismatch false]
                              false true [] None None false.

Theorem D10_refuted : exists g, wf g /\ wrappable g /\ roundtrip_pickle_d10 g 0 = ONotExc.
Proof.
  exists [d10_node]. split; [apply wfb_iff; reflexivity |]. split; [| reflexivity].
  intros n [E | []]. subst n. reflexivity.
Qed.

(* the repaired code (the model of ExcSer.v) wraps the same exception *)
Theorem D10_repaired : roundtrip EPickle [d10_node] 0 = OLoaded (LNode 0 KWrap true (LArgs []) LNone LNone false).
Proof. reflexivity. Qed.

(* on graphs without a mixin the variant and the model agree on the cascade *)
Lemma first_ok_d10_same : forall c l i, (forall m, In m l -> m_is_exc m = true) -> first_ok_d10 c l i = first_ok c l i.
Proof.
  intros c l. induction l as [| m t IH]; intros i H; cbn; [reflexivity |].
  rewrite (H m (or_introl eq_refl)). cbn [andb]. destruct (m_ok c m); [reflexivity |].
  apply IH. intros m' Hm'. apply H. right. exact Hm'.
Qed.
