(* C08 - the DEFECTIVE parse_params of the pinned snapshot (b702615), repaired in /repo by commit 54569d3
   "fix: parse_params counts un-annotated parameters when locating positional arguments" (DESIGN.md section 5, D3).

       argnum = -1
       for param_name in signature.parameters:
           annot = type_hints.get(param_name)
           if annot is None: continue
           argnum += 1                      # <- only reached for annotated parameters
           ...

   Kept so that a re-introduced defect is recognised at once (corpus/C08/d3_unannotated_before_annotated.json
   is its replay). *)
From Coq Require Import List Bool Arith.
From TQ Require Import Params.
Import ListNotations.

Section D3.
  Variable value : Type.
  Variable is_none : value -> bool.
  Variable ty : Type.
  Variable conv : ty -> value -> cres value.

  (* `argnum` = number of annotated parameters seen before this one (the value after the misplaced increment) *)
  Fixpoint parse_loop_d3 (ps : list (param value)) (argnum : nat) (h : list (nat * ty)) (args : list value)
           (kw : list (nat * value)) : pres value :=
    match ps with
    | [] => POk args kw
    | p :: ps' =>
      match dget h (pname p) with
      | None => parse_loop_d3 ps' argnum h args kw                       (* continue WITHOUT counting *)
      | Some annot =>
        match nth_error args argnum with
        | Some v =>
          if is_none v then parse_loop_d3 ps' (S argnum) h args kw
          else match conv annot v with
               | CVal w => parse_loop_d3 ps' (S argnum) h (set_nth args argnum w) kw
               | CSwallowed => parse_loop_d3 ps' (S argnum) h args kw
               | CRaise => PRaise
               end
        | None =>
          match dget kw (pname p) with
          | None => parse_loop_d3 ps' (S argnum) h args kw
          | Some v =>
            if is_none v then parse_loop_d3 ps' (S argnum) h args kw
            else match conv annot v with
                 | CVal w => parse_loop_d3 ps' (S argnum) h args (dset kw (pname p) w)
                 | CSwallowed => parse_loop_d3 ps' (S argnum) h args kw
                 | CRaise => PRaise
                 end
          end
        end
      end
    end.

  Definition run_task_d3 (sg : list (param value)) (h : list (nat * ty)) (args : list value)
             (kw : list (nat * value)) : outcome value :=
    match parse_loop_d3 sg 0 h args kw with
    | PRaise => ParseRaised
    | POk args' kw' =>
      match pycall value sg args' (dupdate (dep_kwargs value sg) kw') with
      | Some b => Invoked b
      | None => CallTypeError
      end
    end.
End D3.

(* def f(a, b: int);  f.kiq("5", "7").   values: 1 = "5", 2 = "7", 3 = 5, 4 = 7; types: 0 = Any, 1 = int;
   names: a = 0, b = 1.  d3_conv: int("5") = 5, int("7") = 7, Any is the identity, nothing else converts. *)
Definition d3_conv (t v : nat) : cres nat :=
  if t =? 0 then CVal v
  else if (t =? 1) && (v =? 1) then CVal 3
  else if (t =? 1) && (v =? 2) then CVal 4
  else CSwallowed.
Definition d3_sig : list (param nat) := [mkParam 0 KPos false None; mkParam 1 KPos false None].
Definition d3_hints : list (nat * nat) := [(1, 1)].
Definition d3_args : list nat := [1; 2].

Lemma d3_conv_any : forall t v, nis_any t = true -> d3_conv t v = CVal v.
Proof. intros t v H. unfold d3_conv, nis_any in *. now rewrite H. Qed.

Lemma d3_conv_no_raise : forall t v, d3_conv t v <> CRaise.
Proof.
  intros t v. unfold d3_conv.
  destruct (t =? 0); [discriminate|].
  destruct ((t =? 1) && (v =? 1)); [discriminate|].
  destruct ((t =? 1) && (v =? 2)); discriminate.
Qed.

(* The full-strength statement fails on the defective variant: every hypothesis of C08_binding holds (signature in
   scope, Any is the identity, no conversion raises, CPython accepts the call as sent), yet the body does not
   receive what the statement demands - it receives (5, "7") where ("5", 7) is due. *)
Theorem D3_binding_refuted :
  exists conv sg h args kw b,
    (forall t v, nis_any t = true -> conv t v = CVal v) /\
    (forall t v, conv t v <> CRaise) /\
    pos_then_kw nat sg = true /\ NoDup (map pname sg) /\ NoDup (map fst kw) /\
    pycall nat sg args (dupdate (dep_kwargs nat sg) kw) = Some b /\
    map2 (expected_rcv nat nis_none nat nis_any conv h kw) sg b = [RPos 1; RPos 4] /\
    run_task_d3 nat nis_none nat conv sg h args kw = Invoked [RPos 3; RPos 2].
Proof.
  exists d3_conv, d3_sig, d3_hints, d3_args, (@nil (nat * nat)), [RPos 1; RPos 2].
  split; [exact d3_conv_any|]. split; [exact d3_conv_no_raise|].
  split; [reflexivity|]. split; [repeat constructor; simpl; intuition discriminate|].
  split; [constructor|]. repeat split; vm_compute; reflexivity.
Qed.

(* the repaired code on the same input *)
Example D3_repaired :
  run_task nat nis_none nat d3_conv true d3_sig d3_hints d3_args [] = Invoked [RPos 1; RPos 4].
Proof. vm_compute. reflexivity. Qed.
