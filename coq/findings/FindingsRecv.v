(* Defective variant of the receiver LTS: the prefetcher before /repo commit 2fad6db ("fix: prefetcher stops reading the
   broker once max_tasks_to_execute is reached") created a new look-ahead task after *every* fetch ([gstep true]).
   D1 (DESIGN.md section 5): with A = 1, P = 0, N = 2 and a ready backlog the look-ahead takes message N+1 while the
   prefetcher waits for a prefetch permit; the prefetcher then leaves the loop on the budget test and cancel() on the
   already finished look-ahead task drops the message.  Replay: corpus/C01/d1_lookahead_after_budget.json. *)
From Coq Require Import List Arith Bool.
Import ListNotations.
From TQ Require Import RecvLTS.

Definition d1_cfg := mkcfg (Some 1) 0 (Some 2) false.
Definition d1_trace : list ev :=
  [EPfCheck false; ERnAcquire; ETake 0; EPfAcquire; EPfGot 0 true; EPfCheck false; ETake 1; ERnGet (IMsg 0);
   ECbEnd 0; ECbDone 0 true; ERnAcquire; EPfAcquire; EPfGot 1 true; EPfCheck false; ETake 2; ERnGet (IMsg 1);
   ECbEnd 1; ECbDone 1 true; ERnAcquire; EPfAcquire; EPfExit; ERnGet IDone; EReturn].

(* on the defective model: listen() has returned, message 2 was taken from the broker and is lost *)
Theorem C01_none_dropped_refuted :
  exists c tr s, grun true c (init c) tr = Some s /\ ret s = true /\ lost s = [2] /\ mem 2 (taken s) = true /\ mem 2 (started s) = false.
Proof. exists d1_cfg, d1_trace. eexists. split; [vm_compute; reflexivity | repeat split; reflexivity]. Qed.

(* the repaired model rejects that trace exactly where the defect was: the fetch of the last allowed message may not create a
   new look-ahead (event 12, EPfGot 1 true) *)
Example d1_trace_rejected_by_current_model : firstbad d1_cfg (init d1_cfg) 0 d1_trace = Some 12.
Proof. vm_compute. reflexivity. Qed.
