(* C14 - a one-shot schedule is never sent early and at most one second late. *)
From Coq Require Import ZArith.
From TQ Require Import SchedDelay SchedDelayProofs FloatTrunc.
Open Scope Z_scope.

Theorem C14_past : forall T now, T <= now -> delay T now = Some 0.
Proof. exact delay_past. Qed.
Print Assumptions C14_past.

Theorem C14_far : forall T now, next_boundary now + US < T -> delay T now = None.
Proof. exact delay_far. Qed.
Print Assumptions C14_far.

Theorem C14_near : forall T now, now < T <= next_boundary now + US ->
  exists d, delay T now = Some d /\ T <= now + d * US < T + US /\ 0 < d <= 61.
Proof. exact delay_near. Qed.
Print Assumptions C14_near.

Theorem C14_cases_exhaustive_exclusive : forall T now,
  (T <= now /\ ~ (now < T <= next_boundary now + US) /\ ~ (next_boundary now + US < T)) \/
  (~ T <= now /\ (now < T <= next_boundary now + US) /\ ~ (next_boundary now + US < T)) \/
  (~ T <= now /\ ~ (now < T <= next_boundary now + US) /\ (next_boundary now + US < T)).
Proof. exact cases_exhaustive_exclusive. Qed.
Print Assumptions C14_cases_exhaustive_exclusive.

(* the Boolean oracle evaluated on implementation observations is exactly the statement *)
Theorem C14_check_is_statement : forall T now obs, C14_check T now obs = true <->
  (T <= now -> obs = Some 0) /\
  (next_boundary now + US < T -> obs = None) /\
  (now < T <= next_boundary now + US -> exists d, obs = Some d /\ T <= now + d * US < T + US).
Proof. exact check_sound. Qed.
Print Assumptions C14_check_is_statement.

Theorem C14_model_meets_statement : forall T now, C14_check T now (delay T now) = true.
Proof. exact model_meets_check. Qed.
Print Assumptions C14_model_meets_statement.

(* int(delay.total_seconds()) in binary64 = exact integer quotient on the whole reachable range *)
Theorem C14_float_trunc : forall n, 0 <= n < 2 ^ 32 * 1000000 -> total_seconds_trunc n = n / 1000000.
Proof. exact trunc_ok. Qed.
Print Assumptions C14_float_trunc.

(* non-vacuity: each case has inhabitants, and the near case reaches both ends of (0, 61] *)
Example C14_near_nonvacuous :
  delay 1700000041000000 1699999980000001 = Some 61 /\ delay 1699999980000002 1699999980000001 = Some 1
  /\ delay 1699999980000001 1699999980000001 = Some 0 /\ delay 1700000041000001 1699999980000001 = None.
Proof. vm_compute. repeat split. Qed.
