(* C10 - middleware hooks fire in the documented order, once per message. *)
From Coq Require Import List ZArith Bool Arith.
From TQ Require Import Base BaseProofs Pipeline PipelineProofs PipelineHooks.
Import ListNotations.

(* send side, stacks of any length / any override mask / any (non-raising) hook functions:
   pre_send of every overriding middleware in registration order, each applied to its predecessor's output
   (fold_hook over the first j middlewares), then dumps + kick of the final message, then post_send of every
   overriding middleware with that message iff the kick succeeded, then the task handle with its id;
   a failing dumps / kick yields SendTaskError and no post_send *)
Theorem C10_send_order : forall st m0 k, total_hook h_pre_send st -> total_post_send st ->
  kiq st m0 k =
  pre_send_events st m0 ++
  match k with
  | KickOk => [FDumps (sent_msg st m0); FKick (sent_msg st m0)] ++ post_send_events st m0 ++ [FSent (m_id (sent_msg st m0))]
  | KickFail => [FDumps (sent_msg st m0); FKick (sent_msg st m0); FCrash XSend]
  | DumpsFail => [FDumps (sent_msg st m0); FCrash XSend]
  end.
Proof. exact kiq_order. Qed.
Print Assumptions C10_send_order.

Theorem C10_send_failed : forall st m0 k, total_hook h_pre_send st -> total_post_send st -> k <> KickOk ->
  hook_indices HPostSend (kiq st m0 k) = [] /\ last (kiq st m0 k) FDone = FCrash XSend /\
  countb (fun e => match e with FSent _ => true | _ => false end) (kiq st m0 k) = 0.
Proof. exact kiq_failed_send. Qed.
Print Assumptions C10_send_failed.

(* execution side: the whole run, explicitly - nothing else happens *)
Theorem C10_exec_explicit : forall c, wf_strict c ->
  callback c =
    ev_pre c ++ acks c AckReceived ++
    (FExecBegin :: fst (try_block c (run_msg c)) ++ FExecEnd :: ev_dep_close c ++ ev_on_error c) ++
    acks c AckExecuted ++ ev_post_exec c ++ ev_save c ++ acks c AckSaved ++ [FDone].
Proof. exact callback_explicit. Qed.
Print Assumptions C10_exec_explicit.

(* order: every run (ANY configuration, raising hooks included) is sorted by phase:
   pre_execute* < ack(received) < exec begin < dependency open < body start < body end < exec end < dependency
   teardown < on_error* < ack(executed) < post_execute* < set_result < its outcome < post_save* < ack(saved) < end *)
Theorem C10_exec_order : forall c p1 x p2 y,
  callback c = p1 ++ x :: p2 -> In y p1 -> phase (c_ack c) y <= phase (c_ack c) x.
Proof. intros c p1 x p2 y E H. eapply bs_order; [apply callback_sorted|exact E|exact H]. Qed.
Print Assumptions C10_exec_order.

(* once: every overridden hook of every middleware exactly once, in registration order, non-overridden never;
   on_error iff the execution raised (dependency failure, no-result signal and timeout are raises too);
   post_save iff a result was stored *)
Theorem C10_once : forall c, wf_strict c ->
  hook_indices HPreExec (callback c) = overridden h_pre_exec 0 (c_stack c) /\
  hook_indices HOnError (callback c) = (if is_raise (found c) then overridden h_on_error 0 (c_stack c) else []) /\
  hook_indices HPostExec (callback c) = overridden h_post_exec 0 (c_stack c) /\
  hook_indices HPostSave (callback c) =
    (if negb (is_nores (res2 c)) && c_save_ok c then overridden h_post_save 0 (c_stack c) else []) /\
  hook_indices HPreSend (callback c) = [] /\ hook_indices HPostSend (callback c) = [].
Proof. exact callback_hooks. Qed.
Print Assumptions C10_once.

Theorem C10_send_once : forall st m0, total_hook h_pre_send st -> total_post_send st ->
  hook_indices HPreSend (kiq st m0 KickOk) = overridden h_pre_send 0 st /\
  hook_indices HPostSend (kiq st m0 KickOk) = overridden h_post_send 0 st.
Proof. exact kiq_hooks_once. Qed.
Print Assumptions C10_send_once.

(* `overridden` is what it says: index j is listed iff middleware j's class overrides the hook; strictly increasing *)
Theorem C10_overridden_spec : forall (sel : mw -> option (res -> option res)) st j,
  (In j (overridden sel 0 st) <-> exists w, nth_error st j = Some w /\ sel w <> None) /\
  NoDup (overridden sel 0 st) /\ increasing (overridden sel 0 st) = true.
Proof.
  intros sel st j. split; [|split].
  - rewrite overridden_spec. rewrite Nat.sub_0_r. split.
    + intros (w & H1 & H2 & _). exists w. split; assumption.
    + intros (w & H1 & H2). exists w. repeat split; try assumption. apply Nat.le_0_l.
  - apply increasing_nodup. apply overridden_increasing.
  - apply overridden_increasing.
Qed.
Print Assumptions C10_overridden_spec.

(* all of it per message under any interleaving of any number of messages *)
Theorem C10_concurrent : forall cs g i c,
  Interleave (map callback cs) g -> nth_error cs i = Some c -> project i g = callback c.
Proof. exact interleave_callback. Qed.
Print Assumptions C10_concurrent.

(* non-vacuity *)
Definition mwA : mw :=
  mkmw (Some (fun m => Some (mkmsg (m_id m + 10) 1 None))) (Some (fun _ => true))
       (Some (fun m => Some m)) (Some (fun r => Some r)) None (Some (fun r => Some r)).
Definition mwB : mw := mkmw None None None None (Some (fun r => Some r)) None.
Definition mwC : mw :=
  mkmw (Some (fun m => Some (mkmsg (m_id m) 2 None))) None (Some (fun m => Some m)) (Some (fun r => Some r)) None None.
Example C10_send_nonvacuous :
  kiq [mwA; mwB; mwC] (mkmsg 1 0 None) KickOk =
    [FHookM HPreSend 0 (mkmsg 1 0 None); FHookM HPreSend 2 (mkmsg 11 1 None);
     FDumps (mkmsg 11 2 None); FKick (mkmsg 11 2 None); FHookM HPostSend 0 (mkmsg 11 2 None); FSent 11]
  /\ kiq [mwA; mwB; mwC] (mkmsg 1 0 None) KickFail =
    [FHookM HPreSend 0 (mkmsg 1 0 None); FHookM HPreSend 2 (mkmsg 11 1 None);
     FDumps (mkmsg 11 2 None); FKick (mkmsg 11 2 None); FCrash XSend].
Proof. split; vm_compute; reflexivity. Qed.
Example C10_exec_nonvacuous :
  hook_indices HOnError (callback (mkcfg KOk (mkmsg 1 0 None) true AckSaved [mwA; mwB; mwC] DNone true true 0%Z
                                         (BRaise 3) true false true false)) = [0; 2]
  /\ hook_indices HPostSave (callback (mkcfg KOk (mkmsg 1 0 None) true AckSaved [mwA; mwB; mwC] DNone true true 0%Z
                                         (BRet 3) true false true false)) = [0].
Proof. split; vm_compute; reflexivity. Qed.
