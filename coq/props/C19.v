(* C19 - any task exception survives result serialisation. (stub) *)
From TQ Require Import ExcSer.
