(* C19 - any task exception survives result serialisation.

   PARTIAL BY CONSTRUCTION (the weakest fit of the twenty properties): json, pickle, repr, str, type(), pydantic's
   encoder and the class constructors are oracles that enter the model ExcSer.v only as measured Boolean flags.
   What is proved below - for every graph (any size, cyclic or not, shared nodes or not) and every value of those
   flags - is the decision logic, the recursion, its termination and the cause / context / suppress bookkeeping
   that taskiq builds on them.  The model is compared with the real code on every check run. *)
From Coq Require Import List Bool Arith.
Import ListNotations.
From TQ Require Import ExcSer ExcSerProofs.

(* ---- totality: with fuel S (length g) the recursion never runs out of fuel, whatever the graph looks like
        (the recursion path is duplicate-free, hence no longer than the graph) *)
Theorem C19_total : forall c g root, wf g -> root < length g -> exists p, prepare c g root = Some p.
Proof. exact prepare_total. Qed.
Print Assumptions C19_total.

Theorem C19_total_roundtrip : forall e g root, wf g -> root < length g -> roundtrip e g root <> OFuel.
Proof. exact roundtrip_no_fuel. Qed.
Print Assumptions C19_total_roundtrip.

(* ---- no escaping exception: store and load succeed, outside two explicitly excluded regions:
        (1) `encodable`: every argument Python's json accepts is also accepted by pydantic's encoder - false for
            lone surrogates: finding D9 (JSON text) and its sibling (dict key, JSON dict), refuted below;
        (2) `no_shadow`: no class name resolves to a non-exception object (C20's gate raises SecurityError then;
            outside the statement's class list) *)
Theorem C19_no_failure_json_partial : forall e g root,
  is_json e -> wf g -> root < length g -> json_opaque g -> encodable e g -> no_shadow g ->
  exists t, roundtrip e g root = OLoaded t.
Proof. exact no_failure_json. Qed.
Print Assumptions C19_no_failure_json_partial.

(* pickle: the only hypothesis is that the wrapper built from individually picklable parts is picklable (measured
   true on every case).  The former third excluded region - a non-exception mixin in the MRO, finding D10 - was
   repaired in /repo (743840e); the defective variant and its witness are in coq/findings/FindingsExcSer.v *)
Theorem C19_no_failure_pickle_partial : forall g root,
  wf g -> root < length g -> wrappable g -> exists t, roundtrip EPickle g root = OLoaded t.
Proof. exact no_failure_pickle. Qed.
Print Assumptions C19_no_failure_pickle_partial.

(* the full-strength "never fails" is false in the faithful model: ValueError("\ud800") with the flags the
   harness measures for it (corpus/C19/d9_lone_surrogate.json): Python's json round-trips the argument, pydantic's
   UTF-8 encoder rejects it *)
Definition d9_arg := mkArg true true false true false true true true true.
Definition d9_node := mkNode true RSelf true true true true false true (LArgs [AEq])
                             [mkMro false true (LArgs [AEq]) true] false true [d9_arg] None None false.
Theorem C19_text_store_refuted :
  exists g, wf g /\ json_opaque g /\ no_shadow g /\ roundtrip EText g 0 = OStoreFail.
Proof.
  exists [d9_node]. split; [apply wfb_iff; reflexivity |]. split; [apply json_opaqueb_iff; reflexivity |].
  split; [| reflexivity]. intros n [E | []] _. subst n. discriminate.
Qed.
Print Assumptions C19_text_store_refuted.

(* ... and ValueError({"\ud800": 1}) (corpus/C19/d9b_surrogate_key_json_dict.json) on the JSON-dict path *)
Definition d9b_arg := mkArg true true false false false false true true true.
Definition d9b_node := mkNode true RSelf false false false false false true (LArgs [AEq])
                              [mkMro false true (LArgs [AEq]) true] false true [d9b_arg] None None false.
Theorem C19_dict_store_refuted :
  exists g, wf g /\ json_opaque g /\ no_shadow g /\ roundtrip EDict g 0 = OStoreFail.
Proof.
  exists [d9b_node]. split; [apply wfb_iff; reflexivity |]. split; [apply json_opaqueb_iff; reflexivity |].
  split; [| reflexivity]. intros n [E | []] _. subst n. discriminate.
Qed.
Print Assumptions C19_dict_store_refuted.

(* ---- class clause, JSON: at every node of the loaded tree - importable, constructible and reconstructible
        (`faithful`) => the original class with every argument in its predicted form; otherwise a same-named
        synthetic class, a generic Exception whose text names the class, the original class with rewritten
        arguments, or (name shadowed) another exception class *)
Theorem C19_class_json : forall e g root t,
  is_json e -> json_opaque g -> roundtrip e g root = OLoaded t -> class_json_ok e g t.
Proof. exact class_json_thm. Qed.
Print Assumptions C19_class_json.

(* ... in the words of the statement, at the root: importable, constructible, reconstructible, every argument
   representable (round-trips to an equal value) => the original class with equal arguments *)
Theorem C19_class : forall e g root t,
  is_json e -> json_opaque g -> roundtrip e g root = OLoaded t ->
  exists n k nm a c x s, nth_error g root = Some n /\ t = LNode root k nm a c x s /\ class_spec_json e n k nm a /\
    (faithful e n = true -> all_eq e n = true -> k = KOrig /\ a = LArgs (map (fun _ => AEq) (n_args n))).
Proof. exact class_root_thm. Qed.
Print Assumptions C19_class.

(* the predicted forms: equal when the argument round-trips to an equal value, its text (repr, else str, else
   the "<Unrepresentable" placeholder) when it is un-encodable *)
Theorem C19_arg_forms : forall e a,
  (a_rt (coder_of e) a = true -> a_eq e a = true -> arg_form e a = AEq) /\
  (a_rt (coder_of e) a = true -> a_eq e a = false -> arg_form e a = AChanged) /\
  (a_rt (coder_of e) a = false -> is_text (arg_form e a) = true /\
       (a_repr_ok a = true -> arg_form e a = ARepr) /\
       (a_repr_ok a = false -> a_str_ok a = true -> arg_form e a = AStr) /\
       (a_repr_ok a = false -> a_str_ok a = false -> arg_form e a = AUnrep)).
Proof. exact arg_form_spec. Qed.
Print Assumptions C19_arg_forms.

Theorem C19_equal_args : forall e n,
  all_eq e n = true -> map (arg_form e) (n_args n) = map (fun _ => AEq) (n_args n).
Proof. exact all_eq_forms. Qed.
Print Assumptions C19_equal_args.

(* ---- class clause, pickle (links are not kept by Python's exception pickling): the original class when
        Python's own pickling works, else the NEAREST exception class of the MRO (mixins skipped) that can be rebuilt and pickled, else the
        wrapper carrying the class name with ensured arguments *)
Theorem C19_class_pickle : forall g root t,
  roundtrip EPickle g root = OLoaded t ->
  exists n k named a, nth_error g root = Some n /\ t = LNode root k named a LNone LNone false /\
                      class_spec_pickle n k named a.
Proof. exact class_pickle_thm. Qed.
Print Assumptions C19_class_pickle.

(* ---- chain clause (JSON): the loaded tree is the unfolding of the graph from the root along every
        duplicate-free path of cause / unsuppressed-context links, same suppress flags, links back to a node
        already on the path cut (chain_ok, ExcSer.v) *)
Theorem C19_chain : forall e g root t,
  is_json e -> json_opaque g -> roundtrip e g root = OLoaded t -> chain_ok g [] root t.
Proof. exact chain_thm. Qed.
Print Assumptions C19_chain.

(* ---- the Boolean statement evaluated on implementation observations is exactly the propositions above *)
Theorem C19_check_chain_is_statement : forall g t path id, chain_okb g path id t = true <-> chain_ok g path id t.
Proof. exact chain_okb_iff. Qed.
Print Assumptions C19_check_chain_is_statement.

Theorem C19_check_class_json_is_statement : forall e g t, class_json_okb e g t = true <-> class_json_ok e g t.
Proof. exact class_json_okb_iff. Qed.
Print Assumptions C19_check_class_json_is_statement.

Theorem C19_check_class_pickle_is_statement : forall n k nm a,
  class_node_pickle n k nm a = true <-> class_spec_pickle n k nm a.
Proof. exact class_node_pickle_iff. Qed.
Print Assumptions C19_check_class_pickle_is_statement.

Theorem C19_model_meets_statement : forall e g root,
  wf g -> root < length g -> json_opaque g -> C19_check e g root (roundtrip e g root) = true.
Proof. exact model_meets_check. Qed.
Print Assumptions C19_model_meets_statement.

(* ---- non-vacuity *)
(* a 4-node graph with a shared node (3, reached from 0 and from 1), a cycle (2 -> 0), a suppressed context, a
   non-importable class (node 1: synthetic stand-in), a constructor that rejects the loaded args (node 2: generic)
   and an un-encodable, un-repr-able argument (node 3) *)
Definition ok_arg := mkArg true true true true true true true true true.
Definition bytes_arg := mkArg false true false false false false true true true.
Definition badrepr_arg := mkArg false true false false false false false false false.
Definition ex_node (res : resolution) (acc : bool) (args : list arg) (c x : option nat) (s : bool) :=
  mkNode true res acc acc acc acc false false LMismatch [mkMro false false LMismatch true] false true args c x s.
Definition ex_graph :=
  [ ex_node RSelf true [ok_arg; bytes_arg] (Some 1) (Some 3) false;
    ex_node RMissing false [ok_arg] (Some 3) (Some 2) false;
    ex_node RSelf false [] (Some 0) (Some 1) true;
    ex_node RSelf true [badrepr_arg] None (Some 0) true ].
Example C19_nonvacuous :
  wf ex_graph /\ json_opaque ex_graph /\ encodable EText ex_graph /\ no_shadow ex_graph /\ wrappable ex_graph /\
  roundtrip EText ex_graph 0 =
    OLoaded (LNode 0 KOrig true (LArgs [AEq; ARepr])
      (LNode 1 KSynth true (LArgs [AEq])
         (LNode 3 KOrig true (LArgs [AUnrep]) LNone LNone true)          (* shared node, first path *)
         (LNode 2 KGeneric true LText LNone LNone true)                  (* cause 0 cut (cycle), context suppressed *)
         false)
      (LNode 3 KOrig true (LArgs [AUnrep]) LNone LNone true)             (* shared node, second path: not cut *)
      false) /\
  roundtrip EPickle ex_graph 0 = OLoaded (LNode 0 KWrap true (LArgs [AEq; AEq]) LNone LNone false).
Proof.
  split; [apply wfb_iff; reflexivity |]. split; [apply json_opaqueb_iff; reflexivity |].
  split. { intros n a Hn Ha Hrt. cbn in Hn.
           repeat (destruct Hn as [E | Hn]; [subst n; cbn in Ha;
             repeat (destruct Ha as [E | Ha]; [subst a; first [reflexivity | discriminate Hrt] |]); contradiction |]).
           contradiction. }
  split. { intros n Hn _. cbn in Hn. repeat (destruct Hn as [E | Hn]; [subst n; discriminate |]). contradiction. }
  split. { intros n Hn. cbn in Hn. repeat (destruct Hn as [E | Hn]; [subst n; reflexivity |]). contradiction. }
  split; vm_compute; reflexivity.
Qed.

(* the pickle cascade reaches each of its stand-ins *)
Example C19_pickle_cascade_nonvacuous :
  let base := mkNode true RMissing false false false false false false LMismatch
                     [mkMro false false LMismatch true; mkMro false true (LArgs [AEq]) true] false true [ok_arg] None None false in
  let native := mkNode true RSelf true true true true false true (LArgs [AEq]) [] false true [ok_arg] None None false in
  roundtrip EPickle [base] 0 = OLoaded (LNode 0 (KBase 1) false (LArgs [AEq]) LNone LNone false) /\
  roundtrip EPickle [native] 0 = OLoaded (LNode 0 KOrig true (LArgs [AEq]) LNone LNone false).
Proof. vm_compute. split; reflexivity. Qed.
