(* C07 - the stored result faithfully reflects the outcome of the execution. *)
From Coq Require Import List ZArith Bool Arith.
From TQ Require Import Base BaseProofs Pipeline PipelineProofs PipelineHooks.
Import ListNotations.

(* exactly one set_result per execution - none iff the final result is the no-result signal (raised by the
   function, or substituted by an on_error / post_execute hook as the retry middleware does) - stored under the
   id of the message the function was run with, and it is the result object run_task assembled, as left by the
   hooks (res2).  A raising post_save hook changes nothing (no totality hypothesis on post_save).
   Excluded region: sync function raising GeneratorExit (finding D10, refuted below). *)
Theorem C07_one_save : forall c, wf_recv c ->
  countb is_savebegin (callback c) = (if is_nores (res2 c) then 0 else 1) /\
  (forall i r, In (FSaveBegin i r) (callback c) -> i = m_id (run_msg c) /\ r = res2 c).
Proof. exact one_save. Qed.
Print Assumptions C07_one_save.

(* what run_task assembles: is_err = not returned, the return value or the exception of THIS execution, and the
   labels of the message it was run with *)
Theorem C07_result_reflects : forall m o,
  r_lab (raw_res m o) = m_lab m /\
  match o with
  | BRet v => r_err (raw_res m o) = false /\ r_val (raw_res m o) = Some v /\ r_exc (raw_res m o) = None
  | BRaise e => r_err (raw_res m o) = true /\ r_val (raw_res m o) = None /\ r_exc (raw_res m o) = Some e
  end.
Proof. exact raw_res_reflects. Qed.
Print Assumptions C07_result_reflects.

(* with hooks that leave the result object alone, what is saved is exactly that raw result of the outcome `found c` *)
Theorem C07_saved_is_outcome : forall c, wf_recv c ->
  Forall (fun w => match h_on_error w with Some f => forall y, f y = Some y | None => True end) (c_stack c) ->
  Forall (fun w => match h_post_exec w with Some f => forall y, f y = Some y | None => True end) (c_stack c) ->
  res2 c = raw_res (run_msg c) (found c).
Proof.
  intros c _ H1 H2. unfold res2, res1. rewrite (fold_hook_id _ _ _ H2).
  destruct (is_raise (found c)); [apply fold_hook_id; assumption|reflexivity].
Qed.
Print Assumptions C07_saved_is_outcome.

(* the timeout label (of the message the function is run with) is enforced for coroutine functions:
   duration > timeout => TimeoutError; timeout <= 0 => TimeoutError and the body never starts;
   duration < timeout => the body's own outcome.  duration = timeout is the event loop's choice (c_tie). *)
Theorem C07_timeout : forall c m t, c_async c = true -> c_dep c <> DFail -> m_tmo m = Some t ->
  ((c_dur c > t)%Z -> snd (try_block c m) = BRaise E_TIMEOUT) /\
  ((t <= 0)%Z -> snd (try_block c m) = BRaise E_TIMEOUT /\ ~ In FTaskStart (fst (try_block c m))) /\
  ((0 < t)%Z -> (c_dur c < t)%Z -> snd (try_block c m) = c_out c /\ In (FTaskEnd (BEnded (c_out c))) (fst (try_block c m))).
Proof. exact timeout_enforced. Qed.
Print Assumptions C07_timeout.

Theorem C07_no_timeout_label : forall c m, c_dep c <> DFail -> m_tmo m = None -> snd (try_block c m) = c_out c.
Proof. exact no_timeout_label. Qed.
Print Assumptions C07_no_timeout_label.

(* a failing backend: same run with FSaveOk replaced by FSaveErr and the post_save hooks removed; the message
   completes (when_saved ack, normal return) *)
Theorem C07_backend_isolated : forall c, wf_strict c -> is_nores (res2 c) = false ->
  exists A B,
    callback (set_save_ok c true) = A ++ FSaveOk :: ev_post_save c ++ B /\
    callback (set_save_ok c false) = A ++ FSaveErr :: B /\
    B = acks c AckSaved ++ [FDone].
Proof. exact backend_isolated. Qed.
Print Assumptions C07_backend_isolated.

(* ... and completes for ANY backend result, raising post_save hooks included *)
Theorem C07_completes : forall c, wf_recv c -> last (callback c) (FCrash XHook) = FDone.
Proof. intros c W. apply (ack_exactly_once c W). Qed.
Print Assumptions C07_completes.

(* ... and no other message of a concurrent run is affected by what happens to this one *)
Theorem C07_others_unaffected : forall cs cs' g g' j,
  Interleave (map callback cs) g -> Interleave (map callback cs') g' ->
  nth_error cs j = nth_error cs' j -> project j g = project j g'.
Proof. exact others_unaffected. Qed.
Print Assumptions C07_others_unaffected.

(* Finding D10: in the excluded region the full statement is false - an execution whose outcome is an exception
   other than the no-result signal, and nothing is stored *)
Theorem C07_one_save_refuted_sync_genexit : exists c,
  c_kind c = KOk /\ c_raise_err c = false /\ c_stack c = [] /\ c_out c = BRaise E_GENEXIT /\ c_async c = false /\
  countb is_savebegin (callback c) = 0 /\ last (callback c) FDone = FCrash XGenExit.
Proof.
  exists (mkcfg KOk (mkmsg 1 0 None) true AckSaved [] DNone true false 0%Z (BRaise E_GENEXIT) true false true false).
  vm_compute. repeat split.
Qed.
Print Assumptions C07_one_save_refuted_sync_genexit.

(* non-vacuity *)
Definition retry_like : mw :=
  mkmw None None None (Some (fun r => Some (mkres (r_err r) (r_val r) (Some E_NORESULT) (r_lab r)))) None None.
Example C07_nonvacuous :
  countb is_savebegin (callback (mkcfg KOk (mkmsg 1 0 (Some 5000%Z)) true AckSaved [] DNone true true 7000%Z
                                       (BRet 3) true false true false)) = 1
  /\ In (FSaveBegin 1 (mkres true None (Some E_TIMEOUT) 0))
        (callback (mkcfg KOk (mkmsg 1 0 (Some 5000%Z)) true AckSaved [] DNone true true 7000%Z
                         (BRet 3) true false true false))
  /\ countb is_savebegin (callback (mkcfg KOk (mkmsg 1 0 None) true AckSaved [retry_like] DNone true true 0%Z
                                          (BRaise 3) true false true false)) = 0
  /\ countb is_savebegin (callback (mkcfg KOk (mkmsg 1 0 None) true AckSaved [retry_like] DNone true true 0%Z
                                          (BRet 3) true false false false)) = 1.
Proof. repeat split; vm_compute; auto 10. Qed.
