(* C13 - a cron schedule is due exactly in the minutes its expression matches. *)
From Coq Require Import ZArith List Bool.
From TQ Require Import SchedDelay Civil CivilProofs Cron CronProofs.
Import ListNotations.
Open Scope Z_scope.

(* ------------------------------------------------------------------ civil time *)

(* days -> (y, m, d) -> days is the identity, for every day number *)
Theorem C13_civil_inverse : forall z, let '(y, m, d) := civil_from_days z in days_from_civil y m d = z.
Proof. exact civil_roundtrip. Qed.
Print Assumptions C13_civil_inverse.

(* ... and (y, m, d) -> days -> (y, m, d) is the identity on every valid Gregorian date *)
Theorem C13_civil_inverse_valid : forall y m d, 1 <= m <= 12 -> 1 <= d <= days_in_month y m ->
  civil_from_days (days_from_civil y m d) = (y, m, d).
Proof. exact civil_inverse_valid. Qed.
Print Assumptions C13_civil_inverse_valid.

(* the fields read from an instant are in range, and the day is a day of that month of that year *)
Theorem C13_field_ranges : forall t, let fl := fields_of t in
  0 <= f_minute fl <= 59 /\ 0 <= f_hour fl <= 23 /\ 1 <= f_dom fl <= 31 /\ 1 <= f_month fl <= 12 /\
  0 <= f_dow fl <= 6 /\ f_dom fl <= days_in_month (f_year fl) (f_month fl).
Proof. exact fields_ranges. Qed.
Print Assumptions C13_field_ranges.

(* the fields (with the year) name exactly the minute the instant lies in *)
Theorem C13_fields_inverse : forall t, minute_of_fields (fields_of t) * MIN = floor_minute t.
Proof. exact fields_inverse_instant. Qed.
Print Assumptions C13_fields_inverse.

(* every valid civil minute is the reading of every instant of that minute (weekday by Zeller's congruence) *)
Theorem C13_fields_of_civil : forall y m d h mi s,
  1 <= m <= 12 -> 1 <= d <= days_in_month y m -> 0 <= h <= 23 -> 0 <= mi <= 59 -> 0 <= s < MIN ->
  fields_of ((days_from_civil y m d * 1440 + h * 60 + mi) * MIN + s) = mkF mi h d m (weekday_of_civil y m d) y.
Proof. exact fields_of_civil. Qed.
Print Assumptions C13_fields_of_civil.

(* weekday: 7-periodic, advances by one per day, the epoch day 1970-01-01 is a Thursday (4, with 0 = Sunday),
   and it is the weekday Zeller's congruence assigns to the civil date *)
Theorem C13_weekday : (forall d, weekday_of_days (d + 7) = weekday_of_days d) /\
  (forall d, weekday_of_days (d + 1) = (weekday_of_days d + 1) mod 7) /\
  civil_from_days 0 = (1970, 1, 1) /\ weekday_of_days 0 = 4 /\
  (forall t, let fl := fields_of t in f_dow fl = weekday_of_civil (f_year fl) (f_month fl) (f_dom fl)).
Proof.
  exact (conj weekday_week (conj weekday_succ (conj (proj1 epoch_is_thursday) (conj (proj2 epoch_is_thursday)
         fields_dow_zeller)))).
Qed.
Print Assumptions C13_weekday.

(* ------------------------------------------------------------------ the matcher *)

(* match_field is the relational denotation of the field (lo = first value of the field's range) *)
Theorem C13_spec : forall lo f v, wf_field f = true -> lo <= v ->
  (match_field lo f v = true <-> in_field lo f v).
Proof. exact match_field_spec. Qed.
Print Assumptions C13_spec.

(* the set-expansion reading (each field expanded to the values it names inside its range, as Vixie cron's
   bit sets) agrees with the matcher on every value of the range *)
Theorem C13_expand_spec : forall lo hi f v, 0 <= lo -> lo <= v <= hi -> wf_field f = true ->
  memZ v (expand_field lo hi f) = match_field lo f v.
Proof. exact expand_field_spec. Qed.
Print Assumptions C13_expand_spec.

(* the Boolean form evaluated on every implementation observation (built on the set expansion, not on the
   matcher) is the statement: "returned 0 and the expression matches the minute of the shifted clock, or
   returned None and it does not" *)
Theorem C13_check_is_statement : forall e sh now obs, wf_expr e = true ->
  (C13_check e sh now obs = true <->
   (obs = Some 0 /\ Matches e (fields_of (floor_minute (now + sh)))) \/
   (obs = None /\ ~ Matches e (fields_of (floor_minute (now + sh))))).
Proof. exact check_is_statement. Qed.
Print Assumptions C13_check_is_statement.

Section Zones.
  Variable tzoff : nat -> Z -> Z.     (* pytz: UTC offset of zone z at instant t, microseconds *)

  Theorem C13_due_iff : forall e off now, wf_expr e = true ->
    (cron_due tzoff e off now = true <-> Matches e (fields_of (floor_minute (now + shift tzoff off now)))).
  Proof. exact (due_iff tzoff). Qed.

  (* two instants whose shifted clocks lie in the same minute get the same answer *)
  Theorem C13_seconds_irrelevant : forall e off now1 now2,
    floor_minute (now1 + shift tzoff off now1) = floor_minute (now2 + shift tzoff off now2) ->
    cron_due tzoff e off now1 = cron_due tzoff e off now2.
  Proof. exact (seconds_irrelevant tzoff). Qed.

  (* in particular: same UTC minute, same whole-minute shift (no offset, whole-minute timedelta, a zone
     between two of its transitions) *)
  Theorem C13_seconds_irrelevant_whole_minutes : forall e off now1 now2,
    shift tzoff off now1 = shift tzoff off now2 -> (shift tzoff off now1) mod MIN = 0 ->
    floor_minute now1 = floor_minute now2 ->
    cron_due tzoff e off now1 = cron_due tzoff e off now2.
  Proof. exact (seconds_irrelevant_whole_minutes tzoff). Qed.

  (* no offset = UTC: the zone data is not consulted, and it is the timedelta 0 *)
  Theorem C13_utc_default : forall e now,
    cron_due tzoff e NoOffset now = matches_b e (fields_of now) /\
    cron_due tzoff e NoOffset now = cron_due tzoff e (Delta 0) now /\
    (wf_expr e = true -> (cron_due tzoff e NoOffset now = true <-> Matches e (fields_of (floor_minute now)))).
  Proof.
    intros e now. exact (conj (utc_default tzoff e now) (conj (utc_default_delta0 tzoff e now)
                          (utc_default_iff tzoff e now))).
  Qed.

  (* get_task_delay returns 0 exactly when due and None otherwise *)
  Theorem C13_delay : forall e off now,
    (cron_delay tzoff e off now = Some 0 /\ cron_due tzoff e off now = true) \/
    (cron_delay tzoff e off now = None /\ cron_due tzoff e off now = false).
  Proof. exact (delay_cases tzoff). Qed.

  Theorem C13_model_meets_statement : forall e off now, wf_expr e = true ->
    C13_check e (shift tzoff off now) now (cron_delay tzoff e off now) = true.
  Proof. exact (model_meets_check tzoff). Qed.

  (* read on the calendar: when the shifted clock shows y-m-d h:mi (any second of it), due <-> the expression
     matches that civil minute, with the weekday given by Zeller's congruence *)
  Theorem C13_due_at_civil : forall e off now y m d h mi s, wf_expr e = true ->
    1 <= m <= 12 -> 1 <= d <= days_in_month y m -> 0 <= h <= 23 -> 0 <= mi <= 59 -> 0 <= s < MIN ->
    now + shift tzoff off now = (days_from_civil y m d * 1440 + h * 60 + mi) * MIN + s ->
    (cron_due tzoff e off now = true <-> Matches e (mkF mi h d m (weekday_of_civil y m d) y)).
  Proof. exact (due_at_civil tzoff). Qed.
End Zones.
Print Assumptions C13_due_iff.
Print Assumptions C13_seconds_irrelevant.
Print Assumptions C13_seconds_irrelevant_whole_minutes.
Print Assumptions C13_utc_default.
Print Assumptions C13_delay.
Print Assumptions C13_model_meets_statement.
Print Assumptions C13_due_at_civil.

(* "including across daylight-saving changes", for ANY offset function with a transition at T.
   Spring forward by g: no instant shows a wall clock inside the skipped interval [T+o, T+o+g). *)
Theorem C13_dst_gap_never_read : forall (tzoff : nat -> Z -> Z) z T o g, 0 < g ->
  (forall t, t < T -> tzoff z t = o) -> (forall t, T <= t -> tzoff z t = o + g) ->
  forall now, ~ (T + o <= now + shift tzoff (Zone z) now < T + o + g).
Proof. exact dst_gap_never_read. Qed.
Print Assumptions C13_dst_gap_never_read.

(* Fall back by g: every reading L of the repeated interval is shown at the two instants L-o and L-o+g, and the
   schedule gets the same answer at both (a schedule in the repeated hour is due twice). *)
Theorem C13_dst_overlap_twice : forall (tzoff : nat -> Z -> Z) z T o g e L, 0 < g ->
  (forall t, t < T -> tzoff z t = o) -> (forall t, T <= t -> tzoff z t = o - g) ->
  T + o - g <= L < T + o ->
  (L - o) + shift tzoff (Zone z) (L - o) = L /\ (L - o + g) + shift tzoff (Zone z) (L - o + g) = L /\
  cron_due tzoff e (Zone z) (L - o) = cron_due tzoff e (Zone z) (L - o + g).
Proof. exact dst_overlap_twice. Qed.
Print Assumptions C13_dst_overlap_twice.

(* ------------------------------------------------------------------ non-vacuity *)
(* 2026-03-29T01:30:00Z, Europe/Berlin just after the spring-forward (+2 h): local 03:30 on Sunday 29 March *)
Example C13_example_zone :
  let tz := fun (_ : nat) (_ : Z) => 7200000000 in
  let e := mkE (Items [Num 30]) (Items [Range 3 4]) Star (Items [Num 3]) (Items [Num 0]) in
  wf_expr e = true /\
  cron_due tz e (Zone 0) 1774747800000000 = true /\ cron_due tz e NoOffset 1774747800000000 = false /\
  cron_due tz e (Delta (-3600000000)) 1774747800000000 = false /\
  cron_due tz e (Zone 0) (1774747800000000 + 59999999) = true /\
  cron_due tz e (Zone 0) (1774747800000000 + 60000000) = false.
Proof. vm_compute. repeat split. Qed.

(* the OR rule: day 13 or Friday; 2026-02-13 is a Friday, 2026-02-14 (Saturday) matches neither, 2026-02-20 is a
   Friday that is not the 13th, and with a star form in the weekday field the rule is AND *)
Example C13_example_day_rule :
  let tz := fun (_ : nat) (_ : Z) => 0 in
  let e := mkE (Items [Num 0]) (Items [Num 0]) (Items [Num 13]) Star (Items [Num 5]) in
  let e' := mkE (Items [Num 0]) (Items [Num 0]) (Items [Num 13]) Star (StarStep 5) in
  cron_due tz e NoOffset 1770940800000000 = true /\ cron_due tz e NoOffset (1770940800000000 + 86400000000) = false /\
  cron_due tz e NoOffset (1770940800000000 + 7 * 86400000000) = true /\
  cron_due tz e' NoOffset (1770940800000000 + 7 * 86400000000) = false /\
  cron_due tz e' NoOffset 1770940800000000 = true.
Proof. vm_compute. repeat split. Qed.
