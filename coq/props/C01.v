(* C01 - every message taken from the broker is executed exactly once (receiver level: look-ahead, hand-over queue,
   runner; what happens inside one callback is Pipeline.v, C02/C07/C10). *)
From Coq Require Import List Arith Bool Lia Permutation.
Import ListNotations.
From TQ Require Import RecvLTS RecvLTSProofs RecvLTSFlow RecvLTSThms FindingsRecv.

(* never two: a callback task is spawned at most once per message, and only for messages taken from the broker *)
Theorem C01_at_most_once : forall c tr s,
  run c (init c) tr = Some s -> NoDup (started s) /\ incl (started s) (taken s).
Proof. intros c tr s Hr. apply started_nodup. apply (i_flow c s). eapply reach_inv; eauto. Qed.
Print Assumptions C01_at_most_once.

(* never nowhere: in every reachable state nothing is lost, and the taken messages, oldest first, are exactly
   the started ones, then the hand-over queue, then the look-ahead (FIFO conservation) *)
Theorem C01_none_dropped : forall c tr s,
  run c (init c) tr = Some s ->
  lost s = [] /\ rev (taken s) = rev (started s) ++ qids (queue s) ++ la_ids (look s).
Proof.
  intros c tr s Hr. destruct (reach_fix c tr s Hr) as (X1 & _). split; [exact X1|].
  destruct (i_flow c s (reach_inv false c tr s Hr)) as (F1 & _). rewrite X1 in F1. simpl in F1.
  rewrite app_nil_r in F1. exact F1.
Qed.
Print Assumptions C01_none_dropped.

(* when prefetcher and runner have returned every taken message has been started; if no callback is still running
   (return through `all done' or with no live task) every taken message has finished, exactly once *)
Theorem C01_all_run_at_return : forall c tr s,
  run c (init c) tr = Some s -> pf s = PFDone -> rn s = RNDone ->
  taken s = started s /\ (live s = [] -> Permutation (taken s) (finished s) /\ NoDup (finished s)).
Proof.
  intros c tr s Hr Ep Er. pose proof (reach_inv false c tr s Hr) as Hi. destruct (reach_fix c tr s Hr) as (X1 & _).
  split; [eapply all_started; eauto|]. intros Hl. pose proof (all_run_at_return c s Hi X1 Ep Er Hl) as Pm.
  split; [exact Pm|]. eapply Permutation_NoDup; [exact Pm|]. destruct (i_flow c s Hi) as (_ & F2 & _). exact F2.
Qed.
Print Assumptions C01_all_run_at_return.

(* listen() returns only after both have returned, so the same holds at the return of listen() *)
Theorem C01_all_run_at_listen_return : forall c tr s,
  run c (init c) tr = Some s -> ret s = true -> live s = [] -> Permutation (taken s) (finished s).
Proof.
  intros c tr s Hr Et Hl. pose proof (reach_inv false c tr s Hr) as Hi. destruct (i_ret c s Hi) as [_ R2].
  destruct (R2 Et) as [Ep Er]. destruct (C01_all_run_at_return c tr s Hr Ep Er) as [_ H]. apply H. exact Hl.
Qed.
Print Assumptions C01_all_run_at_listen_return.

(* a message that is skipped (malformed / unknown task) is for the receiver a callback like any other: the LTS has one
   ECbEnd / ECbDone for every way a callback ends, so all theorems above hold whatever the kinds of the messages; the
   effect sequence of a skipped message is C01_skip_isolated in Pipeline.v *)

Theorem C01_check_holds : forall c tr, run c (init c) tr <> None -> scan c (C01_check c) (init c) tr = true.
Proof. exact C01_scan_true. Qed.
Print Assumptions C01_check_holds.

(* the defect D1 that was repaired in /repo (2fad6db): the defective model variant drops a message *)
Theorem C01_none_dropped_refuted_before_fix :
  exists c tr s, grun true c (init c) tr = Some s /\ ret s = true /\ lost s = [2] /\ mem 2 (taken s) = true /\ mem 2 (started s) = false.
Proof. exact C01_none_dropped_refuted. Qed.
Print Assumptions C01_none_dropped_refuted_before_fix.

(* non-vacuity: a complete run with the budget N = 2 and a backlog: exactly 0 and 1 are taken, both finish, listen returns *)
Example C01_budget_run :
  let c := mkcfg (Some 1) 0 (Some 2) false in
  exists tr s, run c (init c) tr = Some s /\ ret s = true /\ taken s = [1; 0] /\ finished s = [1; 0] /\ lost s = [].
Proof.
  exists [EPfCheck false; ERnAcquire; ETake 0; EPfAcquire; EPfGot 0 true; EPfCheck false; ETake 1; ERnGet (IMsg 0);
          ECbEnd 0; ECbDone 0 true; ERnAcquire; EPfAcquire; EPfGot 1 false; EPfCheck false; ERnGet (IMsg 1);
          ECbEnd 1; ECbDone 1 true; ERnAcquire; EPfAcquire; EPfExit; ERnGet IDone; EReturn].
  eexists. split; [vm_compute; reflexivity | repeat split; reflexivity].
Qed.
