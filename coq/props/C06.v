(* C06 - concurrent executions are isolated; results are bound to their own task id. *)
From Coq Require Import List Bool.
From TQ Require Import Deps DepsProofs FindingsDeps.
Import ListNotations.

(* Every action sequence the model can run from the initial state - i.e. every interleaving of the steps of any
   number of executions (ids are arbitrary naturals, nothing bounds their number or the number of resolver
   contexts) - produces only own values: a dependency or task function of execution i that reads Context from any
   of its resolver contexts gets i's Context, the body gets i's arguments, and set_result is called with i's task
   id and the value i's body produced. *)
Theorem C06_isolated : forall acts vals, run begin_copy init acts = Some vals ->
  forall k,
    (forall i c, nth_error acts k = Some (ARead i c) -> nth_error vals k = Some (VCtx (Some i))) /\
    (forall i, nth_error acts k = Some (ABody i) -> nth_error vals k = Some (VMsg i)) /\
    (forall i, nth_error acts k = Some (ASave i) ->
       nth_error vals k = Some (VSaved i None) \/ nth_error vals k = Some (VSaved i (Some i))).
Proof. exact isolated. Qed.
Print Assumptions C06_isolated.

(* the Boolean form evaluated on implementation observations *)
Theorem C06_check_model : forall acts vals, run begin_copy init acts = Some vals -> C06_check acts vals = true.
Proof. intros acts vals. exact (run_own acts init vals inv_init). Qed.
Print Assumptions C06_check_model.

(* nothing blocks: the runs of the model include every interleaving of well-formed executions *)
Theorem C06_enabled : forall st, reachable st ->
  (forall i, execs st i = None -> exists st', step begin_copy st (ABegin i) = Some (st', VUnit)) /\
  (forall i e c, execs st i = Some e -> ex_cache e c = None ->
     exists st', step begin_copy st (ATraverse i c) = Some (st', VUnit)) /\
  (forall i e c a, execs st i = Some e -> ex_cache e c = Some a ->
     step begin_copy st (ARead i c) = Some (st, VCtx (Some i))) /\
  (forall i e, execs st i = Some e -> step begin_copy st (ABody i) = Some (st, VMsg i)) /\
  (forall i e, execs st i = Some e -> exists st', step begin_copy st (AResult i) = Some (st', VUnit)) /\
  (forall i e, execs st i = Some e -> step begin_copy st (ASave i) = Some (st, VSaved i (ex_ret e))).
Proof. exact enabled. Qed.
Print Assumptions C06_enabled.

(* the repaired defect D2: handing the shared dict by reference breaks isolation with 2 executions in 5 steps *)
Theorem C06_isolated_refuted :
  exists acts vals, length acts = 5 /\ run begin_shared init acts = Some vals /\
                    nth_error acts 4 = Some (ARead 0 1) /\ nth_error vals 4 = Some (VCtx (Some 1)) /\
                    C06_check acts vals = false.
Proof. exact C06_isolated_refuted_shared. Qed.
Print Assumptions C06_isolated_refuted.

(* a seeded variant (never in /repo): copying only when a per-task test p says so breaks isolation as soon as p is
   false for an execution that nevertheless creates a sub-context (dependency_overrides adding a use_cache=False
   dependency the prepared graph did not have) *)
Theorem C06_isolated_refuted_conditional_copy : forall p, p 0 = false ->
  exists vals, run (begin_cond p) init d2_witness = Some vals /\ C06_check d2_witness vals = false.
Proof. exact FindingsDeps.C06_isolated_refuted_conditional_copy. Qed.
Print Assumptions C06_isolated_refuted_conditional_copy.

(* non-vacuity: three executions, interleaved, with sub-contexts traversed late *)
Example C06_three_executions :
  run begin_copy init
    [ABegin 0; ATraverse 0 0; ABegin 1; ATraverse 1 0; ARead 0 0; ABegin 2; ATraverse 0 1; ARead 0 1;
     ATraverse 2 0; ATraverse 1 1; ARead 1 1; ABody 1; ARead 2 0; ABody 0; AResult 1; ASave 1; ABody 2; AResult 0;
     ASave 0; ASave 2]
  = Some [VUnit; VUnit; VUnit; VUnit; VCtx (Some 0); VUnit; VUnit; VCtx (Some 0);
          VUnit; VUnit; VCtx (Some 1); VMsg 1; VCtx (Some 2); VMsg 0; VUnit; VSaved 1 (Some 1); VMsg 2; VUnit;
          VSaved 0 (Some 0); VSaved 2 None].
Proof. vm_compute. reflexivity. Qed.
