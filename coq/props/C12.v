(* C12 - dependencies are torn down exactly once, before the result becomes visible. *)
From Coq Require Import List Bool Permutation.
From TQ Require Import Deps DepsProofs.
Import ListNotations.

(* ---- exactly once: for EVERY context tree (a partially opened tree - resolution failure part-way - is a tree) *)
Theorem C12_exactly_once : forall (pe a : bool) (c : rctx),
  Permutation (open_order c) (map fst (close_ctx pe a c)).
Proof. exact close_ctx_perm. Qed.
Print Assumptions C12_exactly_once.

Theorem C12_exactly_once_nodup : forall c : rctx, NoDup (open_order c) -> NoDup (close_order c).
Proof. exact exactly_once_nodup. Qed.
Print Assumptions C12_exactly_once_nodup.

(* ... in the effects of one execution, whatever the configuration, the tree and the way resolution / the body ended *)
Theorem C12_exactly_once_execution : forall cf c r,
  Permutation (opened_ids (callback_effs cf c r)) (closed_ids (callback_effs cf c r)).
Proof. exact exactly_once_callback. Qed.
Print Assumptions C12_exactly_once_execution.

(* ---- after the task function / the failing dependency finished, before the result is stored or the message
        acknowledged after execution *)
Theorem C12_before_visible : forall cf c r l1 x l2,
  callback_effs cf c r = l1 ++ x :: l2 -> is_close x = true ->
  (forall y, In y l1 -> is_visible y = false) /\ (exists y, In y l1 /\ is_finish y = true).
Proof. exact before_visible_one. Qed.
Print Assumptions C12_before_visible.

(* ---- the same for every interleaving of any number n of concurrent executions *)
Theorem C12_before_visible_concurrent : forall n cf c r g, Interleave (all_effs n cf c r) g ->
  forall l1 i d s l2, g = l1 ++ (i, FClose d s) :: l2 ->
  (forall y, In (i, y) l1 -> is_visible y = false) /\ (exists y, In (i, y) l1 /\ is_finish y = true).
Proof. exact before_visible_concurrent. Qed.
Print Assumptions C12_before_visible_concurrent.

Theorem C12_exactly_once_concurrent : forall n cf c r g, Interleave (all_effs n cf c r) g ->
  forall i, Permutation (opened_ids (project i g)) (closed_ids (project i g)).
Proof. exact exactly_once_concurrent. Qed.
Print Assumptions C12_exactly_once_concurrent.

(* ---- the exception is thrown into a dependency iff propagation is enabled (and there is an exception) *)
Theorem C12_propagation : forall cf c r d s,
  In (FClose d s) (callback_effs cf c r) -> s = found_exception r && propagate cf.
Proof. exact propagation_callback. Qed.
Print Assumptions C12_propagation.

Theorem C12_propagation_concurrent : forall n cf c r g, Interleave (all_effs n cf c r) g ->
  forall i d s, In (i, FClose d s) g -> s = found_exception (r i) && propagate (cf i).
Proof. exact propagation_concurrent. Qed.
Print Assumptions C12_propagation_concurrent.

(* the four styles, for a context created with propagate_excs = pe and closed with/without exc-info a *)
Theorem C12_propagation_styles : forall pe a d s,
  snd (close_dep pe a (d, s)) = match s with SGen | SAGen => pe && a | SCm | SACm => a end.
Proof. exact saw_dep_styles. Qed.
Print Assumptions C12_propagation_styles.

(* ---- reverse order of opening: refuted by the faithful model (known finding D6), true without sub-contexts *)
Theorem C12_reverse_refuted : exists c : rctx,
  NoDup (open_order c) /\ open_order c = [0; 1] /\ close_order c = [0; 1] /\ close_order c <> rev (open_order c).
Proof. exact reverse_refuted. Qed.
Print Assumptions C12_reverse_refuted.

Theorem C12_reverse_partial : forall c : rctx, has_sub c = false -> close_order c = rev (open_order c).
Proof. exact reverse_partial. Qed.
Print Assumptions C12_reverse_partial.

(* the strongest restriction that is true: whenever two dependencies are finalised in the same relative order in
   which they were opened (= an order violation), the earlier one was opened inside a sub-context - the context of a
   use_cache=False dependency - that does not contain the later one.  This is exactly the signature of the known
   finding; nothing broader can happen in the model. *)
Theorem C12_reverse_partial_sharp : forall (c : rctx) x y,
  NoDup (open_order c) -> before (open_order c) x y -> before (close_order c) x y ->
  exists s, SubOf c s /\ In x (open_order s) /\ ~ In y (open_order s).
Proof. exact reverse_partial_sharp. Qed.
Print Assumptions C12_reverse_partial_sharp.

(* ---- the Boolean form evaluated on implementation observations holds on every execution of the model *)
Theorem C12_check_model : forall cf c r, NoDup (open_order c) -> C12_check cf c r (callback_effs cf c r) = true.
Proof. exact check_model. Qed.
Print Assumptions C12_check_model.

(* ---- projections of an interleaving are the executions *)
Theorem C12_interleave_project : forall n cf c r g i, Interleave (all_effs n cf c r) g ->
  project i g = if Nat.ltb i n then callback_effs (cf i) (c i) (r i) else [].
Proof. exact project_concurrent. Qed.
Print Assumptions C12_interleave_project.

(* non-vacuity *)
Definition cf0 := {| propagate := true; ack := AExecuted; ackable := true; has_mw := true; save_ok := true |}.
Definition tree0 : rctx := [Own 0 SGen; Sub [Own 1 SACm; Sub [Own 2 SAGen]]; Own 3 SCm].
Example C12_execution_example :
  callback_effs cf0 tree0 (RDone ORaise) =
  [FBegin; FOpen 0; FOpen 1; FOpen 2; FOpen 3; FTaskStart; FTaskEnd ORaise;
   FClose 2 true; FClose 1 true; FClose 3 true; FClose 0 true; FOnError; FAck AExecuted; FSave].
Proof. vm_compute. reflexivity. Qed.
Example C12_failure_example :
  callback_effs {| propagate := false; ack := ASaved; ackable := true; has_mw := false; save_ok := true |}
                [Own 0 SGen; Own 1 SCm] RFail =
  [FBegin; FOpen 0; FOpen 1; FDepFail; FClose 1 false; FClose 0 false; FSave; FAck ASaved].
Proof. vm_compute. reflexivity. Qed.
Example C12_sharp_nonvacuous :
  before (open_order d6_witness) 0 1 /\ before (close_order d6_witness) 0 1 /\
  SubOf d6_witness [Own 0 SGen] /\ In 0 (open_order [Own 0 SGen]) /\ ~ In 1 (open_order [Own 0 SGen]).
Proof.
  repeat split.
  - exists [], [1]. split; [reflexivity | now left].
  - exists [], [1]. split; [reflexivity | now left].
  - apply sub_here. now left.
  - now left.
  - simpl. intuition discriminate.
Qed.
Example C12_interleave_example :
  Interleave (all_effs 2 (fun _ => cf0) (fun i => [Own i SGen]) (fun _ => RDone OReturn))
    [(0, FBegin); (1, FBegin); (1, FOpen 1); (0, FOpen 0); (0, FTaskStart); (1, FTaskStart); (1, FTaskEnd OReturn);
     (1, FClose 1 false); (0, FTaskEnd OReturn); (1, FAck AExecuted); (0, FClose 0 false); (0, FAck AExecuted);
     (0, FSave); (1, FSave)].
Proof.
  unfold all_effs. cbn.
  repeat (eapply il_cons; [cbn; reflexivity | cbn]).
  apply il_nil. repeat constructor.
Qed.
