(* C20 - loading a stored error never instantiates anything but an exception class.
   Every theorem holds for every environment (any finite sys.modules, any attribute trees), every
   entry point and every payload tree of any depth. *)
From Coq Require Import List NArith Bool.
From TQ Require Import LoadGate LoadGateProofs LoadGateMutants.
Import ListNotations.
Open Scope N_scope.

(* never calls a function, never instantiates a class that is not a BaseException subclass,
   never imports a module *)
Theorem C20_only_exceptions : forall en e r f,
  In f (snd (load en e r)) ->
  match f with
  | Instantiate t => is_exception_class t = true
  | Synthesize _ _ => True
  | Call _ => False
  | Import _ => False
  end.
Proof. exact only_exceptions. Qed.
Print Assumptions C20_only_exceptions.

(* ... and the environment objects that are instantiated are exactly objects reached by
   sys.modules[exc_module] followed by getattr steps *)
Theorem C20_instantiated_reachable : forall e p o,
  In (Instantiate (TEnv o)) (snd (conv e p)) -> reachable e o.
Proof. exact conv_inst_reachable. Qed.
Print Assumptions C20_instantiated_reachable.

(* the outcome, fully characterised: an exception instance (None only for a None payload), SecurityError,
   ValidationError; the two remaining outcomes occur only in the stated circumstances *)
Theorem C20_outcome : forall en e r,
  match fst (load en e r) with
  | ROk None => r = RNone
  | ROk (Some _) => r <> RNone
  | RSecurity => True
  | RValidation => validate r = None \/ (en <> EDirect /\ all_names_ok r = false)
  | RValueError => en = EDirect /\ all_names_ok r = false
  | RPropagated i => exists o, In (Instantiate (TEnv o)) (snd (load en e r)) /\ reachable e o /\
                               okind o = KExc CtorRaisesBase /\ oid o = i
  | RWeird => False
  end.
Proof. exact outcome. Qed.
Print Assumptions C20_outcome.

(* the plain reading of the statement; the two exclusions are (1) a stored type name that CPython's type()
   refuses as a class name (NUL or surrogate code point): ValueError through the bare exception_to_python,
   ValidationError through TaskiqResult; (2) a loaded exception class whose own constructor raises a
   non-Exception BaseException *)
Theorem C20_outcome_plain : forall en e r,
  all_names_ok r = true ->
  (forall o, reachable e o -> okind o <> KExc CtorRaisesBase) ->
  match fst (load en e r) with
  | ROk None => r = RNone
  | ROk (Some _) | RSecurity | RValidation => True
  | _ => False
  end.
Proof. exact outcome_plain. Qed.
Print Assumptions C20_outcome_plain.

(* an ill-typed node anywhere in the tree: ValidationError and no effect at all *)
Theorem C20_illtyped : forall en e r pa q,
  raw_sub_at r pa = Some q -> bad_node q = true -> load en e r = (RValidation, []).
Proof. exact illtyped. Qed.
Print Assumptions C20_illtyped.

Theorem C20_illtyped_iff : forall r,
  validate r = None <-> exists pa q, raw_sub_at r pa = Some q /\ bad_node q = true.
Proof. exact validate_none_iff. Qed.
Print Assumptions C20_illtyped_iff.

(* module absent from sys.modules, or an attribute of the dotted path missing (or no module stored):
   a class of that very name is synthesised and instantiated, nothing else happens before *)
Theorem C20_unresolved : forall e ty md args sup cause ctx,
  unresolved e md ty ->
  let sm := synth_module md in
  let p := PRepr ty md args sup cause ctx in
  if name_ok ty then
    exists rest, snd (conv e p) = Synthesize ty sm :: Instantiate (TSynth ty sm) :: rest /\
    match fst (conv e p) with
    | COk (Some (XNew c a xc xx s)) =>
        c = CSynth ty sm /\ a = args /\ s = sup /\ fst (conv e cause) = COk xc /\ fst (conv e ctx) = COk xx
    | COk _ => False
    | f => fst (conv e cause) = f \/ (exists xc, fst (conv e cause) = COk xc) /\ fst (conv e ctx) = f
    end
  else conv e p = (CBadName, []).
Proof. exact unresolved_synth. Qed.
Print Assumptions C20_unresolved.

(* a payload nested at any depth of cause / context links is treated exactly as at top level *)
Theorem C20_nested : forall en e r pa rq x,
  raw_sub_at r pa = Some rq -> fst (load en e r) = ROk x ->
  exists xq, exn_at x pa = Some xq /\ fst (load en e rq) = ROk xq /\
             infix (snd (load en e rq)) (snd (load en e r)).
Proof. exact nested. Qed.
Print Assumptions C20_nested.

Theorem C20_nested_refused : forall en e r pa rq,
  raw_sub_at r pa = Some rq ->
  (forall x, fst (load en e rq) <> ROk x) -> forall x, fst (load en e r) <> ROk x.
Proof. exact nested_refused. Qed.
Print Assumptions C20_nested_refused.

Theorem C20_nested_gate : forall e pa p ty md args sup cause ctx,
  sub_at p pa = Some (PRepr ty md args sup cause ctx) ->
  node_verdict e md ty = Some true ->
  fst (conv e (PRepr ty md args sup cause ctx)) = CSec /\ forall x, fst (conv e p) <> COk x.
Proof. exact nested_gate. Qed.
Print Assumptions C20_nested_gate.

(* the Boolean form evaluated on implementation observations: met by the model, and sound *)
Theorem C20_model_meets_check : forall en e r,
  C20_check en e r (fst (load en e r)) (observe (snd (load en e r))) = true.
Proof. exact model_meets_check. Qed.
Print Assumptions C20_model_meets_check.

Theorem C20_check_sound : forall en e r res obs,
  C20_check en e r res obs = true ->
  (forall f, In f obs ->
     match f with
     | OInst i => exists o, In o (env_objs e) /\ oid o = i /\ is_exception_class (TEnv o) = true
     | OSynth _ _ => True
     | OCall _ | OImport _ => False
     end) /\
  match res with
  | ROk None => r = RNone
  | ROk (Some _) | RSecurity | RValidation => True
  | RValueError => en = EDirect /\ all_names_ok r = false
  | RPropagated i => exists o, In o (env_objs e) /\ oid o = i /\ okind o = KExc CtorRaisesBase
  | RWeird => False
  end.
Proof. exact check_sound. Qed.
Print Assumptions C20_check_sound.

(* sensitivity: the conversion with the gate as a parameter is the model when given the real gate; with each mutant
   gate (nested skip, callable(), isinstance-only, gate after the call) LoadGateMutants.v exhibits a Call or a
   non-exception Instantiate (its Examples named mutant_...), so the theorems above rest on line 378 as it stands *)
Theorem C20_parametric_gate_is_model : forall e p top, convG (fun _ => gate_rejects) false top e p = conv e p.
Proof. exact convG_real. Qed.
Print Assumptions C20_parametric_gate_is_model.

(* ------------------------------------------------------------------ non-vacuity *)
(* sys.modules = { "m": module(f = function, E = exception class, H = class(i = exception class, g = function),
                               K = exception class whose constructor raises KeyboardInterrupt),
                   "m.s": module(E = exception class needing 2 arguments) }                                    *)
Definition n_m := [109]. Definition n_ms := [109; 46; 115].
Definition n_f := [102]. Definition n_E := [69]. Definition n_H := [72]. Definition n_i := [105].
Definition n_g := [103]. Definition n_K := [75]. Definition n_Hi := [72; 46; 105]. Definition n_Hg := [72; 46; 103].
Definition n_X := [88].
Definition ex_env : env :=
  [(n_m, Obj 1 KModule [(n_f, Obj 2 KFunc []); (n_E, Obj 3 (KExc CtorAny) []);
                        (n_H, Obj 4 KClass [(n_i, Obj 5 (KExc CtorAny) []); (n_g, Obj 6 KFunc [])]);
                        (n_K, Obj 7 (KExc CtorRaisesBase) [])]);
   (n_ms, Obj 8 KModule [(n_E, Obj 9 (KExc (CtorArity 2)) [])])].
Definition leaf ty md args := RDict (FOk ty) (FOk md) (FOk args) (FOk false) RNone RNone.

(* an exception class through a dotted path, at depth 2, is instantiated; the effects are instantiations only *)
Example C20_ex_loads :
  load EJson ex_env (RDict (FOk n_E) (FOk (Some n_m)) (FOk [1]) (FOk true)
                       (RDict (FOk n_X) (FOk None) (FOk []) (FOk false) RNone (leaf n_Hi (Some n_m) [2]))
                       (leaf n_E (Some n_ms) [3])) =
  (ROk (Some (XNew (CEnv 3) [1]
               (Some (XNew (CSynth n_X SMSer) [] None (Some (XNew (CEnv 5) [2] None None false)) false))
               (Some (XNew CFallback [] None None false)) true)),
   [Instantiate (TEnv (Obj 3 (KExc CtorAny) [])); Synthesize n_X SMSer; Instantiate (TSynth n_X SMSer);
    Instantiate (TEnv (Obj 5 (KExc CtorAny) [])); Instantiate (TEnv (Obj 9 (KExc (CtorArity 2)) []));
    Instantiate TFallback]).
Proof. vm_compute. reflexivity. Qed.

(* every refused kind, at top level and nested: function, function behind a dotted path, class, module *)
Example C20_ex_refused :
  fst (load EDirect ex_env (leaf n_f (Some n_m) [1])) = RSecurity /\
  fst (load EDirect ex_env (leaf n_Hg (Some n_m) [1])) = RSecurity /\
  fst (load EDirect ex_env (leaf n_H (Some n_m) [])) = RSecurity /\
  load EValidate ex_env (RDict (FOk n_E) (FOk (Some n_m)) (FOk []) (FOk false) RNone (leaf n_f (Some n_m) [1])) =
    (RSecurity, [Instantiate (TEnv (Obj 3 (KExc CtorAny) []))]) /\
  node_verdict ex_env (Some n_m) n_f = Some true /\ node_verdict ex_env (Some n_m) n_E = Some false.
Proof. vm_compute. repeat split. Qed.

(* the hypotheses of C20_unresolved have inhabitants of all three sorts; the remaining outcomes exist *)
Example C20_ex_unresolved :
  unresolved ex_env (Some n_X) n_E /\ unresolved ex_env (Some n_m) n_X /\ unresolved ex_env (Some n_m) [72; 46; 88] /\
  unresolved ex_env None n_f /\ ~ unresolved ex_env (Some n_m) n_f /\
  load EDirect ex_env (leaf n_X (Some n_X) [4]) =
    (ROk (Some (XNew (CSynth n_X SMExc) [4] None None false)), [Synthesize n_X SMExc; Instantiate (TSynth n_X SMExc)]) /\
  fst (load EDirect ex_env (leaf [65; 0] (Some n_X) [])) = RValueError /\
  fst (load EJson ex_env (leaf [65; 0] (Some n_X) [])) = RValidation /\
  fst (load EDirect ex_env (leaf n_K (Some n_m) [])) = RPropagated 7 /\
  load EDirect ex_env (RDict (FOk n_E) (FOk (Some n_m)) (FOk []) (FOk false) RNone (RDict FBad (FOk None) (FOk []) (FOk false) RNone RNone)) =
    (RValidation, []) /\
  load EDirect ex_env (RInst (IWrapper n_X n_m [5])) =
    (ROk (Some (XNew (CSynth n_X (SMNamed n_m)) [5] None None false)),
     [Synthesize n_X (SMNamed n_m); Instantiate (TSynth n_X (SMNamed n_m))]).
Proof. vm_compute. repeat split; try reflexivity. intros H; discriminate H. Qed.

(* an exception class that taskiq ships itself, with a signature (module, class name, args, text = default) like
   _UnpickleableExceptionWrapper (CtorTable: 3 arguments -> .args get the default appended, 4 -> stored as given,
   anything else -> TypeError -> fallback): a payload that names it and whose ARGUMENTS name the loaded class H (or the
   function f) instantiates that one exception class and nothing else - the arguments are data *)
Definition n_W := [87].
Definition ex_env_w : env := ex_env ++ [([116], Obj 20 KModule [(n_W, Obj 21 (KExc (CtorTable [(3%nat, [5000]); (4%nat, [])])) [])])].
Example C20_ex_own_class_with_arguments_naming_a_class :
  load EDirect ex_env_w (leaf n_W (Some [116]) [1000; 1001; 1002; 1003]) =
    (ROk (Some (XNew (CEnv 21) [1000; 1001; 1002; 1003] None None false)),
     [Instantiate (TEnv (Obj 21 (KExc (CtorTable [(3%nat, [5000]); (4%nat, [])])) []))]) /\
  fst (load EJson ex_env_w (leaf n_W (Some [116]) [1000; 1001; 1002])) =
    ROk (Some (XNew (CEnv 21) [1000; 1001; 1002; 5000] None None false)) /\
  fst (load EJson ex_env_w (leaf n_W (Some [116]) [1000; 1001])) = ROk (Some (XNew CFallback [] None None false)) /\
  forallb effect_ok (snd (load EValidate ex_env_w
     (RDict (FOk n_E) (FOk (Some n_m)) (FOk []) (FOk false) (leaf n_W (Some [116]) [1000; 1001; 1002; 1003]) RNone))) = true.
Proof. vm_compute. repeat split. Qed.
