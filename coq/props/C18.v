(* C18 - failure budget, reload-all and shutdown semantics of the process manager.
   Model: coq/theories/ProcMan.v; proofs: coq/proofs/ProcManInv.v, ProcManC18.v.
   Every theorem quantifies over every worker count, every max_fails : Z, every first pid >= 1 and every
   history (list of tick_events, any length; events during the sleep, inside the drain loop and between
   two is_alive() calls).  `run c p0 hist = (l, o, s)`: l = effects per tick (head = prepare_workers),
   o = Cont (still running) / Exited code, s = final state. *)
From Coq Require Import ZArith List Bool Arith Lia.
Import ListNotations.
From TQ Require Import ProcMan ProcManInv ProcManC18.

(* the model's start() never lets ProcessLookupError escape and the drain loop's fuel always suffices *)
Theorem C18_total : forall c p0 hist l o s,
  1 <= p0 -> run c p0 hist = (l, o, s) -> o <> OutOfFuel /\ forall p, o <> Crashed p.
Proof. intros c p0 hist l o s Hp H. apply (run_Inv c p0 hist l o s Hp H). Qed.
Print Assumptions C18_total.

(* exit -1 exactly when the number of handled failure reloads (ReloadOne(is_reload_all=False) actions taken
   from the queue) reaches max_fails >= 1; in particular never when max_fails < 1 *)
Theorem C18_fail_exit_iff : forall c p0 hist l o s,
  run c p0 hist = (l, o, s) ->
  (o = Exited ExitFail <->
   (1 <= max_fails c)%Z /\ Z.of_nat (count is_fail_got (concat l)) = max_fails c) /\
  (o <> Exited ExitFail -> (max_fails c < 1)%Z \/ (Z.of_nat (count is_fail_got (concat l)) < max_fails c)%Z).
Proof.
  intros c p0 hist l o s H. destruct (run_fail_exit c p0 hist l o s H) as [A B].
  split; [split; [exact A|] | exact B].
  intros [M E]. destruct o as [|[|]| |]; try reflexivity;
    (assert (X : (max_fails c < 1)%Z \/ (Z.of_nat (count is_fail_got (concat l)) < max_fails c)%Z)
       by (apply B; discriminate)); lia.
Qed.
Print Assumptions C18_fail_exit_iff.

(* in a tick that takes >= 1 ReloadAll from the queue every slot is started exactly once (at most once if
   the manager exits during that tick) ... *)
Theorem C18_reload_all_once : forall c p0 hist l s te s' effs o',
  1 <= p0 -> run c p0 hist = (l, Cont, s) -> tick c s te = (s', effs, o') ->
  existsb is_got_all effs = true ->
  forall slot, slot < nworkers c ->
    (o' = Cont -> count (is_start_of slot) effs = 1) /\ count (is_start_of slot) effs <= 1.
Proof.
  intros c p0 hist l s te s' effs o' Hp HR HT HG slot Hs.
  destruct (run_Inv c p0 hist l Cont s Hp HR) as [I _].
  pose proof (tick_reload_all _ _ _ _ _ _ _ I HT) as X. unfold ra_R in X. specialize (X HG slot Hs).
  destruct o'; split; intros; try discriminate; lia.
Qed.
Print Assumptions C18_reload_all_once.

(* ... and the budget counter moves only by the failure reloads taken in that tick: restarts requested by
   reload-all (ReloadOne(is_reload_all=True)) never consume it *)
Theorem C18_reload_all_budget_free : forall c p0 hist l s te s' effs o',
  run c p0 hist = (l, Cont, s) -> tick c s te = (s', effs, o') ->
  restarts s' = (restarts s + (if (1 <=? max_fails c)%Z then Z.of_nat (count is_fail_got effs) else 0))%Z.
Proof.
  intros c p0 hist l s te s' effs o' HR HT.
  assert (HB : (1 <= max_fails c)%Z -> (restarts s < max_fails c)%Z).
  { intro M. rewrite run_unfold in HR.
    destruct (run_from c (fst (init c p0)) hist) as [[l1 o1] s1] eqn:R. inversion HR; subst.
    assert (J0 : budget_J c [snd (init c p0)] (fst (init c p0))).
    { unfold budget_J. split.
      - change (concat [snd (init c p0)]) with (snd (init c p0) ++ []). rewrite app_nil_r, count_init.
        destruct (1 <=? max_fails c)%Z; reflexivity.
      - intro; simpl; lia. }
    assert (STEP : forall acc st te st' effs, budget_J c acc st -> tick c st te = (st', effs, Cont) ->
                                              budget_J c (acc ++ [effs]) st').
    { intros acc st te0 st' effs0 [JA JB] T. apply tick_budget in T; auto. destruct T as (A & _ & C).
      unfold budget_J. rewrite concat_app, count_app. change (concat [effs0]) with (effs0 ++ []).
      rewrite app_nil_r. split.
      - rewrite A, JA. destruct (1 <=? max_fails c)%Z; lia.
      - apply C. discriminate. }
    destruct (run_from_ind c (budget_J c) STEP hist [snd (init c p0)] _ _ _ _ J0 R)
      as [[_ [_ JB]]|(l0 & st0 & te0 & effs0 & _ & _ & _ & NC)]; [auto | congruence]. }
  apply (tick_budget c s te s' effs o' HB HT).
Qed.
Print Assumptions C18_reload_all_budget_free.

(* the tick that takes Shutdown from the queue: afterwards nothing but one Kill per element of js and the
   return of None; js is duplicate-free, every signalled process is a current worker (slot j < n) that is
   not Reaped (it answered is_alive() = True; it may only have died since), and every worker still Live
   when start() returns was signalled.  No Start, Terminate, Join or further action after Shutdown. *)
Theorem C18_shutdown_clean : forall c p0 hist l s te s' effs o' suf,
  1 <= p0 -> run c p0 hist = (l, Cont, s) -> tick c s te = (s', effs, o') ->
  after_shutdown effs = Some suf ->
  o' = Exited ExitNone /\
  exists js, suf = map (fun j => Kill (pid (nth j (workers s') dummy))) js ++ [EExit ExitNone] /\
    NoDup js /\
    (forall j, In j js -> j < nworkers c /\ pst (nth j (workers s') dummy) <> Reaped) /\
    (forall j, j < nworkers c -> pst (nth j (workers s') dummy) = Live -> In j js).
Proof.
  intros c p0 hist l s te s' effs o' suf Hp HR HT HA.
  destruct (run_Inv c p0 hist l Cont s Hp HR) as [I _].
  exact (tick_shutdown _ _ _ _ _ _ _ I HT suf HA).
Qed.
Print Assumptions C18_shutdown_clean.

(* distinct slots of a reachable state hold distinct pids >= 1: "one Kill per element of js" is one signal
   per process *)
Theorem C18_pids_distinct : forall c p0 hist l o s,
  1 <= p0 -> run c p0 hist = (l, o, s) ->
  NoDup (map pid (workers s)) /\ Forall (fun p => 1 <= p < next_pid s) (map pid (workers s)).
Proof.
  intros c p0 hist l o s Hp HR. destruct (run_Inv c p0 hist l o s Hp HR) as [[_ P N _] _]. auto.
Qed.
Print Assumptions C18_pids_distinct.

(* ---- non-vacuity *)
(* max_fails = 2: the second handled failure exits with -1; a reload-all in between costs nothing *)
Example C18_fail_exit_nonvacuous :
  run (mkCfg 2 2) 100 [mkTE [Die 0] [] []; mkTE [Hup] [] []; mkTE [Die 1] [] []; mkTE [] [] []] =
  ([[Start 0 100; Start 1 101]; [];
    [Got (ReloadOne 0 false); Terminate 100; Join 100; Start 0 102; Got ReloadAll; Got (ReloadOne 0 true);
     Got (ReloadOne 1 true); Terminate 101; Join 101; Start 1 103];
    []; [Got (ReloadOne 1 false); EExit ExitFail]], Exited ExitFail,
   mkState [mkProc 102 Live; mkProc 103 Reaped] [] 2 104).
Proof. vm_compute. reflexivity. Qed.

(* two reload-alls in one tick restart each worker once *)
Example C18_reload_all_nonvacuous :
  let '(l, o, s) := run (mkCfg 2 1) 1 [mkTE [Hup; FileChange] [] []] in
  l = [[Start 0 1; Start 1 2];
       [Got ReloadAll; Got ReloadAll; Got (ReloadOne 0 true); Terminate 1; Join 1; Start 0 3;
        Got (ReloadOne 1 true); Terminate 2; Join 2; Start 1 4; Got (ReloadOne 0 true); Got (ReloadOne 1 true)]]
  /\ o = Cont /\ restarts s = 0%Z.
Proof. vm_compute. repeat split. Qed.

(* shutdown with one dead worker: only the live one is signalled *)
Example C18_shutdown_nonvacuous :
  fst (run (mkCfg 3 (-1)) 100 [mkTE [Die 1; Term] [] []]) =
  ([[Start 0 100; Start 1 101; Start 2 102]; [Got Shutdown; Kill 100; Kill 102; EExit ExitNone]], Exited ExitNone).
Proof. vm_compute. reflexivity. Qed.
