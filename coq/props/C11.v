(* C11 - the retry middleware re-sends a failing task a bounded number of times. *)
From Coq Require Import ZArith NArith List Bool.
From TQ Require Import Base64 Labels LabelsCodecProofs LabelsProofs Retry RetryProofs.
Import ListNotations.
Open Scope nat_scope.

(* Hypotheses common to the theorems: d = the labels the message was sent with (distinct keys, values of the five
   primitive types), whose counter "_retries" reads r (absent: 0) and whose effective max_retries (label through
   int(), else the middleware default) is M : Z - any integer, also 0 and negatives; retry enabled (label as
   bool / str / any truthy value, else the default).  float_roundtrip is CPython's float(str(f)) = f, needed only
   because every re-send re-encodes *all* labels (a float label may ride along).  fuel > budget: the recursion
   never runs out (the out-of-fuel answer None is thereby excluded). *)

(* number of executions, for every outcome stream: at least one; at most max 1 (M - r); every execution but the
   last one failed; if it stopped before the bound the last one did not fail; same id / args / user labels and
   the stream's outcome at every execution *)
Theorem C11_bound : forall (sof : Z -> pstr) (fos : pstr -> option Z),
  (forall f, fos (sof f) = Some f) ->
  forall c outs id args d M r fuel,
    NoDup (keys d) -> received d -> counter K_RETRIES d = Some r -> max_retries c d = Some M ->
    retry_enabled c d = true -> budget M r < fuel ->
    exists es, run_retry sof fos c outs fuel id args d = Some es /\
      let n := length es in
      1 <= n <= Z.to_nat (Z.max 1 (M - r))
      /\ (forall j, S j < n -> outs j = OFail)
      /\ (n < Z.to_nat (Z.max 1 (M - r)) -> outs (n - 1) <> OFail)
      /\ (forall j e, nth_error es j = Some e ->
            e_id e = id /\ e_args e = args /\ user_view (e_labels e) = user_view d /\ e_out e = outs j
            /\ e_raised e = false).
Proof. exact bound. Qed.
Print Assumptions C11_bound.

(* stored results: every re-sent execution stores nothing under no_result_on_retry (an error result otherwise);
   the last execution is not re-sent and stores its own outcome (nothing for the no-result signal) *)
Theorem C11_results : forall (sof : Z -> pstr) (fos : pstr -> option Z),
  (forall f, fos (sof f) = Some f) ->
  forall c outs id args d M r fuel,
    NoDup (keys d) -> received d -> counter K_RETRIES d = Some r -> max_retries c d = Some M ->
    retry_enabled c d = true -> budget M r < fuel ->
    exists es, run_retry sof fos c outs fuel id args d = Some es /\
      forall j e, nth_error es j = Some e ->
        (S j < length es -> e_resent e = true /\ e_stored e = if no_result_on_retry c then None else Some true)
        /\ (S j = length es -> e_resent e = false /\
              e_stored e = match outs j with OSuccess => Some false | ONoResult => None | OFail => Some true end).
Proof. exact results. Qed.
Print Assumptions C11_results.

(* retry disabled (label false / "false" / any falsy value, or absent with default off): exactly one execution *)
Theorem C11_disabled : forall (sof : Z -> pstr) (fos : pstr -> option Z),
  (forall f, fos (sof f) = Some f) ->
  forall c outs id args d fuel,
    NoDup (keys d) -> received d -> retry_enabled c d = false -> 0 < fuel ->
    exists e, run_retry sof fos c outs fuel id args d = Some [e]
      /\ e_resent e = false
      /\ e_stored e = match outs 0 with OSuccess => Some false | ONoResult => None | OFail => Some true end
      /\ e_out e = outs 0 /\ e_id e = id /\ e_args e = args /\ e_labels e = d.
Proof. intros sof fos H c outs id args d fuel. exact (retry_disabled sof fos H c outs id args 0%Z d fuel). Qed.
Print Assumptions C11_disabled.

(* the no-result signal is never re-sent, whatever the labels say *)
Theorem C11_noresult : forall (sof : Z -> pstr) (fos : pstr -> option Z),
  (forall f, fos (sof f) = Some f) ->
  forall c outs id args d fuel,
    NoDup (keys d) -> received d -> outs 0 = ONoResult -> 0 < fuel ->
    exists e, run_retry sof fos c outs fuel id args d = Some [e] /\ e_resent e = false /\ e_stored e = None.
Proof. intros sof fos H c outs id args d fuel. exact (retry_noresult sof fos H c outs id args 0%Z d fuel). Qed.
Print Assumptions C11_noresult.

(* non-vacuity: max_retries = "3" as a str label, retry_on_error = "True", always failing: 3 executions; max_retries 0
   and 1: one execution each; fail, fail, success under max 5: 3 executions, the last one stored as success *)
Example C11_nonvacuous :
  let sof := tab_sof [] in let fos := tab_fos [] in
  let c := mkCfg 3 false true in
  let d m := [(K_MAXR, m); (K_ROE, LStr [84; 114; 117; 101]%N); (10%N, LBytes [])] in
  let summary r := option_map (map (fun e => (e_stored e, e_resent e, dget K_RETRIES (e_labels e)))) r in
  summary (run_retry sof fos c (fun _ => OFail) 10 7%N 8%N (d (LStr [51%N])))
    = Some [(None, true, None); (None, true, Some (LInt 1)); (Some true, false, Some (LInt 2))]
  /\ option_map (@length _) (run_retry sof fos c (fun _ => OFail) 10 7%N 8%N (d (LInt 0))) = Some 1
  /\ option_map (@length _) (run_retry sof fos c (fun _ => OFail) 10 7%N 8%N (d (LInt 1))) = Some 1
  /\ option_map (@length _) (run_retry sof fos c (fun _ => OFail) 10 7%N 8%N (d (LInt (-4)))) = Some 1
  /\ summary (run_retry sof fos c (fun i => if (i <? 2)%nat then OFail else OSuccess) 10 7%N 8%N (d (LInt 5)))
    = Some [(None, true, None); (None, true, Some (LInt 1)); (Some false, false, Some (LInt 2))].
Proof. vm_compute. repeat split. Qed.
