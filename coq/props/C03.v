(* C03 - the concurrency limit is respected and execution slots are never leaked. *)
From Coq Require Import List Arith Bool Lia Permutation.
Import ListNotations.
From TQ Require Import RecvLTS RecvLTSProofs RecvLTSFlow RecvLTSThms RecvLTSSaturable.

(* at no instant more than A callback tasks exist (running or waiting for their done-callback), for every A > 0,
   every P, N, wait_tasks_timeout and every event sequence the LTS accepts *)
Theorem C03_limit : forall c a tr s,
  cA c = Some a -> 0 < a -> run c (init c) tr = Some s -> busy s <= a.
Proof. intros c a tr s Ha Hp Hr. eapply limit_of_slots; eauto. eapply reach_slots; eauto. Qed.
Print Assumptions C03_limit.

(* slots are conserved whatever the outcome of a message: the LTS has one ECbEnd / ECbDone pair for every way a
   callback task can end; when no callback task exists all A permits are free or owned by the runner *)
Theorem C03_no_leak : forall c a tr s,
  cA c = Some a -> 0 < a -> run c (init c) tr = Some s ->
  sem s + busy s + holds_slot (rn s) = a /\ (busy s = 0 -> sem s + holds_slot (rn s) = a).
Proof.
  intros c a tr s Ha Hp Hr. pose proof (reach_slots false c tr s Hr (limited_pos _ _ Ha Hp)) as H.
  unfold slots in H. rewrite Ha in H. split; [exact H | lia].
Qed.
Print Assumptions C03_no_leak.

(* limit 1: strictly one at a time, in delivery order *)
Theorem C03_serial : forall c tr s,
  cA c = Some 1 -> run c (init c) tr = Some s ->
  busy s <= 1
  /\ (exists rest, rev (taken s) = rev (started s) ++ rest)
  /\ (forall id s', step c s (ERnGet (IMsg id)) = Some s' -> busy s = 0 /\ Permutation (started s) (finished s)).
Proof.
  intros c tr s Ha Hr. pose proof (reach_inv false c tr s Hr) as Hi. split; [|split].
  - eapply limit_of_slots; eauto using i_slots.
  - apply rev_prefix_flow. apply (i_flow _ _ Hi).
  - intros id s' Hs. eapply serial_start; eauto.
Qed.
Print Assumptions C03_serial.

(* progress of the untimed system: in every reachable state a prefetcher / runner step is enabled unless
   (1) the runner waits for a slot and all A slots are held by callback tasks, or
   (2) the runner met the sentinel and waits for live callback tasks, or
   (3) prefetcher and runner have both returned *)
Theorem C03_no_deadlock : forall c tr s,
  run c (init c) tr = Some s ->
  (exists e s', internal e = true /\ step c s e = Some s') \/ blocked c s.
Proof. intros c tr s Hr. apply enabled_or_blocked. eapply reach_inv; eauto. Qed.
Print Assumptions C03_no_deadlock.

(* in particular: while a message is in the look-ahead or the hand-over queue and a slot is free, a step is enabled *)
Theorem C03_progress_while_backlog : forall c tr s,
  run c (init c) tr = Some s -> limited c = true -> busy s < slots c -> rn s <> RNWait -> rn s <> RNDone ->
  exists e s', internal e = true /\ step c s e = Some s'.
Proof.
  intros c tr s Hr L Hb H1 H2. destruct (C03_no_deadlock c tr s Hr) as [H|[H|[H|H]]]; auto.
  - destruct H as (_ & _ & _ & Hx & _). lia.
  - destruct H as (_ & Hx & _). contradiction.
  - destruct H as (_ & Hx). contradiction.
Qed.
Print Assumptions C03_progress_while_backlog.

Theorem C03_check_sound : forall c a s, cA c = Some a -> 0 < a ->
  (C03_check c s = true <-> busy s <= a /\ sem s + busy s + holds_slot (rn s) = a).
Proof. exact C03_check_spec. Qed.
Print Assumptions C03_check_sound.

Theorem C03_check_holds : forall c tr, run c (init c) tr <> None -> scan c (C03_check c) (init c) tr = true.
Proof. exact C03_scan_true. Qed.
Print Assumptions C03_check_holds.

(* no slot is ever lost: whatever happened before (whatever way earlier callbacks ended), as long as no stop was
   requested and the broker stream has not ended, the worker can still be driven to run A callbacks at once.
   For every limit A > 0, every prefetch P and wait_tasks_timeout, no max-tasks budget, and every reachable state s:
   a continuation tr' exists that the LTS accepts from s and that
     - reaches a state with exactly A callback tasks running (none of them merely waiting for its done-callback),
     - ends no running callback (no ECbEnd: the callbacks running in s still run in s'), requests no stop, does not end
       the broker stream, and takes only message ids the broker never delivered before ([sat_event]).
   That the runner has not met the end-of-queue sentinel in s is not a hypothesis: it follows
   (RecvLTSSaturable.sat_not_past_sentinel: pf in {PFTop, PFAcq, PFPoll} and rn in {RNAcq, RNGet} in such a state). *)
Theorem C03_saturable : forall c a tr s,
  cA c = Some a -> 0 < a -> cN c = None \/ cN c = Some 0 ->
  run c (init c) tr = Some s -> fin s = false -> look s <> LAEnded ->
  exists tr' s', run c s tr' = Some s'
    /\ busy s' = a /\ length (live s') = a /\ incl (live s) (live s')
    /\ (forall e, In e tr' ->
          match e with
          | ETake id => ~ In id (taken s)
          | EStop | EEnd | ECbEnd _ => False
          | _ => True
          end).
Proof. exact saturable. Qed.
Print Assumptions C03_saturable.

(* non-vacuity: the limit is reached (A = 2, two callbacks alive), a callback that ended still holds its slot until its
   done-callback ran, and afterwards both permits are back *)
Example C03_limit_reached :
  let c := mkcfg (Some 2) 0 None false in
  exists tr s, run c (init c) tr = Some s /\ busy s = 2 /\ sem s = 0.
Proof.
  exists [EPfCheck false; ERnAcquire; EPfAcquire; ETake 0; EPfGot 0 true; ERnGet (IMsg 0); ERnAcquire;
          EPfCheck false; EPfAcquire; ETake 1; EPfGot 1 true; ERnGet (IMsg 1); ECbEnd 0].
  eexists. split; [vm_compute; reflexivity | split; reflexivity].
Qed.
Example C03_permits_back :
  let c := mkcfg (Some 2) 0 None false in
  exists tr s, run c (init c) tr = Some s /\ busy s = 0 /\ sem s + holds_slot (rn s) = 2 /\ length (finished s) = 2.
Proof.
  exists [EPfCheck false; ERnAcquire; EPfAcquire; ETake 0; EPfGot 0 true; ERnGet (IMsg 0); ERnAcquire;
          EPfCheck false; EPfAcquire; ETake 1; EPfGot 1 true; ERnGet (IMsg 1); ECbEnd 0; ECbEnd 1;
          ECbDone 1 true; ECbDone 0 true].
  eexists. split; [vm_compute; reflexivity | repeat split; reflexivity].
Qed.

(* non-vacuity of C03_saturable: a reachable state that satisfies its hypotheses after a history in which both slots
   were used, one callback still runs, one has ended and still waits for its done-callback, and a third message is
   already in the look-ahead; and a state with all slots busy in which the runner is blocked at the acquisition *)
Example C03_saturable_nonvacuous :
  let c := mkcfg (Some 2) 1 None false in
  exists tr s, run c (init c) tr = Some s /\ cA c = Some 2 /\ (cN c = None \/ cN c = Some 0)
    /\ fin s = false /\ look s <> LAEnded /\ length (live s) = 1 /\ length (ending s) = 1 /\ length (finished s) = 2.
Proof.
  exists [EPfCheck false; ERnAcquire; EPfAcquire; ETake 0; EPfGot 0 true; ERnGet (IMsg 0); ERnAcquire;
          EPfCheck false; EPfAcquire; ETake 1; EPfGot 1 true; ERnGet (IMsg 1); ECbEnd 0; ECbDone 0 true;
          ERnAcquire; EPfCheck false; EPfAcquire; ETake 2; EPfGot 2 true; ERnGet (IMsg 2); ECbEnd 2;
          EPfCheck false; EPfAcquire; ETake 3].
  eexists. split; [vm_compute; reflexivity|]. repeat split; auto; discriminate.
Qed.
(* the continuation the theorem promises for that state, replayed on the model *)
Example C03_saturable_witness :
  let c := mkcfg (Some 2) 1 None false in
  exists s tr' s', run c (init c)
         [EPfCheck false; ERnAcquire; EPfAcquire; ETake 0; EPfGot 0 true; ERnGet (IMsg 0); ERnAcquire;
          EPfCheck false; EPfAcquire; ETake 1; EPfGot 1 true; ERnGet (IMsg 1); ECbEnd 0; ECbDone 0 true;
          ERnAcquire; EPfCheck false; EPfAcquire; ETake 2; EPfGot 2 true; ERnGet (IMsg 2); ECbEnd 2;
          EPfCheck false; EPfAcquire; ETake 3] = Some s
    /\ run c s tr' = Some s' /\ busy s' = 2 /\ length (live s') = 2.
Proof.
  eexists. exists [ECbDone 2 true; ERnAcquire; EPfGot 3 true; ERnGet (IMsg 3)]. eexists.
  split; [vm_compute; reflexivity|]. split; [vm_compute; reflexivity|]. split; reflexivity.
Qed.
