(* C09 - labels keep value and type end to end; per-call customisation never leaks. *)
From Coq Require Import ZArith NArith List Bool.
From Coq.Strings Require Import Byte.
From TQ Require Import Base64 Base64Proofs Labels LabelsCodecProofs LabelsProofs LabelsLeakProofs.
Import ListNotations.
Open Scope N_scope.

(* base64: every byte list survives b64encode -> b64decode *)
Theorem C09_b64 : forall bs : list byte, b64decode (b64encode bs) = Some bs.
Proof. exact b64_roundtrip. Qed.
Print Assumptions C09_b64.

(* decimal: int(str(z)) = z for every integer, no bound *)
Theorem C09_int : forall z : Z, Z_of_str (str_of_Z z) = Some z.
Proof. exact int_roundtrip. Qed.
Print Assumptions C09_int.

(* parse_label (prepare_label v) = v for the five primitive types; the float clause rests on CPython's
   float(str(f)) = f, a hypothesis here (partial by design, sampled by the correspondence) *)
Theorem C09_codec : forall (sof : Z -> pstr) (fos : pstr -> option Z),
  (forall f, fos (sof f) = Some f) ->
  forall v, primitive v ->
    parse_label fos (fst (prepare_label sof v)) (snd (prepare_label sof v)) = Some v.
Proof. exact codec. Qed.
Print Assumptions C09_codec.

(* the four float-free types need no hypothesis at all *)
Theorem C09_codec_nofloat : forall sof fos v,
  match v with LInt _ | LStr _ | LBool _ | LBytes _ => True | _ => False end ->
  parse_label fos (fst (prepare_label sof v)) (snd (prepare_label sof v)) = Some v.
Proof.
  intros sof fos v H. destruct v; try destruct H; cbn [prepare_label fst snd]; unfold parse_label; cbn.
  - now rewrite int_roundtrip.
  - reflexivity.
  - now rewrite bool_roundtrip.
  - now rewrite b64_roundtrip.
Qed.
Print Assumptions C09_codec_nofloat.

(* a whole label dict through _prepare_message -> wire -> parse_labels *)
Theorem C09_wire : forall (sof : Z -> pstr) (fos : pstr -> option Z),
  (forall f, fos (sof f) = Some f) ->
  forall d, NoDup (keys d) -> received d ->
    parse_labels fos (prepare_labels sof d) = Some d.
Proof.
  intros sof fos H d ND RC. rewrite (labels_roundtrip sof fos H d ND). now rewrite norm_dict_received.
Qed.
Print Assumptions C09_wire.

(* first delivery and every re-delivery after any list of retries / requeues: the worker sees the labels that
   were set (completely on the first delivery; up to taskiq's own two counters afterwards) *)
Theorem C09_delivery : forall (sof : Z -> pstr) (fos : pstr -> option Z),
  (forall f, fos (sof f) = Some f) ->
  forall d acts, NoDup (keys d) -> received d -> counters_ok d ->
    exists Ls, deliveries sof fos d acts = Some Ls /\ length Ls = S (length acts)
      /\ nth_error Ls 0 = Some d /\ Forall (fun L => user_view L = user_view d) Ls.
Proof. exact delivery_primitive. Qed.
Print Assumptions C09_delivery.

(* per-call customisation never leaks: for every history of kicker()/with_labels/with_task_id/with_broker/kiq on any
   number of tasks (declared labels = heap cells 0..n-1, shared by reference with every kicker created from the
   task), the declared dicts are unchanged and the sends are exactly [spec_sent]: declared labels overlaid, in
   order, with the with_labels of *that* kicker, its own last with_task_id (else a generated id) and its own last
   with_broker (else the task's broker) - a function of the history that never looks at another kicker. *)
Theorem C09_no_leak : forall (decl : list (dict lval)) (tb : list N) (ops : list kop) (st : kstate),
  length tb = length decl ->
  run_history decl tb ops = Some st ->
  (forall t, (t < length decl)%nat -> nth_error (heap st) t = nth_error decl t)
  /\ rev (out st) = spec_sent decl tb [] ops.
Proof. exact no_leak. Qed.
Print Assumptions C09_no_leak.

(* ... and at every intermediate point of the history, not only at its end *)
Theorem C09_no_leak_always : forall decl tb ops1 ops2 st,
  length tb = length decl ->
  run_history decl tb (ops1 ++ ops2) = Some st ->
  exists st1, run_history decl tb ops1 = Some st1
    /\ (forall t, (t < length decl)%nat -> nth_error (heap st1) t = nth_error decl t).
Proof. exact no_leak_prefix. Qed.
Print Assumptions C09_no_leak_always.

(* non-vacuity *)
Example C09_no_leak_nonvacuous :
  let decl := [[(10, LInt 1%Z)]; []] in
  let ops := [OKicker 0; OWithLabels 0 [(11, LStr [113])]; OKiq 0; OKicker 0; OKiq 1; OWithTaskId 0 7; OWithBroker 0 2;
              OWithLabels 0 [(10, LBool true)]; OKiq 0; OKicker 1; OKiq 2] in
  option_map (fun st => rev (out st)) (run_history decl [0; 1] ops)
  = Some [mkSent 0 None 0 [(10, LInt 1%Z); (11, LStr [113])];
          mkSent 0 None 0 [(10, LInt 1%Z)];
          mkSent 0 (Some 7) 2 [(10, LBool true); (11, LStr [113])];
          mkSent 1 None 1 []].
Proof. vm_compute. reflexivity. Qed.

Example C09_codec_nonvacuous :
  let sof := tab_sof [(9218868437227405312%Z, [105; 110; 102])] in
  let fos := tab_fos [([105; 110; 102], Some 9218868437227405312%Z)] in
  map (fun v => parse_label fos (fst (prepare_label sof v)) (snd (prepare_label sof v)))
      [LInt (-120)%Z; LBool true; LInt 1%Z; LBytes [xff; x00]; LStr [55296]; LFloat 9218868437227405312%Z]
  = [Some (LInt (-120)%Z); Some (LBool true); Some (LInt 1%Z); Some (LBytes [xff; x00]); Some (LStr [55296]);
     Some (LFloat 9218868437227405312%Z)]
  /\ prepare_label sof (LBytes [xff; x00]) = ([47; 119; 65; 61], T_BYTES)
  /\ prepare_label sof (LInt (-120)%Z) = ([45; 49; 50; 48], T_INT).
Proof. vm_compute. repeat split. Qed.

Example C09_delivery_nonvacuous :
  let sof := tab_sof [] in let fos := tab_fos [] in
  let d := [(10, LBytes [xff; x00]); (K_RETRIES, LStr [53])] in
  NoDup (keys d) /\ received d /\ counters_ok d /\
  deliveries sof fos d [ARetry; ARequeue; ARetry] =
    Some [d;
          [(10, LBytes [xff; x00]); (K_RETRIES, LInt 6%Z)];
          [(10, LBytes [xff; x00]); (K_RETRIES, LInt 6%Z); (K_REQUEUE, LStr [49])];
          [(10, LBytes [xff; x00]); (K_RETRIES, LInt 7%Z); (K_REQUEUE, LStr [49])]].
Proof.
  cbv zeta. split; [|split; [|split]].
  - repeat constructor; cbn; intuition discriminate.
  - repeat constructor.
  - split; vm_compute; discriminate.
  - vm_compute. reflexivity.
Qed.
