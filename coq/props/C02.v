(* C02 - acknowledgement happens exactly once and never before the configured point. *)
From Coq Require Import List ZArith Bool.
From TQ Require Import Base BaseProofs Pipeline PipelineProofs.
Import ListNotations.

(* every well-formed known-task message processed by the worker loop is acknowledged exactly once iff it is
   ackable, and the callback returns normally - for every stack length, override mask, hook behaviour (non-raising
   pre_execute / on_error / post_execute), acknowledge type, task outcome, timeout relation, backend result *)
Theorem C02_exactly_once : forall c, wf_recv c ->
  countb is_ack (callback c) = (if c_ackable c then 1 else 0) /\ last (callback c) (FCrash XHook) = FDone.
Proof. exact ack_exactly_once. Qed.
Print Assumptions C02_exactly_once.

(* never twice - with no hypothesis at all (raising hooks, raise_err, malformed input, finding D10 included) *)
Theorem C02_at_most_once : forall c, countb is_ack (callback c) <= 1.
Proof. exact ack_at_most_once. Qed.
Print Assumptions C02_at_most_once.

(* at every prefix of the run (= every crash point): an ack in the prefix sits after the configured point;
   no hypothesis on the configuration *)
Theorem C02_not_before : forall c p, prefix p (callback c) -> ack_not_before c p /\ countb is_ack p <= 1.
Proof. exact ack_not_before_every_prefix. Qed.
Print Assumptions C02_not_before.

(* the same for every prefix of every interleaving of any number of messages *)
Theorem C02_concurrent : forall cs g p i c,
  Interleave (map callback cs) g -> prefix p g -> nth_error cs i = Some c ->
  ack_not_before c (project i p) /\ countb is_ack (project i p) <= 1.
Proof. exact ack_concurrent. Qed.
Print Assumptions C02_concurrent.

Theorem C02_concurrent_complete : forall cs g i c,
  Interleave (map callback cs) g -> nth_error cs i = Some c -> wf_recv c ->
  countb is_ack (project i g) = if c_ackable c then 1 else 0.
Proof. exact ack_concurrent_complete. Qed.
Print Assumptions C02_concurrent_complete.

(* what the correspondence run checks (tags in range + every projection) is exactly Interleave *)
Theorem C02_interleave_iff_project : forall (ts : list (list eff)) g,
  Interleave ts g <-> (Forall (fun e => fst e < length ts) g /\ forall i, i < length ts -> project i g = nth i ts []).
Proof.
  intros ts g. split.
  - intros H. split; [apply interleave_tags; assumption|]. intros i _. apply interleave_project. assumption.
  - intros [H1 H2]. apply project_interleave; assumption.
Qed.
Print Assumptions C02_interleave_iff_project.

(* every run is sorted by phase (used for the positions; also C10_exec_order) *)
Theorem C02_runs_sorted : forall c, sortedb (map (phase (c_ack c)) (callback c)) = true.
Proof. intros c. eapply bs_sortedb. apply callback_sorted. Qed.
Print Assumptions C02_runs_sorted.

(* Finding D10: the excluded region of wf_recv is not vacuous - a sync function raising GeneratorExit leaves an
   ackable message un-acknowledged (when_executed / when_saved) and the callback raises *)
Definition d10_cfg (a : acktype) : pcfg :=
  mkcfg KOk (mkmsg 1 0 None) true a [] DNone true false 0%Z (BRaise E_GENEXIT) true false true false.
Theorem C02_exactly_once_refuted_sync_genexit : exists c,
  c_kind c = KOk /\ c_raise_err c = false /\ c_stack c = [] /\ c_ackable c = true /\
  countb is_ack (callback c) = 0 /\ last (callback c) FDone = FCrash XGenExit.
Proof. exists (d10_cfg AckSaved). vm_compute. repeat split. Qed.
Print Assumptions C02_exactly_once_refuted_sync_genexit.

(* non-vacuity *)
Definition ex_mw : mw :=
  mkmw None None (Some (fun m => Some (mkmsg (m_id m + 10) 1 (Some 5000%Z)))) (Some (fun r => Some r)) None
       (Some (fun _ => None)).
Definition ex_cfg (a : acktype) : pcfg :=
  mkcfg KOk (mkmsg 1 0 None) true a [ex_mw; ex_mw] DOk true true 7000%Z (BRet 3) true false false false.
Lemma ex_wf : forall a, wf_recv (ex_cfg a).
Proof.
  intros a. unfold wf_recv, total_hook. simpl. repeat split; try reflexivity;
    repeat constructor; simpl; try discriminate; auto.
Qed.
Print Assumptions ex_wf.
Example C02_nonvacuous :
  callback (ex_cfg AckExecuted) =
    [FHookM HPreExec 0 (mkmsg 1 0 None); FHookM HPreExec 1 (mkmsg 11 1 (Some 5000%Z));
     FExecBegin; FDepOpen; FTaskStart; FTaskEnd BCancelled; FExecEnd; FDepSaw; FDepClose;
     FHookR HOnError 0 (mkmsg 21 1 (Some 5000%Z)) (mkres true None (Some 1) 1) (Some 1);
     FHookR HOnError 1 (mkmsg 21 1 (Some 5000%Z)) (mkres true None (Some 1) 1) (Some 1);
     FAck; FSaveBegin 21 (mkres true None (Some 1) 1); FSaveErr; FDone]
  /\ countb is_ack (callback (ex_cfg AckReceived)) = 1 /\ countb is_ack (callback (ex_cfg AckSaved)) = 1
  /\ Interleave (map callback [ex_cfg AckSaved; ex_cfg AckSaved]) (tag_seq 0 (map callback [ex_cfg AckSaved; ex_cfg AckSaved])).
Proof. repeat split; try (vm_compute; reflexivity). apply interleave_exists. Qed.
