(* C04 - prefetch is bounded: at most A + P + 1 unfinished messages per worker. *)
From Coq Require Import List Arith Bool Lia.
Import ListNotations.
From TQ Require Import RecvLTS RecvLTSProofs.

(* for every configuration (any A > 0, any P, any N, any wait_tasks_timeout) and every event sequence the
   receiver LTS accepts - in particular every backlog size, arrival burst and task duration - the number of
   messages taken from the broker whose callback task is not yet gone never exceeds A + P + 1 *)
Theorem C04_bound : forall c a tr s,
  cA c = Some a -> 0 < a -> run c (init c) tr = Some s -> unfinished s <= a + cP c + 1.
Proof. intros c a tr s. exact (C04_bound_g false c a tr s). Qed.
Print Assumptions C04_bound.

(* the two conservation laws behind it, in every reachable state *)
Theorem C04_slots_conserved : forall c tr s,
  run c (init c) tr = Some s -> limited c = true -> sem s + busy s + holds_slot (rn s) = slots c.
Proof. intros c tr s H. exact (reach_slots false c tr s H). Qed.
Print Assumptions C04_slots_conserved.

Theorem C04_permits_conserved : forall c tr s,
  run c (init c) tr = Some s ->
  match pf s with
  | PFExit | PFDone => nmsgs (queue s) <= cP c + holds_slot (rn s)
  | _ => semp s + holds_permit (pf s) + nmsgs (queue s) = cP c + holds_slot (rn s)
  end.
Proof. intros c tr s H. exact (reach_q false c tr s H). Qed.
Print Assumptions C04_permits_conserved.

(* the Boolean form evaluated along every real trace is the statement *)
Theorem C04_check_sound : forall c a s, cA c = Some a -> 0 < a ->
  (C04_check c s = true <-> unfinished s <= a + cP c + 1).
Proof. exact C04_check_spec. Qed.
Print Assumptions C04_check_sound.

Theorem C04_check_holds : forall c tr, run c (init c) tr <> None -> scan c (C04_check c) (init c) tr = true.
Proof. exact C04_scan_true. Qed.
Print Assumptions C04_check_holds.

(* C04_tight: the bound is reached (non-vacuity, and it is not slack): A=2, P=2 has 5 unfinished messages,
   A=1, P=0 has 2 *)
Example C04_tight_2_2 : exists tr s, run (mkcfg (Some 2) 2 None false) (init (mkcfg (Some 2) 2 None false)) tr = Some s
  /\ unfinished s = 2 + 2 + 1.
Proof.
  exists [EPfCheck false; ERnAcquire; EPfAcquire; ETake 0; EPfGot 0 true; ERnGet (IMsg 0); ERnAcquire;
          EPfCheck false; EPfAcquire; ETake 1; EPfGot 1 true; ERnGet (IMsg 1);
          EPfCheck false; EPfAcquire; ETake 2; EPfGot 2 true;
          EPfCheck false; EPfAcquire; ETake 3; EPfGot 3 true; EPfCheck false; ETake 4].
  eexists. split; [vm_compute; reflexivity | reflexivity].
Qed.
Example C04_tight_1_0 : exists tr s, run (mkcfg (Some 1) 0 (Some 5) true) (init (mkcfg (Some 1) 0 (Some 5) true)) tr = Some s
  /\ unfinished s = 1 + 0 + 1.
Proof.
  exists [EPfCheck false; ERnAcquire; EPfAcquire; ETake 0; EPfGot 0 true; ERnGet (IMsg 0); EPfCheck false; ETake 1].
  eexists. split; [vm_compute; reflexivity | reflexivity].
Qed.
