(* C15 - the scheduler loop sends each due schedule once per occurrence. *)
From Coq Require Import ZArith List Bool.
From TQ Require Import SchedDelay SchedLoop.
