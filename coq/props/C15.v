(* C15 - the scheduler loop sends each due schedule once per occurrence, minute after minute. *)
From Coq Require Import ZArith List Bool Arith.
Import ListNotations.
From TQ Require Import SchedDelay SchedLoop SchedLoopProofs.
Open Scope Z_scope.

(* polls happen at the start instant and then at every minute boundary, one per minute, whenever every gather of
   listings ends before the next boundary (first poll) resp. takes less than a minute (later polls) *)
Theorem C15_poll_instants : forall sc n j,
  (forall i, (i < length (sc_srcs sc))%nat -> sc_start sc + sc_lat sc 0%nat i < next_boundary (sc_start sc)) ->
  (forall k i, (1 <= k)%nat -> (i < length (sc_srcs sc))%nat -> sc_lat sc k i < MIN) -> (j < n)%nat ->
  nth j (map fst (sys_clock sc n)) 0 = if Nat.eqb j 0 then sc_start sc else floor_minute (sc_start sc) + Z.of_nat j * MIN.
Proof. exact (sys_instants (fun _ _ => false)). Qed.
Print Assumptions C15_poll_instants.

(* without any assumption on the latencies: the next poll is on a minute boundary, after the body, at most a minute later *)
Theorem C15_next_poll_on_boundary : forall b, floor_minute (next_poll b) = next_poll b /\ b < next_poll b <= b + MIN.
Proof. exact next_poll_spec. Qed.
Print Assumptions C15_next_poll_on_boundary.

(* one iteration at instant `now`: a cron schedule s listed by source i (ids unique in the listing) is spawned exactly
   once if cron_due and not at all otherwise, and it fires at `now` *)
Theorem C15_cron_per_minute : forall (cron_due : nat -> Z -> bool) now (ls : list (option (list sched))) i (l : list sched) s c,
  nth_error ls i = Some (Some l) -> NoDup (map fst l) -> In (s, KCron c) l ->
  cnt i s (poll_body cron_due now ls) = (if cron_due c now then 1 else 0)%nat /\
  (forall f, In (i, s, f) (poll_body cron_due now ls) -> f = now).
Proof. exact cron_per_minute. Qed.
Print Assumptions C15_cron_per_minute.

(* never otherwise: nothing is spawned for a source that does not exist / failed to list, for a schedule that is not
   listed, or for an unparsable cron *)
Theorem C15_never_otherwise : forall (cron_due : nat -> Z -> bool) now (ls : list (option (list sched))) i s,
  (nth_error ls i = None \/ nth_error ls i = Some None \/
   (exists l : list sched, nth_error ls i = Some (Some l) /\ (~ In s (map fst l) \/ (NoDup (map fst l) /\ In (s, KBadCron) l)))) ->
  cnt i s (poll_body cron_due now ls) = 0%nat.
Proof. exact never_otherwise. Qed.
Print Assumptions C15_never_otherwise.

(* a listed one-shot is spawned (once) iff T <= next boundary + 1 s; it fires at `now` if already past, else in [T, T + 1 s) *)
Theorem C15_oneshot_timing : forall (cron_due : nat -> Z -> bool) now (ls : list (option (list sched))) i (l : list sched) s T,
  nth_error ls i = Some (Some l) -> NoDup (map fst l) -> In (s, KOne T) l ->
  cnt i s (poll_body cron_due now ls) = (if (T <=? next_boundary now + US)%Z then 1%nat else 0%nat) /\
  (forall f, In (i, s, f) (poll_body cron_due now ls) -> (T <= now /\ f = now) \/ (now < T /\ T <= f < T + US)).
Proof. exact oneshot_timing. Qed.
Print Assumptions C15_oneshot_timing.

(* isolation, part 1: the poll clock depends on the start instant, the number of sources and the listing latencies
   only - not on what is listed, on which listings fail, on which sends fail or how long they take *)
Theorem C15_isolation_polls : forall sc sc' n,
  sc_start sc = sc_start sc' -> length (sc_srcs sc) = length (sc_srcs sc') ->
  (forall k i, sc_lat sc k i = sc_lat sc' k i) -> sys_clock sc n = sys_clock sc' n.
Proof. exact sys_clock_indep. Qed.
Print Assumptions C15_isolation_polls.

(* isolation, part 2: everything that happens to entry e of source i (when it is listed, what get_task_delay says, every
   send with attempt number, instant and outcome) is the same in two scenarios that agree on the clock, on source i's
   own listing latencies / failures and on the kick behaviour of this very schedule - whatever the other sources list,
   whichever of their listings fail, whichever other sends (of this or other sources) fail *)
Theorem C15_isolation : forall (cron_due : nat -> Z -> bool) sc sc' n i so e,
  sys_clock sc n = sys_clock sc' n ->
  (forall k, sc_lat sc k i = sc_lat sc' k i) -> (forall k, sc_lfail sc k i = sc_lfail sc' k i) ->
  (forall m, sc_klat sc i (en_sid e) m = sc_klat sc' i (en_sid e) m) ->
  (forall m, sc_kfail sc i (en_sid e) m = sc_kfail sc' i (en_sid e) m) ->
  ent_run cron_due sc n i so e = ent_run cron_due sc' n i so e.
Proof. exact ent_run_indep. Qed.
Print Assumptions C15_isolation.

(* exactly once, the part that holds: for a one-shot of a removing source, if its first send (attempt 0) is spawned
   at poll p, its kick succeeds, and that send completes (post_send) before the listing snapshot of every later poll,
   then no other poll ever spawns a send for it.  (With non-negative latencies snapshots increase, so "every later
   poll" is "the next poll"; that step is not proved here.) *)
Theorem C15_oneshot_once_partial : forall (cron_due : nat -> Z -> bool) sc n i so e T p r f,
  so_removing so = true -> en_kind e = KOne T -> sc_kfail sc i (en_sid e) 0%nat = false ->
  nth p (ent_run cron_due sc n i so e) ENot = EListed r (Some (f, 0%nat, true)) ->
  (forall j a b, (p < j)%nat -> nth_error (sys_clock sc n) j = Some (a, b) ->
                 f + sc_klat sc i (en_sid e) 0%nat < a + sc_lat sc j i) ->
  forall q, q <> p -> is_spawn (nth q (ent_run cron_due sc n i so e) ENot) = false.
Proof. exact sys_once. Qed.
Print Assumptions C15_oneshot_once_partial.

(* exactly once, refuted (defect D7): start on a minute boundary M, one removing source, no latency, no failure, one-shot
   at M + 60.5 s: polls 0 and 1 both spawn it and both sends fire at M + 61 s.  Second witness: T = M + 58.2 s with a
   kick that takes 1.5 s: fired at M + 59 s, still in flight at the poll of M + 60 s, sent again. *)
Definition d7 (T klat0 : Z) : scenario :=
  mkScenario 1900000020000000 [mkSource true [mkEnt 1 (KOne T) 1900000019999999 None]]
             (fun _ _ => 0) (fun _ _ => false) (fun _ _ _ => klat0) (fun _ _ _ => false).

Theorem C15_oneshot_once_refuted :
  exists (cron_due : nat -> Z -> bool) sc n i so e T,
    nth_error (sc_srcs sc) i = Some so /\ In e (so_ents so) /\ so_removing so = true /\ en_kind e = KOne T /\
    (forall k j, sc_lfail sc k j = false) /\ (forall a b c, sc_kfail sc a b c = false) /\ (forall k j, sc_lat sc k j = 0) /\
    map (fun x => match x with (_, _, a, f, ok) => (a, f, ok) end) (sends_of i (en_sid e) (sys_sends cron_due sc n)) =
      [(0%nat, 1900000081000000, true); (1%nat, 1900000081000000, true)].
Proof.
  exists (fun _ _ => false), (d7 1900000080500000 1), 5%nat, 0%nat,
         (mkSource true [mkEnt 1 (KOne 1900000080500000) 1900000019999999 None]),
         (mkEnt 1 (KOne 1900000080500000) 1900000019999999 None), 1900000080500000.
  repeat split; auto. simpl. auto.
Qed.
Print Assumptions C15_oneshot_once_refuted.

Example C15_refuted_kick_in_flight :
  map (fun x => match x with (_, _, a, f, ok) => (a, f, ok) end)
      (sends_of 0 1 (sys_sends (fun _ _ => false) (d7 1900000078200000 1500001) 5)) =
  [(0%nat, 1900000079000000, true); (1%nat, 1900000080000000, true)].
Proof. vm_compute. reflexivity. Qed.

(* non-vacuity of the partial theorem: T = M + 30 s is spawned at poll 0, completes at M + 30 s + 1 us, before every
   later snapshot, and is sent exactly once *)
Example C15_once_nonvacuous :
  map is_spawn (ent_run (fun _ _ => false) (d7 1900000050000000 1) 5 0 (mkSource true []) (mkEnt 1 (KOne 1900000050000000) 0 None))
  = [true; false; false; false; false]
  /\ nth 0 (ent_run (fun _ _ => false) (d7 1900000050000000 1) 5 0 (mkSource true []) (mkEnt 1 (KOne 1900000050000000) 0 None)) ENot
     = EListed (DSend 30) (Some (1900000050000000, 0%nat, true)).
Proof. vm_compute. split; reflexivity. Qed.

Example C15_body_nonvacuous :
  poll_body (fun c t => Nat.eqb c 0) 1900000080000000
            [Some [(1%nat, KCron 0); (2%nat, KCron 1); (3%nat, KBadCron)]; None; Some [(4%nat, KOne 1900000080500000); (5%nat, KOne 1900000141000001)]]
  = [(0%nat, 1%nat, 1900000080000000); (2%nat, 4%nat, 1900000081000000)]
  /\ next_poll 1900000080000000 = 1900000140000000 /\ next_poll 1900000139999999 = 1900000140000000.
Proof. vm_compute. repeat split; reflexivity. Qed.
