(* C08 - arguments reach the task function unchanged and bound to the right parameters. *)
From Coq Require Import List Bool Arith.
From TQ Require Import Params ParamsProofs ParamsRaise ParamsCheck FindingsParams.
Import ListNotations.

(* Binding, validate_params on.  For every signature made of positional-or-keyword parameters followed by
   keyword-only parameters (each annotated or not, defaulted or not, dependency or not), every call CPython accepts
   as sent (pycall on the message's args and the resolved dependencies updated with the message's kwargs):
   the function body runs and receives, parameter by parameter and with the same fill mode (positional / keyword /
   own default), `expected_rcv` of what the caller bound to it - nothing moves, appears or disappears.
   Hypotheses on pydantic: Any validates to the input; none of the conversions THIS call consults (`consulted`: the
   annotation of a parameter paired with the non-None value the caller bound to it) raises outside
   ValueError / RuntimeError. *)
Theorem C08_binding : forall value (is_none : value -> bool) ty (is_any : ty -> bool) conv,
  (forall t v, is_any t = true -> conv t v = CVal v) ->
  forall (sg : list (param value)) h args kw b,
    pos_then_kw value sg = true -> NoDup (map pname sg) -> NoDup (map fst kw) ->
    (forall t v, consulted value is_none ty sg 0 h args kw t v -> conv t v <> CRaise) ->
    pycall value sg args (dupdate (dep_kwargs value sg) kw) = Some b ->
    run_task value is_none ty conv true sg h args kw
    = Invoked (map2 (expected_rcv value is_none ty is_any conv h kw) sg b).
Proof. exact binding_local. Qed.
Print Assumptions C08_binding.

(* ... and when one of the consulted conversions does raise something else (observed only for a
   user-defined pydantic validator that itself raises TypeError), the exception leaves parse_params and run_task: the body is not invoked *)
Theorem C08_foreign_exception_not_invoked : forall value (is_none : value -> bool) ty conv
    (sg : list (param value)) h args kw,
  NoDup (map pname sg) ->
  (exists t v, consulted value is_none ty sg 0 h args kw t v /\ conv t v = CRaise) ->
  run_task value is_none ty conv true sg h args kw = ParseRaised.
Proof. exact raise_not_invoked. Qed.
Print Assumptions C08_foreign_exception_not_invoked.

(* ... where the expected value is, clause by clause, the statement's: as sent for un-annotated / Any / None,
   converted when convertible, otherwise unchanged *)
Theorem C08_expected_value : forall value (is_none : value -> bool) ty (is_any : ty -> bool) conv h n v,
  (dget h n = None -> expect value is_none ty is_any conv h n v = v) /\
  (forall t, dget h n = Some t -> is_any t = true -> expect value is_none ty is_any conv h n v = v) /\
  (is_none v = true -> expect value is_none ty is_any conv h n v = v) /\
  (forall t, dget h n = Some t -> is_any t = false -> is_none v = false ->
     expect value is_none ty is_any conv h n v = match conv t v with CVal w => w | _ => v end).
Proof.
  intros. repeat split; intros.
  - now apply expect_unannotated.
  - eapply expect_any; eauto.
  - now apply expect_none.
  - now apply expect_conv.
Qed.
Print Assumptions C08_expected_value.

(* what parse_params computes on ANY signature (also *args / **kwargs ones): args[i] converted with the annotation
   of the i-th parameter, kwargs[n] with the annotation of parameter n when its index is >= len(args) *)
Theorem C08_parse_params_pointwise : forall value (is_none : value -> bool) ty (is_any : ty -> bool) conv,
  (forall t v, is_any t = true -> conv t v = CVal v) ->
  (forall t v, conv t v <> CRaise) ->
  forall (sg : list (param value)) h args kw, NoDup (map pname sg) -> NoDup (map fst kw) ->
    parse_params value is_none ty conv (Some sg) h args kw =
    POk (zipconv value is_none ty is_any conv h sg args)
        (kwconv value is_none ty is_any conv h (map pname (skipn (length args) sg)) kw).
Proof. exact parse_char. Qed.
Print Assumptions C08_parse_params_pointwise.

(* validate_params off: everything arrives as sent (exactly CPython's binding of the sent call) *)
Theorem C08_no_parse : forall value is_none ty conv (sg : list (param value)) h args kw,
  run_task value is_none ty conv false sg h args kw =
  match pycall value sg args (dupdate (dep_kwargs value sg) kw) with
  | Some b => Invoked b
  | None => CallTypeError
  end.
Proof. exact no_parse. Qed.
Print Assumptions C08_no_parse.

(* kicker: models / dataclass instances become their dict form, everything else is untouched, order and keyword
   names are kept; a dataclass TYPE anywhere makes _prepare_message raise *)
Theorem C08_prepare_arg : forall value model dcinst (model_dump : model -> value) (asdict : dcinst -> value)
    (args : list (pyarg value model dcinst)) kw dflt,
  (forallb (fun a => negb (is_type value model dcinst a)) args = true ->
   forallb (fun e => negb (is_type value model dcinst (snd e))) kw = true ->
   prepare_message value model dcinst model_dump asdict args kw =
   Some (map (fun a => form value model dcinst model_dump asdict a dflt) args,
         map (fun e => (fst e, form value model dcinst model_dump asdict (snd e) dflt)) kw)) /\
  (existsb (is_type value model dcinst) args || existsb (fun e => is_type value model dcinst (snd e)) kw = true ->
   prepare_message value model dcinst model_dump asdict args kw = None) /\
  (forall v, form value model dcinst model_dump asdict (POther v) dflt = v).
Proof.
  intros. split; [|split].
  - apply prepare_message_ok.
  - apply prepare_message_type.
  - reflexivity.
Qed.
Print Assumptions C08_prepare_arg.

(* PARTIAL: loads (dumps m) = m for a formatter of the shape validate . loadb . dumpb . dump (ProxyFormatter with any
   serializer; JSONFormatter with pydantic's JSON writer / parser as the pair) GIVEN the serializer round trip on
   message dumps and pydantic's validate-after-dump identity.  Both hypotheses are CPython / pydantic behaviour; they
   are validated by the differential run only. *)
Theorem C08_formatter_roundtrip_partial : forall msg tree bytes (msg_dump : msg -> tree) msg_validate dumpb loadb,
  (forall m b, dumpb (msg_dump m) = Some b -> loadb b = Some (msg_dump m)) ->
  (forall m, msg_validate (msg_dump m) = Some m) ->
  forall m b, fmt_dumps msg tree bytes msg_dump dumpb m = Some b ->
              fmt_loads msg tree bytes msg_validate loadb b = Some m.
Proof. exact formatter_roundtrip. Qed.
Print Assumptions C08_formatter_roundtrip_partial.

(* the Boolean form evaluated on implementation observations holds of the model's own output *)
Theorem C08_model_meets_check : forall value (is_none : value -> bool) ty (is_any : ty -> bool) conv veqb,
  (forall t v, is_any t = true -> conv t v = CVal v) ->
  (forall v, veqb v v = true) ->
  forall validate sg h args kw,
    C08_check value is_none ty is_any conv veqb validate sg h args kw
              (erase value (run_task value is_none ty conv validate sg h args kw)) = true.
Proof. exact model_meets_check_local. Qed.
Print Assumptions C08_model_meets_check.

(* ... and it says what the statement says: when it is true of an observation o, in scope and for a call CPython
   accepts, o IS "invoked, every parameter received expected(p)" (parsing on, no foreign exception) /
   "invoked with exactly what was sent" (parsing off) *)
Theorem C08_check_is_statement : forall value (is_none : value -> bool) ty (is_any : ty -> bool) conv veqb,
  (forall a b, veqb a b = true -> a = b) ->
  forall validate sg h args kw o b,
    C08_check value is_none ty is_any conv veqb validate sg h args kw o = true ->
    in_scope value sg kw = true ->
    pycall value sg args (dupdate (dep_kwargs value sg) kw) = Some b ->
    (validate = true -> conv_raises value ty conv h (args ++ map snd kw) = false ->
       o = OInvoked (map (erase_rcv value) (map2 (expected_rcv value is_none ty is_any conv h kw) sg b))) /\
    (validate = false -> o = OInvoked (map (erase_rcv value) b)).
Proof. exact check_sound. Qed.
Print Assumptions C08_check_is_statement.

(* REFUTED on the defective parse_params of the pinned snapshot (D3, repaired by 54569d3): def f(a, b: int) sent
   ("5", "7") receives (5, "7") where ("5", 7) is due.  Replay: corpus/C08/d3_unannotated_before_annotated.json *)
Theorem C08_binding_refuted :
  exists conv sg h args kw b,
    (forall t v, nis_any t = true -> conv t v = CVal v) /\
    (forall t v, conv t v <> CRaise) /\
    pos_then_kw nat sg = true /\ NoDup (map pname sg) /\ NoDup (map fst kw) /\
    pycall nat sg args (dupdate (dep_kwargs nat sg) kw) = Some b /\
    map2 (expected_rcv nat nis_none nat nis_any conv h kw) sg b = [RPos 1; RPos 4] /\
    run_task_d3 nat nis_none nat conv sg h args kw = Invoked [RPos 3; RPos 2].
Proof. exact D3_binding_refuted. Qed.
Print Assumptions C08_binding_refuted.

(* OUTSIDE THE QUANTIFIER (var-positional parameters are not in the property's list): the scope hypothesis of
   C08_binding cannot be dropped.  def f(a: int, *rest: int, k: int = 0) sent ("1", "2", "3", k="4"): CPython binds
   k <- "4", int("4") = 4 is due, the body receives k = "4"; "3" was converted in its place. *)
Theorem C08_scope_excludes_var_positional : exists conv sg h args kw,
  (forall t v, nis_any t = true -> conv t v = CVal v) /\
  (forall t v, conv t v <> CRaise) /\
  NoDup (map pname sg) /\ NoDup (map fst kw) /\
  pycall nat sg args (dupdate (dep_kwargs nat sg) kw) = Some [RPos 10; RStar [11; 12]; RKw 13] /\
  expect nat nis_none nat nis_any conv h 2 13 = 23 /\
  run_task nat nis_none nat conv true sg h args kw = Invoked [RPos 20; RStar [21; 22]; RKw 13].
Proof. exact varpos_outside. Qed.
Print Assumptions C08_scope_excludes_var_positional.

(* ---- non-vacuity: the hypotheses of C08_binding are satisfiable and every clause is exercised.
   def f(a, b: int, c: Any = D, *, d: int = D, e: int = TaskiqDepends(..), g: int = D)
   sent ("5", "7", c=None .. ) *)
Definition ex_conv (t v : nat) : cres nat :=
  if t =? 0 then CVal v else if (t =? 1) && (v =? 1) then CVal 3 else if (t =? 1) && (v =? 2) then CVal 4 else CSwallowed.
Definition ex_sig : list (param nat) :=
  [mkParam 0 KPos false None; mkParam 1 KPos false None; mkParam 2 KPos true None;
   mkParam 3 KKw true None; mkParam 4 KKw true (Some 9); mkParam 5 KKw true None].
Definition ex_hints : list (nat * nat) := [(1, 1); (2, 0); (3, 1); (4, 1); (5, 1); (99, 1)].
Example C08_binding_nonvacuous :
  pos_then_kw nat ex_sig = true /\
  pycall nat ex_sig [1; 2] (dupdate (dep_kwargs nat ex_sig) [(3, 1); (2, 7); (5, 8)])
    = Some [RPos 1; RPos 2; RKw 7; RKw 1; RKw 9; RKw 8] /\
  run_task nat nis_none nat ex_conv true ex_sig ex_hints [1; 2] [(3, 1); (2, 7); (5, 8)]
    = Invoked [RPos 1; RPos 4; RKw 7; RKw 3; RKw 9; RKw 8] /\
  run_task nat nis_none nat ex_conv false ex_sig ex_hints [1; 2] [(3, 1); (2, 7); (5, 8)]
    = Invoked [RPos 1; RPos 2; RKw 7; RKw 1; RKw 9; RKw 8] /\
  run_task nat nis_none nat ex_conv true ex_sig ex_hints [1; 2; 7; 1] [] = CallTypeError /\
  run_task nat nis_none nat ex_conv true ex_sig ex_hints [1] [] = CallTypeError /\
  run_task nat nis_none nat ex_conv true ex_sig ex_hints [1; 2] [(0, 1)] = CallTypeError /\
  run_task nat nis_none nat ex_conv true ex_sig ex_hints [1; 0] [] = Invoked [RPos 1; RPos 0; RDefault; RDefault; RKw 9; RDefault].
Proof. vm_compute. repeat split. Qed.

(* def f(n: NZ) sent [1], NZ's validator raising TypeError: the one consulted conversion raises *)
Example C08_foreign_exception_nonvacuous :
  run_task nat nis_none nat (fun t v => if (t =? 1) && (v =? 1) then CRaise else CSwallowed) true
           [mkParam 0 KPos false None] [(0, 1)] [1] [] = ParseRaised.
Proof. vm_compute. reflexivity. Qed.
