(* C05 - graceful shutdown drains accepted work and terminates. *)
From Coq Require Import List Arith Bool Lia Permutation.
Import ListNotations.
From TQ Require Import RecvLTS RecvLTSProofs RecvLTSFlow RecvLTSThms.

(* after the stop request at most one further message is taken from the broker *)
Theorem C05_one_more : forall c tr s, run c (init c) tr = Some s -> tas s <= 1.
Proof. intros c tr s Hr. apply one_more. apply (i_stop c s). eapply reach_inv; eauto. Qed.
Print Assumptions C05_one_more.

(* the look-ahead created by the fetch that follows the stop request is cancelled before its first step:
   from a state with the stop requested and a fresh look-ahead, no continuation takes anything *)
Theorem C05_no_new_la : forall c tr s tr' s',
  run c (init c) tr = Some s -> fin s = true -> look s = LANew ->
  run c s tr' = Some s' -> taken s' = taken s.
Proof.
  intros c tr s tr' s' Hr Hf Hl Hr'. eapply run_nonewla; [|exact Hr'].
  repeat split; auto. intros _. pose proof (i_pc c s (reach_inv false c tr s Hr)) as [P _].
  rewrite Hl in P. destruct (pf s); try tauto.
Qed.
Print Assumptions C05_no_new_la.

(* listen() returns only after prefetcher and runner returned; if it returned with no live callback, every message ever
   taken has finished (the end of a callback includes its acknowledgement site: Pipeline.v) *)
Theorem C05_drains : forall c tr s,
  run c (init c) tr = Some s -> ret s = true ->
  pf s = PFDone /\ rn s = RNDone /\ taken s = started s /\ (live s = [] -> Permutation (taken s) (finished s)).
Proof.
  intros c tr s Hr Et. pose proof (reach_inv false c tr s Hr) as Hi. destruct (i_ret c s Hi) as [_ R2].
  destruct (R2 Et) as [Ep Er]. destruct (reach_fix c tr s Hr) as (X1 & _). repeat split; auto.
  - eapply all_started; eauto.
  - intros Hl. eapply all_run_at_return; eauto.
Qed.
Print Assumptions C05_drains.

(* the runner returns while a callback is still running only through the timeout of asyncio.wait, which exists only if
   wait_tasks_timeout is set *)
Theorem C05_waits : forall c tr s,
  run c (init c) tr = Some s -> rn s = RNDone -> live s <> [] -> timedout s = true /\ cW c = true.
Proof. intros c tr s Hr. apply waits. apply (i_ret c s). eapply reach_inv; eauto. Qed.
Print Assumptions C05_waits.

(* max_tasks_to_execute = N: never more than N messages are taken from the broker; a prefetcher that stopped through the
   budget has handed over exactly N, and exactly N were taken *)
Theorem C05_exactly_N : forall c n tr s,
  cN c = Some n -> 0 < n -> run c (init c) tr = Some s ->
  length (taken s) <= n /\ fetched s <= n
  /\ (why s = Some CBudget -> fetched s = n /\ (pf s = PFDone -> length (taken s) = n)).
Proof.
  intros c n tr s En Hp Hr. pose proof (reach_inv false c tr s Hr) as Hi. pose proof (reach_fix c tr s Hr) as Hf.
  destruct n; [lia|]. split; [eapply budget_bound; eauto|]. split.
  - destruct (i_n c s Hi) as [N1 _]. rewrite En in N1. tauto.
  - intros Hw. eapply budget_exact; eauto.
Qed.
Print Assumptions C05_exactly_N.

(* termination: once the stop is requested the variant mu (prefetcher pc, queue length, runner pc) strictly decreases on every
   prefetcher / runner step and is unchanged by the environment, so any continuation contains at most mu s such steps *)
Theorem C05_terminates : forall c tr s tr' s',
  run c (init c) tr = Some s -> fin s = true -> run c s tr' = Some s' -> n_internal tr' + mu s' <= mu s.
Proof. intros c tr s tr' s' _ Hf Hr. eapply terminates; eauto. Qed.
Print Assumptions C05_terminates.

(* ... and while they have not both returned a step is enabled whenever no callback task exists, i.e. if every accepted
   task finishes the system reaches PFDone /\ RNDone (and nothing but EReturn remains) *)
Theorem C05_progress : forall c tr s,
  run c (init c) tr = Some s -> live s = [] -> ending s = [] ->
  (pf s = PFDone /\ rn s = RNDone) \/ exists e s', internal e = true /\ step c s e = Some s'.
Proof. intros c tr s Hr. apply progress_when_idle. eapply reach_inv; eauto. Qed.
Print Assumptions C05_progress.

(* D5 (known finding, recorded not repaired): the timeout is not honoured when the runner is blocked in the slot acquisition.
   A reachable state with the stop requested, wait_tasks_timeout set, the prefetcher finished, the sentinel queued, the runner
   at `await self.sem.acquire()` with no free slot: no prefetcher / runner step is enabled - in particular not the timeout -
   so listen() cannot return before the running task ends, however long that takes. *)
Theorem C05_timeout_blocked_refuted :
  exists c tr s, run c (init c) tr = Some s /\ cW c = true /\ fin s = true /\ pf s = PFDone /\ rn s = RNAcq /\ sem s = 0
                 /\ live s = [0] /\ queue s = [IDone] /\ forall e, internal e = true -> step c s e = None.
Proof.
  exists (mkcfg (Some 1) 1 None true).
  exists [EPfCheck false; EPfAcquire; ERnAcquire; ETake 0; EPfGot 0 true; EPfCheck false; EPfAcquire; ERnGet (IMsg 0);
          EStop; EPfTimeout; EPfCheck true; EPfExit].
  eexists. split; [vm_compute; reflexivity|]. repeat split.
  intros e He. destruct e; try discriminate He; try reflexivity; try (destruct it; reflexivity); try (destruct h; reflexivity).
Qed.
Print Assumptions C05_timeout_blocked_refuted.

(* the corpus replay (A = 1, P = 0): there the prefetcher itself is blocked on the prefetch permit that only the blocked
   runner can return, so the stop request is not even noticed *)
Theorem C05_timeout_blocked_refuted_P0 :
  exists c tr s, run c (init c) tr = Some s /\ cW c = true /\ fin s = true /\ pf s = PFAcq /\ semp s = 0 /\ rn s = RNAcq
                 /\ sem s = 0 /\ live s = [0] /\ forall e, internal e = true -> step c s e = None.
Proof.
  exists (mkcfg (Some 1) 0 None true).
  exists [EPfCheck false; ERnAcquire; ETake 0; EPfAcquire; EPfGot 0 true; EPfCheck false; ETake 1; ERnGet (IMsg 0); EStop].
  eexists. split; [vm_compute; reflexivity|]. repeat split.
  intros e He. destruct e; try discriminate He; try reflexivity; try (destruct it; reflexivity); try (destruct h; reflexivity).
Qed.
Print Assumptions C05_timeout_blocked_refuted_P0.

Theorem C05_check_holds : forall c tr, run c (init c) tr <> None -> scan c (C05_check c) (init c) tr = true.
Proof. exact C05_scan_true. Qed.
Print Assumptions C05_check_holds.

(* non-vacuity: a stop while a task runs and one message is in flight: one more take, drain, wait, return *)
Example C05_graceful_run :
  let c := mkcfg (Some 2) 1 None false in
  exists tr s, run c (init c) tr = Some s /\ ret s = true /\ tas s = 1 /\ finished s = [1; 0] /\ taken s = [1; 0].
Proof.
  exists [EPfCheck false; EPfAcquire; ERnAcquire; ETake 0; EPfGot 0 true; EPfCheck false; EPfAcquire; ERnGet (IMsg 0);
          ERnAcquire; EStop; ETake 1; EPfGot 1 true; EPfCheck true; EPfExit; ERnGet (IMsg 1); ECbEnd 0; ECbDone 0 true;
          ERnAcquire; ERnGet IDone; ECbEnd 1; ERnWaited AllDone; EReturn].
  eexists. split; [vm_compute; reflexivity | repeat split; reflexivity].
Qed.
(* ... and a return through the timeout with a task still running *)
Example C05_timeout_run :
  let c := mkcfg (Some 2) 0 None true in
  exists tr s, run c (init c) tr = Some s /\ ret s = true /\ live s = [0] /\ timedout s = true.
Proof.
  exists [EPfCheck false; ERnAcquire; ETake 0; EPfAcquire; EPfGot 0 true; EPfCheck false; ERnGet (IMsg 0); ERnAcquire;
          EStop; EPfAcquire; EPfTimeout; EPfCheck true; EPfExit; ERnGet IDone; ERnWaited Timeout; EReturn].
  eexists. split; [vm_compute; reflexivity | repeat split; reflexivity].
Qed.
