(* C16 - scheduled sends carry the schedule's payload and honour source callbacks. *)
From Coq Require Import ZArith List Bool Arith.
Import ListNotations.
From TQ Require Import SchedSource SchedSourceProofs.

(* pre_send cancels (ScheduledTaskCancelledError): nothing is sent, post_send is not called, on_ready returns *)
Theorem C16_cancel : forall (pval : Type) (prepare : lval -> pval) kick_ok post_ok sid p,
  on_ready prepare PreCancel kick_ok post_ok sid p = ([EPre sid], RCancelled).
Proof. exact on_ready_cancel. Qed.
Print Assumptions C16_cancel.

(* pre_send cancels or raises anything else: no Kick, no PostSend among the effects *)
Theorem C16_no_send_unless_pre_ok : forall (pval : Type) (prepare : lval -> pval) pre kick_ok post_ok sid p, pre <> PreOk ->
  let (effs, r) := on_ready prepare pre kick_ok post_ok sid p in
  effs = [EPre sid] /\ existsb is_kick effs = false /\ existsb is_post effs = false /\
  (pre = PreCancel -> r = RCancelled) /\ (pre = PreRaise -> r = RPreRaised).
Proof. exact on_ready_no_send. Qed.
Print Assumptions C16_no_send_unless_pre_ok.

(* otherwise: pre_send, then exactly one Kick carrying the schedule's task name / args / kwargs, every label of the
   schedule prepared, plus schedule_id; then PostSend (iff the kick succeeded) *)
Theorem C16_payload : forall (pval : Type) (prepare : lval -> pval) kick_ok post_ok sid p,
  exists m,
    fst (on_ready prepare PreOk kick_ok post_ok sid p) = EPre sid :: EKick m :: (if kick_ok then [EPost sid] else []) /\
    m_task m = p_task p /\ m_args m = p_args p /\ m_kwargs m = p_kwargs p /\
    lookup K_SCHEDULE_ID (m_labels m) = Some (prepare (LSid sid)) /\
    (forall k, k <> K_SCHEDULE_ID -> lookup k (m_labels m) = option_map prepare (lookup k (p_labels p))) /\
    snd (on_ready prepare PreOk kick_ok post_ok sid p) = (if kick_ok then if post_ok then ROk else RPostRaised else RSendError).
Proof. exact on_ready_payload. Qed.
Print Assumptions C16_payload.

(* the listing is exactly the entries having a cron or a time key, of own-broker tasks, in declaration order *)
Theorem C16_listing : forall reg, no_null reg ->
  fst (get_schedules reg) =
  Some (flat_map (fun t => if t_own t then map (payload_of t) (filter listed (sched_of t)) else []) reg).
Proof. exact get_schedules_ok. Qed.
Print Assumptions C16_listing.

(* outside the statement's domain: an own-broker entry whose cron / time keys are present with both values None
   makes ScheduledTask raise, and then nothing at all is listed *)
Theorem C16_listing_null_entry_raises : forall reg,
  (exists t e, In t reg /\ t_own t = true /\ In e (sched_of t) /\ null_entry e = true) -> fst (get_schedules reg) = None.
Proof. exact get_schedules_null. Qed.
Print Assumptions C16_listing_null_entry_raises.

(* the in-place `labels.update(task.labels)` on the declared dicts changes the "labels" values only: every task, every
   entry (uid, cron, time, args, kwargs, offset), their order and number stay - so listings and removals are unaffected *)
Theorem C16_listing_keeps_registry : forall reg, map erase_task (snd (get_schedules reg)) = map erase_task reg.
Proof. exact get_schedules_erase. Qed.
Print Assumptions C16_listing_keeps_registry.

(* every task the source looks at is a registered one *)
Theorem C16_all_tasks_registered : forall g l t, In t (all_tasks g l) -> In t g \/ In t l.
Proof. exact all_tasks_in. Qed.
Print Assumptions C16_all_tasks_registered.

(* post_send of a pure one-shot with time T: either no own-broker task of that name has an entry with time T and
   nothing changes, or exactly one entry is removed: it has time T, it is the first such entry of the first such task,
   and every other task and entry is unchanged *)
Theorem C16_remove_one : forall reg p T, p_cron p = None -> p_time p = Some T ->
  (post_send reg p = reg /\ forall t, In t reg -> no_match (p_task p) T t) \/
  (exists r1 t r2 es1 e es2,
      reg = r1 ++ t :: r2 /\ t_own t = true /\ t_name t = p_task p /\ sched_of t = es1 ++ e :: es2 /\
      join (e_time e) = Some T /\ (forall e', In e' es1 -> join (e_time e') <> Some T) /\
      (forall t', In t' r1 -> no_match (p_task p) T t') /\
      post_send reg p = r1 ++ set_sched t (es1 ++ es2) :: r2).
Proof. exact post_send_one. Qed.
Print Assumptions C16_remove_one.

(* a cron or cron+time firing changes nothing *)
Theorem C16_remove_none_for_cron : forall reg p, pure_oneshot p = false -> post_send reg p = reg.
Proof. exact post_send_not_oneshot. Qed.
Print Assumptions C16_remove_none_for_cron.

(* any firing sequence (any order, repeated / stale / foreign firings) over any registry with unique task names
   (get_all_tasks is a dict): each task keeps name, broker and labels; foreign-broker tasks are untouched; each entry
   list is a sub-sequence of the old one; and for every time T the number of entries with time T drops by exactly the
   number of pure one-shot firings for (that task, T), truncated at zero - one entry per firing, no other entry *)
Theorem C16_remove_one_any_order : forall reg ps, NoDup (map t_name reg) ->
  exists f, fold_left post_send ps reg = map f reg /\
    forall t, same_but_sched t (f t) /\ (t_own t = false -> f t = t) /\ Sub (sched_of (f t)) (sched_of t) /\
      (forall T, count_time T (sched_of (f t)) = count_time T (sched_of t) - (if t_own t then fires ps (t_name t) T else 0)).
Proof. exact fire_all_spec. Qed.
Print Assumptions C16_remove_one_any_order.

(* ---- non-vacuity *)
Definition ex_e (u : nat) (c : option (option nat)) (t : option (option Z)) : entry := mkEntry u c t None None None None.
Definition ex_reg : list task :=
  [ mkTask 7 false [] (Some [ex_e 1 None (Some (Some 5%Z))]);
    mkTask 8 true [(3, LVal 1)] (Some [ex_e 2 (Some (Some 0)) None; ex_e 3 None (Some (Some 5%Z)); ex_e 4 None None;
                                      ex_e 5 (Some (Some 0)) (Some (Some 5%Z)); ex_e 6 None (Some (Some 5%Z))]) ].
Definition ex_p : payload := mkPayload 8 None (Some 5%Z) 0 0 [] None.

Example C16_listing_nonvacuous :
  option_map (map (fun p => (p_task p, p_cron p, p_time p))) (fst (get_schedules ex_reg)) =
  Some [(8, Some 0, None); (8, None, Some 5%Z); (8, Some 0, Some 5%Z); (8, None, Some 5%Z)].
Proof. vm_compute. reflexivity. Qed.

Example C16_remove_nonvacuous :
  map task_view (fold_left post_send [ex_p; ex_p] ex_reg) = [(7, [(1, None)]); (8, [(2, None); (4, None); (6, None)])]
  /\ map task_view (fold_left post_send [ex_p; ex_p; ex_p; ex_p] ex_reg) = [(7, [(1, None)]); (8, [(2, None); (4, None)])]
  /\ NoDup (map t_name ex_reg) /\ no_null ex_reg.
Proof.
  split; [vm_compute; reflexivity|]. split; [vm_compute; reflexivity|]. split.
  - simpl. repeat constructor; simpl; intuition congruence.
  - intros t e [<-|[<-|[]]] Ho; simpl in *; try discriminate. intuition subst; reflexivity.
Qed.

Example C16_payload_nonvacuous :
  on_ready (fun x => x) PreOk true true 9 (mkPayload 8 None (Some 5%Z) 1 2 [(3, LVal 1); (K_SCHEDULE_ID, LVal 4)] None) =
  ([EPre 9; EKick (mkMsg 8 1 2 [(3, LVal 1); (K_SCHEDULE_ID, LSid 9)]); EPost 9], ROk).
Proof. vm_compute. reflexivity. Qed.
