(* C17 - the process manager keeps exactly one live worker per slot.
   Model: coq/theories/ProcMan.v; proofs: coq/proofs/ProcManInv.v, ProcManC17.v.
   Every theorem quantifies over every worker count, every max_fails : Z, every first pid >= 1 and every
   history (list of tick_events of any length; events during the sleep, inside the drain loop and between
   two is_alive() calls).  `run c p0 hist = (l, o, s)`: l = effects per tick (head = prepare_workers),
   o = Cont (still running) / Exited code, s = final state. *)
From Coq Require Import ZArith List Bool Arith Lia.
Import ListNotations.
From TQ Require Import ProcMan ProcManInv ProcManC18 ProcManC17.

(* the number of slots never changes (hist is arbitrary, so this is every tick boundary and every exit) *)
Theorem C17_slots_constant : forall c p0 hist l o s,
  1 <= p0 -> run c p0 hist = (l, o, s) -> length (workers s) = nworkers c.
Proof. intros c p0 hist l o s Hp H. destruct (run_Inv c p0 hist l o s Hp H) as [I _]. apply I. Qed.
Print Assumptions C17_slots_constant.

(* meaning of the trace checker: at every prefix `pre` of the effect trace every slot has at most one process
   that was started and not yet joined; and whenever the next effect is `Start s p`, slot s has none, and if
   slot s was started before (latest: pid q) then `pre` ends with `Terminate q; Join q` *)
Theorem C17_olps_check_is_statement : forall tr,
  olps_check tr = true ->
  forall pre suf, tr = pre ++ suf ->
    (forall s, length (slot_occ s (unjoined pre)) <= 1) /\
    (forall s p suf', suf = Start s p :: suf' ->
       slot_occ s (unjoined pre) = [] /\
       forall q, last_started s (starts pre) = Some q -> exists pre', pre = pre' ++ [Terminate q; Join q]).
Proof. exact olps_sound. Qed.
Print Assumptions C17_olps_check_is_statement.

Theorem C17_one_live_per_slot : forall c p0 hist l o s,
  1 <= p0 -> run c p0 hist = (l, o, s) -> olps_check (concat l) = true /\ one_live_per_slot (concat l).
Proof.
  intros c p0 hist l o s Hp H. pose proof (run_olps c p0 hist l o s Hp H) as X.
  split; [exact X | apply olps_sound; exact X].
Qed.
Print Assumptions C17_one_live_per_slot.

(* a reload pending in the queue at a tick boundary (in particular the ReloadOne(i, False) the scan puts for
   a worker it found dead) is served during the next tick, unless that tick exits *)
Theorem C17_replaced_next_tick : forall c p0 hist l s te s' effs i b,
  1 <= p0 -> run c p0 hist = (l, Cont, s) -> In (ReloadOne i b) (queue s) ->
  tick c s te = (s', effs, Cont) -> exists p, In (Start i p) effs.
Proof.
  intros c p0 hist l s te s' effs i b Hp HR HQ HT.
  destruct (run_Inv c p0 hist l Cont s Hp HR) as [I _].
  eapply tick_pending; eauto.
Qed.
Print Assumptions C17_replaced_next_tick.

(* a worker that is not Live at a tick boundary is, in the next tick, either replaced or found dead by the
   scan (its failure reload is then pending), unless that tick exits *)
Theorem C17_scan_detects : forall c p0 hist l s te s' effs i,
  1 <= p0 -> run c p0 hist = (l, Cont, s) -> i < nworkers c -> pst (nth i (workers s) dummy) <> Live ->
  tick c s te = (s', effs, Cont) ->
  (exists p, In (Start i p) effs) \/ In (ReloadOne i false) (queue s').
Proof.
  intros c p0 hist l s te s' effs i Hp HR Hi NL HT.
  destruct (run_Inv c p0 hist l Cont s Hp HR) as [I _].
  eapply tick_dead; eauto.
Qed.
Print Assumptions C17_scan_detects.

(* hence: a worker that is dead at a tick boundary is replaced within the next two ticks, unless one of
   them exits (shutdown or exhausted failure budget) *)
Theorem C17_replaced_within_two : forall c p0 hist l s te1 s1 e1 te2 s2 e2 i,
  1 <= p0 -> run c p0 hist = (l, Cont, s) -> i < nworkers c -> pst (nth i (workers s) dummy) <> Live ->
  tick c s te1 = (s1, e1, Cont) -> tick c s1 te2 = (s2, e2, Cont) ->
  exists p, In (Start i p) (e1 ++ e2).
Proof.
  intros c p0 hist l s te1 s1 e1 te2 s2 e2 i Hp HR Hi NL T1 T2.
  destruct (run_Inv c p0 hist l Cont s Hp HR) as [I _].
  eapply replaced_within_two; eauto.
Qed.
Print Assumptions C17_replaced_within_two.

(* ---- non-vacuity *)
(* worker 1 dies during the first sleep: found dead by scan 1, replaced in tick 2 *)
Example C17_replaced_nonvacuous :
  fst (fst (run (mkCfg 2 (-1)) 100 [mkTE [Die 1] [] []; mkTE [] [] []])) =
  [[Start 0 100; Start 1 101]; []; [Got (ReloadOne 1 false); Terminate 101; Join 101; Start 1 102]].
Proof. vm_compute. reflexivity. Qed.

(* the bound two is tight: worker 0 dies right after the scan looked at it (before the is_alive() of worker 1)
   - it is a zombie at the boundary, tick 2 only detects it, tick 3 replaces it *)
Example C17_two_ticks_tight :
  fst (fst (run (mkCfg 2 (-1)) 100 [mkTE [] [] [[]; [Die 0]]; mkTE [] [] []; mkTE [] [] []])) =
  [[Start 0 100; Start 1 101]; []; []; [Got (ReloadOne 0 false); Terminate 100; Join 100; Start 0 102]].
Proof. vm_compute. reflexivity. Qed.

(* the checker does reject a trace that starts a replacement without waiting for the old process *)
Example C17_checker_rejects :
  olps_check [Start 0 100; Terminate 100; Start 0 101] = false /\
  olps_check [Start 0 100; Terminate 100; Join 100; Start 0 101] = true.
Proof. vm_compute. split; reflexivity. Qed.
