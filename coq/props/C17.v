From Coq Require Import ZArith List. Import ListNotations.
From TQ Require Import ProcMan.
Example C17_placeholder : fst (fst (run (mkCfg 1 1) 100 [])) = [[Start 0 100]].
Proof. vm_compute. reflexivity. Qed.
