From Coq Require Import ZArith Lia Bool ZifyBool List.
From TQ Require Import SchedDelay Civil CivilProofs Cron.
Import ListNotations.
Open Scope Z_scope.
Ltac Zify.zify_post_hook ::= Z.to_euclidean_division_equations.

(* ---------------------------------------------------------------- match_field = denotation *)

Lemma mod_zero_iff x s : 1 <= s -> 0 <= x -> (x mod s = 0 <-> exists k, 0 <= k /\ x = k * s).
Proof.
  intros Hs Hx. split.
  - intros H. exists (x / s). split; [apply Z.div_pos; lia|].
    pose proof (Z.div_mod x s ltac:(lia)). lia.
  - intros (k & Hk & ->). apply Z.mod_mul. lia.
Qed.

Lemma match_item_spec it v : wf_item it = true -> (match_item it v = true <-> in_item it v).
Proof.
  destruct it as [a | a b | a b s]; cbn [wf_item match_item]; intros Hwf.
  - split.
    + intros H. assert (v = a) as -> by lia. constructor.
    + intros H. inversion H; subst. lia.
  - split.
    + intros H. constructor. lia.
    + intros H. inversion H; subst. lia.
  - assert (Hs : 1 <= s) by lia. split.
    + intros H. assert (Hr : a <= v <= b) by lia.
      assert (Hm : (v - a) mod s = 0) by lia.
      apply (mod_zero_iff (v - a) s Hs ltac:(lia)) in Hm. destruct Hm as (k & Hk & Hv).
      replace v with (a + k * s) by lia. constructor; lia.
    + intros H. inversion H as [| |a' b' s' k Hs' Hk Hb]; subst.
      assert ((a + k * s - a) mod s = 0).
      { replace (a + k * s - a) with (k * s) by lia. apply Z.mod_mul. lia. }
      assert (0 <= k * s) by (apply Z.mul_nonneg_nonneg; lia).
      lia.
Qed.

Lemma match_field_spec lo f v : wf_field f = true -> lo <= v ->
  (match_field lo f v = true <-> in_field lo f v).
Proof.
  destruct f as [| n | l]; cbn [wf_field match_field]; intros Hwf Hlo.
  - split; [constructor | reflexivity].
  - assert (Hn : 1 <= n) by lia. split.
    + intros H. assert (Hm : (v - lo) mod n = 0) by lia.
      apply (mod_zero_iff (v - lo) n Hn ltac:(lia)) in Hm. destruct Hm as (k & Hk & Hv).
      replace v with (lo + k * n) by lia. constructor; lia.
    + intros H. inversion H; subst.
      match goal with |- (?x mod n =? 0) = true => replace x with (k * n) by lia end.
      rewrite Z.mod_mul by lia. reflexivity.
  - rewrite existsb_exists. rewrite forallb_forall in Hwf. split.
    + intros (it & Hin & Hm). apply in_items with it; [assumption|].
      apply match_item_spec; auto.
    + intros H. inversion H; subst. exists it. split; [assumption|].
      apply match_item_spec; auto.
Qed.

Lemma has_star_restricted f : has_star f = false <-> restricted f.
Proof.
  destruct f; cbn; split; try discriminate.
  - intros [l H]; discriminate.
  - intros [l H]; discriminate.
  - intros _. eexists; reflexivity.
  - reflexivity.
Qed.

Definition in_ranges (fl : fields) : Prop :=
  0 <= f_minute fl /\ 0 <= f_hour fl /\ 1 <= f_dom fl /\ 1 <= f_month fl /\ 0 <= f_dow fl.

Lemma wf_expr_fields e : wf_expr e = true ->
  wf_field (e_minute e) = true /\ wf_field (e_hour e) = true /\ wf_field (e_dom e) = true /\
  wf_field (e_month e) = true /\ wf_field (e_dow e) = true.
Proof. unfold wf_expr. rewrite !andb_true_iff. tauto. Qed.

Lemma matches_spec e fl : wf_expr e = true -> in_ranges fl -> (matches_b e fl = true <-> Matches e fl).
Proof.
  intros Hwf (R1 & R2 & R3 & R4 & R5).
  destruct (wf_expr_fields e Hwf) as (W1 & W2 & W3 & W4 & W5).
  unfold matches_b, Matches, day_rule, DayMatches. cbv zeta.
  rewrite !andb_true_iff.
  rewrite (match_field_spec 0 _ _ W1 R1), (match_field_spec 0 _ _ W2 R2), (match_field_spec 1 _ _ W4 R4).
  pose proof (match_field_spec 1 _ _ W3 R3) as HA. pose proof (match_field_spec 0 _ _ W5 R5) as HB.
  pose proof (has_star_restricted (e_dom e)) as SA. pose proof (has_star_restricted (e_dow e)) as SB.
  destruct (has_star (e_dom e)); destruct (has_star (e_dow e)); cbn [negb andb];
    rewrite ?orb_true_iff, ?andb_true_iff; rewrite HA, HB; intuition congruence.
Qed.

(* ---------------------------------------------------------------- get_task_delay, cron branch *)

Lemma fields_in_ranges t : in_ranges (fields_of t).
Proof. pose proof (fields_ranges t) as H. cbv zeta in H. unfold in_ranges. lia. Qed.

Section Due.
  Variable tzoff : nat -> Z -> Z.

  Lemma due_iff e off now : wf_expr e = true ->
    (cron_due tzoff e off now = true <->
     Matches e (fields_of (floor_minute (now + shift tzoff off now)))).
  Proof.
    intros Hwf. unfold cron_due. rewrite fields_floor_minute.
    apply matches_spec; [assumption | apply fields_in_ranges].
  Qed.

  Lemma seconds_irrelevant e off now1 now2 :
    floor_minute (now1 + shift tzoff off now1) = floor_minute (now2 + shift tzoff off now2) ->
    cron_due tzoff e off now1 = cron_due tzoff e off now2.
  Proof. intros H. unfold cron_due. rewrite (fields_same_minute _ _ H). reflexivity. Qed.

  (* the usual situation: the shift is a whole number of minutes and the same at both instants
     (no offset; a whole-minute timedelta; a zone whose offset does not change between them) *)
  Lemma seconds_irrelevant_whole_minutes e off now1 now2 :
    shift tzoff off now1 = shift tzoff off now2 -> (shift tzoff off now1) mod MIN = 0 ->
    floor_minute now1 = floor_minute now2 ->
    cron_due tzoff e off now1 = cron_due tzoff e off now2.
  Proof.
    intros Hs Hm Hf. apply seconds_irrelevant. rewrite <- Hs.
    unfold floor_minute, MIN, US in *. lia.
  Qed.

  Lemma utc_default e now : cron_due tzoff e NoOffset now = matches_b e (fields_of now).
  Proof. unfold cron_due. cbn [shift]. rewrite Z.add_0_r. reflexivity. Qed.

  Lemma utc_default_delta0 e now : cron_due tzoff e NoOffset now = cron_due tzoff e (Delta 0) now.
  Proof. reflexivity. Qed.

  Lemma delay_cases e off now :
    (cron_delay tzoff e off now = Some 0 /\ cron_due tzoff e off now = true) \/
    (cron_delay tzoff e off now = None /\ cron_due tzoff e off now = false).
  Proof. unfold cron_delay. destruct (cron_due tzoff e off now); auto. Qed.
End Due.

(* ---- what "across daylight-saving changes" means for the model, for ANY offset function with one transition at T:
   spring forward by g: no instant reads a wall clock inside the skipped interval [T+o, T+o+g) - a schedule whose only
   matching minutes lie there is never due on that day; fall back by g: every wall-clock reading of the repeated interval
   [T+o-g, T+o) is shown at two instants g apart, and the schedule gets the same answer at both *)
Lemma dst_gap_never_read tzoff z T o g : 0 < g ->
  (forall t, t < T -> tzoff z t = o) -> (forall t, T <= t -> tzoff z t = o + g) ->
  forall now, ~ (T + o <= now + shift tzoff (Zone z) now < T + o + g).
Proof.
  intros Hg Hb Ha now. cbn [shift]. destruct (Z_lt_ge_dec now T) as [H | H].
  - rewrite (Hb now H). lia.
  - rewrite (Ha now ltac:(lia)). lia.
Qed.

Lemma dst_overlap_twice tzoff z T o g e L : 0 < g ->
  (forall t, t < T -> tzoff z t = o) -> (forall t, T <= t -> tzoff z t = o - g) ->
  T + o - g <= L < T + o ->
  (L - o) + shift tzoff (Zone z) (L - o) = L /\ (L - o + g) + shift tzoff (Zone z) (L - o + g) = L /\
  cron_due tzoff e (Zone z) (L - o) = cron_due tzoff e (Zone z) (L - o + g).
Proof.
  intros Hg Hb Ha HL. cbn [shift].
  assert (E1 : tzoff z (L - o) = o) by (apply Hb; lia).
  assert (E2 : tzoff z (L - o + g) = o - g) by (apply Ha; lia).
  split; [lia|]. split; [lia|].
  apply seconds_irrelevant. cbn [shift]. rewrite E1, E2. f_equal. lia.
Qed.

Lemma utc_default_iff tzoff e now : wf_expr e = true ->
  (cron_due tzoff e NoOffset now = true <-> Matches e (fields_of (floor_minute now))).
Proof. intros H. rewrite (due_iff tzoff e NoOffset now H). cbn [shift]. rewrite Z.add_0_r. reflexivity. Qed.

(* ---------------------------------------------------------------- set expansion = matcher *)

Lemma upfrom_In fuel : forall a s b v, 1 <= s ->
  (In v (upfrom fuel a s b) <-> exists k, (k < fuel)%nat /\ v = a + Z.of_nat k * s /\ v <= b).
Proof.
  induction fuel as [| f IH]; intros a s b v Hs; cbn [upfrom].
  - split; [intros [] | intros (k & Hk & _); lia].
  - destruct (a <=? b) eqn:E.
    + cbn [In]. rewrite (IH (a + s) s b v Hs). split.
      * intros [<- | (k & Hk & Hv & Hb)].
        -- exists 0%nat. split; [lia|]. split; lia.
        -- exists (S k). split; [lia|]. split; [|assumption]. rewrite Nat2Z.inj_succ. lia.
      * intros (k & Hk & Hv & Hb). destruct k as [| k].
        -- left. lia.
        -- right. exists k. split; [lia|]. split; [|assumption]. rewrite Nat2Z.inj_succ in Hv. lia.
    + split; [intros [] |]. intros (k & Hk & Hv & Hb).
      assert (0 <= Z.of_nat k * s) by (apply Z.mul_nonneg_nonneg; lia). lia.
Qed.

Lemma memZ_In v l : memZ v l = true <-> In v l.
Proof.
  unfold memZ. rewrite existsb_exists. split.
  - intros (x & Hin & Hx). apply Z.eqb_eq in Hx. subst. assumption.
  - intros H. exists v. split; [assumption | apply Z.eqb_refl].
Qed.

Lemma bool_eq_iff (a b : bool) : (a = true <-> b = true) -> a = b.
Proof. destruct a, b; intuition congruence. Qed.

Lemma expand_item_spec lo hi it v : 0 <= lo -> lo <= v <= hi -> wf_item it = true ->
  (In v (expand_item lo hi it) <-> match_item it v = true).
Proof.
  intros Hlo Hv Hwf. destruct it as [a | a b | a b s]; cbn [expand_item match_item wf_item] in *.
  - destruct ((lo <=? a) && (a <=? hi)) eqn:E; cbn [In]; lia.
  - rewrite upfrom_In by lia. split.
    + intros (k & Hk & Hv' & Hb). lia.
    + intros H. exists (Z.to_nat (v - Z.max a lo)). lia.
  - assert (Hs : 1 <= s) by lia. rewrite filter_In, upfrom_In by lia. split.
    + intros ((k & Hk & Hv' & Hb) & Hl).
      assert (0 <= Z.of_nat k * s) by (apply Z.mul_nonneg_nonneg; lia).
      assert ((v - a) mod s = 0).
      { replace (v - a) with (Z.of_nat k * s) by lia. apply Z.mod_mul. lia. }
      lia.
    + intros H. assert (Hr : a <= v <= b) by lia. assert (Hm : (v - a) mod s = 0) by lia.
      apply (mod_zero_iff (v - a) s Hs ltac:(lia)) in Hm. destruct Hm as (k & Hk & Hk').
      split; [|lia]. exists (Z.to_nat k). rewrite Z2Nat.id by lia.
      assert (k * 1 <= k * s) by (apply Z.mul_le_mono_nonneg_l; lia). lia.
Qed.

Lemma expand_field_spec lo hi f v : 0 <= lo -> lo <= v <= hi -> wf_field f = true ->
  memZ v (expand_field lo hi f) = match_field lo f v.
Proof.
  intros Hlo Hv Hwf. apply bool_eq_iff. rewrite memZ_In.
  destruct f as [| n | l]; cbn [expand_field match_field wf_field] in *.
  - rewrite upfrom_In by lia. split; [reflexivity|]. intros _. exists (Z.to_nat (v - lo)). lia.
  - assert (Hn : 1 <= n) by lia. rewrite upfrom_In by lia. split.
    + intros (k & Hk & Hv' & Hb).
      assert ((v - lo) mod n = 0).
      { replace (v - lo) with (Z.of_nat k * n) by lia. apply Z.mod_mul. lia. }
      lia.
    + intros H. assert (Hm : (v - lo) mod n = 0) by lia.
      apply (mod_zero_iff (v - lo) n Hn ltac:(lia)) in Hm. destruct Hm as (k & Hk & Hk').
      exists (Z.to_nat k). rewrite Z2Nat.id by lia. assert (k * 1 <= k * n) by (apply Z.mul_le_mono_nonneg_l; lia). lia.
  - rewrite in_flat_map, existsb_exists. rewrite forallb_forall in Hwf.
    split; intros (it & Hin & H); exists it; (split; [assumption|]);
      apply (expand_item_spec lo hi it v Hlo Hv (Hwf it Hin)); assumption.
Qed.

Definition in_full_ranges (fl : fields) : Prop :=
  0 <= f_minute fl <= 59 /\ 0 <= f_hour fl <= 23 /\ 1 <= f_dom fl <= 31 /\ 1 <= f_month fl <= 12 /\
  0 <= f_dow fl <= 6.

Lemma spec_due_matches e fl : wf_expr e = true -> in_full_ranges fl -> spec_due e fl = matches_b e fl.
Proof.
  intros Hwf (R1 & R2 & R3 & R4 & R5).
  destruct (wf_expr_fields e Hwf) as (W1 & W2 & W3 & W4 & W5).
  unfold spec_due, matches_b, day_rule. cbv zeta.
  rewrite (expand_field_spec 0 59 _ _ ltac:(lia) R1 W1), (expand_field_spec 0 23 _ _ ltac:(lia) R2 W2),
    (expand_field_spec 1 12 _ _ ltac:(lia) R4 W4), (expand_field_spec 1 31 _ _ ltac:(lia) R3 W3),
    (expand_field_spec 0 6 _ _ ltac:(lia) R5 W5).
  destruct (has_star (e_dom e)), (has_star (e_dow e)); reflexivity.
Qed.

Lemma fields_in_full_ranges t : in_full_ranges (fields_of t).
Proof. pose proof (fields_ranges t) as H. cbv zeta in H. unfold in_full_ranges. tauto. Qed.

(* the Boolean form evaluated on implementation observations is the statement *)
Lemma check_is_statement e sh now obs : wf_expr e = true ->
  (C13_check e sh now obs = true <->
   (obs = Some 0 /\ Matches e (fields_of (floor_minute (now + sh)))) \/
   (obs = None /\ ~ Matches e (fields_of (floor_minute (now + sh))))).
Proof.
  intros Hwf. unfold C13_check.
  rewrite (spec_due_matches e _ Hwf (fields_in_full_ranges (now + sh))).
  rewrite fields_floor_minute.
  pose proof (matches_spec e (fields_of (now + sh)) Hwf (fields_in_ranges (now + sh))) as HM.
  destruct obs as [d |].
  - rewrite andb_true_iff, Z.eqb_eq, HM. split.
    + intros [-> H]. left. auto.
    + intros [[E H] | [E _]]; [|discriminate]. inversion E. auto.
  - rewrite negb_true_iff. split.
    + intros H. right. split; [reflexivity|]. rewrite <- HM. congruence.
    + intros [[E _] | [_ H]]; [discriminate|]. rewrite <- HM in H. destruct (matches_b e _); congruence.
Qed.

Lemma model_meets_check tzoff e off now : wf_expr e = true ->
  C13_check e (shift tzoff off now) now (cron_delay tzoff e off now) = true.
Proof.
  intros Hwf. unfold C13_check, cron_delay, cron_due.
  rewrite (spec_due_matches e _ Hwf (fields_in_full_ranges _)).
  destruct (matches_b e _) eqn:E; cbn; rewrite ?E; reflexivity.
Qed.

(* read on the calendar: whenever the shifted clock shows y-m-d h:mi (any second), the schedule is due
   iff the expression matches that civil minute, the weekday being Zeller's congruence of the date *)
Lemma due_at_civil tzoff e off now y m d h mi s : wf_expr e = true ->
  1 <= m <= 12 -> 1 <= d <= days_in_month y m -> 0 <= h <= 23 -> 0 <= mi <= 59 -> 0 <= s < MIN ->
  now + shift tzoff off now = (days_from_civil y m d * 1440 + h * 60 + mi) * MIN + s ->
  (cron_due tzoff e off now = true <-> Matches e (mkF mi h d m (weekday_of_civil y m d) y)).
Proof.
  intros Hwf Hm Hd Hh Hmi Hs Hnow. unfold cron_due. rewrite Hnow.
  rewrite (fields_of_civil y m d h mi s Hm Hd Hh Hmi Hs).
  apply matches_spec; [assumption|]. unfold in_ranges. cbn. unfold weekday_of_civil. lia.
Qed.
