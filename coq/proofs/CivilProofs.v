From Coq Require Import ZArith Lia Bool ZifyBool.
From TQ Require Import SchedDelay Civil.
Open Scope Z_scope.
Ltac Zify.zify_post_hook ::= Z.to_euclidean_division_equations.

(* ---------------------------------------------------------------- days <-> civil date *)

Lemma civil_roundtrip z : let '(y, m, d) := civil_from_days z in days_from_civil y m d = z.
Proof.
  unfold civil_from_days, days_from_civil. cbv zeta.
  destruct (_ <? 10) eqn:E1.
  - destruct (_ <=? 2) eqn:E2; destruct (_ >? 2) eqn:E3; try lia.
  - destruct (_ <=? 2) eqn:E2; destruct (_ >? 2) eqn:E3; try lia.
Qed.

Lemma civil_ranges z : let '(y, m, d) := civil_from_days z in 1 <= m <= 12 /\ 1 <= d <= 31.
Proof.
  unfold civil_from_days. cbv zeta.
  destruct (_ <? 10) eqn:E1; lia.
Qed.

Lemma yoe_doy doe : 0 <= doe < 146097 ->
  let yoe := (doe - doe / 1460 + doe / 36524 - doe / 146096) / 365 in
  let doy := doe - (365 * yoe + yoe / 4 - yoe / 100) in
  0 <= yoe <= 399 /\ 0 <= doy <= 365 /\
  (doy = 365 -> (yoe + 1) mod 4 = 0 /\ ((yoe + 1) mod 100 <> 0 \/ yoe + 1 = 400)).
Proof. cbv zeta. intros. lia. Qed.

Lemma leap_shift y e : is_leap (y + e * 400) = is_leap y.
Proof. unfold is_leap. lia. Qed.

Ltac case_if := match goal with |- context [if ?b then _ else _] => destruct b eqn:? end.

(* the day produced is a day of the produced month of the produced year (Gregorian rule) *)
Lemma civil_day_valid z : let '(y, m, d) := civil_from_days z in d <= days_in_month y m.
Proof.
  unfold civil_from_days. cbv zeta.
  set (zz := z + 719468). set (era := zz / 146097). set (doe := zz - era * 146097).
  assert (Hdoe : 0 <= doe < 146097) by (subst doe era; lia).
  pose proof (yoe_doy doe Hdoe) as H. cbv zeta in H.
  set (yoe := (doe - doe / 1460 + doe / 36524 - doe / 146096) / 365) in *.
  set (doy := doe - (365 * yoe + yoe / 4 - yoe / 100)) in *.
  destruct H as (Hy & Hd & Hl).
  set (mp := (5 * doy + 2) / 153).
  assert (Hmp : 0 <= mp <= 11) by (subst mp; lia).
  assert (Hmp' : 153 * mp <= 5 * doy + 2 < 153 * (mp + 1)) by (subst mp; lia).
  clearbody mp. clearbody doy. clearbody yoe. clearbody era.
  unfold days_in_month.
  assert (mp = 0 \/ mp = 1 \/ mp = 2 \/ mp = 3 \/ mp = 4 \/ mp = 5 \/ mp = 6 \/ mp = 7 \/ mp = 8 \/
          mp = 9 \/ mp = 10 \/ mp = 11) as Hc by lia.
  repeat (destruct Hc as [Hc | Hc]); subst mp; cbn; try lia.
  replace (yoe + era * 400 + 1) with ((yoe + 1) + era * 400) by lia.
  rewrite leap_shift. unfold is_leap.
  destruct (Z.eq_dec doy 365) as [E | E].
  - destruct (Hl E) as [H4 H100]. case_if; lia.
  - case_if; lia.
Qed.

(* the year-of-era is recovered from the day-of-era *)
Lemma yoe_recover yoe doy : 0 <= yoe <= 399 -> 0 <= doy <= 365 ->
  (doy = 365 -> (yoe + 1) mod 4 = 0 /\ ((yoe + 1) mod 100 <> 0 \/ yoe + 1 = 400)) ->
  let doe := yoe * 365 + yoe / 4 - yoe / 100 + doy in
  0 <= doe < 146097 /\ (doe - doe / 1460 + doe / 36524 - doe / 146096) / 365 = yoe.
Proof. cbv zeta. intros. lia. Qed.

(* the other direction: every valid Gregorian date is the civil reading of its day number *)
Lemma civil_inverse_valid y m d : 1 <= m <= 12 -> 1 <= d <= days_in_month y m ->
  civil_from_days (days_from_civil y m d) = (y, m, d).
Proof.
  intros Hm Hd.
  unfold days_from_civil. cbv zeta.
  set (y1 := if m <=? 2 then y - 1 else y).
  set (era := y1 / 400). set (yoe := y1 - era * 400).
  set (mp := if m >? 2 then m - 3 else m + 9).
  set (doy := (153 * mp + 2) / 5 + d - 1).
  assert (Hyoe : 0 <= yoe <= 399) by (subst yoe era; generalize y1; intros; lia).
  assert (Hmp : 0 <= mp <= 11 /\ (m = if mp <? 10 then mp + 3 else mp - 9))
    by (subst mp; destruct (m >? 2) eqn:E; (split; [lia|]); case_if; lia).
  assert (Hleap : m = 2 -> is_leap y = is_leap (yoe + 1)).
  { intros ->. subst yoe era y1. cbn.
    rewrite <- (leap_shift (y - 1 - (y - 1) / 400 * 400 + 1) ((y - 1) / 400)). f_equal. lia. }
  assert (Hdoy : 0 <= doy <= 365 /\
                 (doy = 365 -> (yoe + 1) mod 4 = 0 /\ ((yoe + 1) mod 100 <> 0 \/ yoe + 1 = 400)) /\
                 (5 * doy + 2) / 153 = mp /\ doy - (153 * mp + 2) / 5 + 1 = d).
  { unfold days_in_month in Hd. subst doy.
    assert (mp = 0 \/ mp = 1 \/ mp = 2 \/ mp = 3 \/ mp = 4 \/ mp = 5 \/ mp = 6 \/ mp = 7 \/ mp = 8 \/
            mp = 9 \/ mp = 10 \/ mp = 11) as Hc by lia.
    destruct Hmp as [_ Hmm]. clearbody mp.
    repeat (destruct Hc as [Hc | Hc]); subst mp; cbn in Hmm; subst m; cbn in Hd; try lia.
    rewrite (Hleap eq_refl) in Hd. unfold is_leap in Hd.
    match type of Hd with context [if ?b then _ else _] => destruct b eqn:Eb end; lia. }
  destruct Hdoy as (Hd1 & Hd2 & Hd3 & Hd4).
  pose proof (yoe_recover yoe doy Hyoe Hd1 Hd2) as Hr. cbv zeta in Hr.
  set (doe := yoe * 365 + yoe / 4 - yoe / 100 + doy) in *.
  destruct Hr as [Hdoe Hrec].
  unfold civil_from_days. cbv zeta.
  replace (era * 146097 + doe - 719468 + 719468) with (doe + era * 146097) by lia.
  replace ((doe + era * 146097) / 146097) with era by lia.
  replace (doe + era * 146097 - era * 146097) with doe by lia.
  rewrite Hrec.
  replace (doe - (365 * yoe + yoe / 4 - yoe / 100)) with doy by (subst doe; lia).
  rewrite Hd3, Hd4.
  destruct Hmp as [Hmp1 Hmp2]. rewrite <- Hmp2.
  f_equal. f_equal. subst yoe y1. destruct (m <=? 2); lia.
Qed.

(* ---------------------------------------------------------------- weekday *)

Lemma weekday_range d : 0 <= weekday_of_days d <= 6.
Proof. unfold weekday_of_days. lia. Qed.

Lemma weekday_week d : weekday_of_days (d + 7) = weekday_of_days d.
Proof. unfold weekday_of_days. lia. Qed.

Lemma weekday_succ d : weekday_of_days (d + 1) = (weekday_of_days d + 1) mod 7.
Proof. unfold weekday_of_days. lia. Qed.

Lemma epoch_is_thursday : civil_from_days 0 = (1970, 1, 1) /\ weekday_of_days 0 = 4.
Proof. split; reflexivity. Qed.

(* the weekday derived from the day number is Zeller's congruence of the civil date *)
Lemma weekday_zeller y m d : 1 <= m <= 12 ->
  weekday_of_days (days_from_civil y m d) = weekday_of_civil y m d.
Proof.
  intros Hm. unfold weekday_of_days, days_from_civil, weekday_of_civil. cbv zeta.
  assert (m = 1 \/ m = 2 \/ m = 3 \/ m = 4 \/ m = 5 \/ m = 6 \/ m = 7 \/ m = 8 \/ m = 9 \/ m = 10 \/
          m = 11 \/ m = 12) as Hc by lia.
  repeat (destruct Hc as [Hc | Hc]); subst m;
    cbn [Z.leb Z.gtb Z.compare Pos.compare Pos.compare_cont]; lia.
Qed.

(* ---------------------------------------------------------------- instant -> fields *)

Lemma minute_index_floor t : minute_index (floor_minute t) = minute_index t.
Proof. unfold minute_index, floor_minute, MIN, US. lia. Qed.

Lemma floor_minute_index t : floor_minute t = minute_index t * MIN.
Proof. reflexivity. Qed.

Lemma same_minute_iff t1 t2 : floor_minute t1 = floor_minute t2 <-> minute_index t1 = minute_index t2.
Proof. unfold minute_index, floor_minute, MIN, US. lia. Qed.

Lemma fields_same_minute t1 t2 : floor_minute t1 = floor_minute t2 -> fields_of t1 = fields_of t2.
Proof. intros H. apply same_minute_iff in H. unfold fields_of. rewrite H. reflexivity. Qed.

Lemma fields_floor_minute t : fields_of (floor_minute t) = fields_of t.
Proof. unfold fields_of. rewrite minute_index_floor. reflexivity. Qed.

Lemma fields_ranges t :
  let fl := fields_of t in
  0 <= f_minute fl <= 59 /\ 0 <= f_hour fl <= 23 /\ 1 <= f_dom fl <= 31 /\ 1 <= f_month fl <= 12 /\
  0 <= f_dow fl <= 6 /\ f_dom fl <= days_in_month (f_year fl) (f_month fl).
Proof.
  cbv zeta. unfold fields_of. cbv zeta.
  set (days := minute_index t / 1440).
  pose proof (civil_ranges days) as Hr. pose proof (civil_day_valid days) as Hv.
  pose proof (weekday_range days) as Hw.
  destruct (civil_from_days days) as [[y m] d]. cbn [f_minute f_hour f_dom f_month f_dow f_year].
  generalize (minute_index t). intros. lia.
Qed.

(* C13_civil_inverse: the six fields (with the year) name the minute of the instant, and nothing else *)
Lemma fields_inverse t : minute_of_fields (fields_of t) = minute_index t.
Proof.
  unfold minute_of_fields, fields_of. cbv zeta.
  set (days := minute_index t / 1440).
  pose proof (civil_roundtrip days) as Hr.
  destruct (civil_from_days days) as [[y m] d]. cbn [f_minute f_hour f_dom f_month f_dow f_year].
  rewrite Hr. subst days. generalize (minute_index t). intros. lia.
Qed.

Lemma fields_inverse_instant t : minute_of_fields (fields_of t) * MIN = floor_minute t.
Proof. rewrite fields_inverse. reflexivity. Qed.

(* and every valid civil minute is the reading of every instant inside that minute *)
Lemma fields_of_civil y m d h mi s :
  1 <= m <= 12 -> 1 <= d <= days_in_month y m -> 0 <= h <= 23 -> 0 <= mi <= 59 -> 0 <= s < MIN ->
  fields_of ((days_from_civil y m d * 1440 + h * 60 + mi) * MIN + s)
  = mkF mi h d m (weekday_of_civil y m d) y.
Proof.
  intros Hm Hd Hh Hmi Hs. unfold fields_of. cbv zeta.
  set (D := days_from_civil y m d).
  assert (E1 : minute_index ((D * 1440 + h * 60 + mi) * MIN + s) = D * 1440 + h * 60 + mi)
    by (unfold minute_index, MIN, US in *; lia).
  rewrite E1.
  replace ((D * 1440 + h * 60 + mi) / 1440) with D by lia.
  subst D. rewrite (civil_inverse_valid y m d Hm Hd). rewrite (weekday_zeller y m d Hm).
  f_equal; lia.
Qed.

Lemma fields_dow_zeller t :
  let fl := fields_of t in f_dow fl = weekday_of_civil (f_year fl) (f_month fl) (f_dom fl).
Proof.
  cbv zeta. unfold fields_of. cbv zeta.
  set (days := minute_index t / 1440).
  pose proof (civil_roundtrip days) as Hr. pose proof (civil_ranges days) as Hg.
  destruct (civil_from_days days) as [[y m] d]. cbn [f_minute f_hour f_dom f_month f_dow f_year].
  rewrite <- Hr at 1. apply weekday_zeller. lia.
Qed.
