(* Facts about the statement monad that the source tie of AsyncKicker.kiq needs on top of PyPreludePipelineProofs.v
   and that do not depend on any generated text: a `for_` loop over the indexed middleware stack whose body is one
   iteration of the post_send shape (no loop-carried variable) IS Pipeline.v's unit_hook_loop.  Used by coq/srcproofs/Src_kiq_C10.v (re-checked against the freshly
   generated Gen_kiq.v on every run). *)
From Coq Require Import List Arith Bool ZArith.
From TQ Require Import Base Pipeline PyPreludePipeline PyPreludePipelineProofs.
Import ListNotations.

(* one iteration of a hook loop that hands nothing on, as the model performs it *)
Definition unit_step {R} (k : hookk) (sel : mw -> option (msg -> bool)) (m : msg) (j : nat) (w : mw) (u : unit)
  : stm R unit :=
  match sel w with
  | None => next tt
  | Some f => lift (emit (FHookM k j m) ;;; if f m then ret tt else raise XHook)
  end.

Lemma for_unit_hook : forall {R} k sel m (body : nat * mw -> unit -> stm R unit) st i u,
  (forall j w u', body (j, w) u' = unit_step k sel m j w u') ->
  for_ (indexed_from i st) body u = lift (unit_hook_loop k sel i st m).
Proof.
  intros R k sel m body st. induction st as [|w st IH]; intros i u H; [destruct u; reflexivity|].
  cbn [indexed_from for_ unit_hook_loop]. rewrite H. unfold unit_step. destruct (sel w) as [f|].
  - rewrite sbind_lift, lift_bind, bind_assoc. apply bind_ext. intros _.
    rewrite lift_bind. apply bind_ext. intros u'. apply IH. exact H.
  - rewrite sbind_next_l. apply IH. exact H.
Qed.
