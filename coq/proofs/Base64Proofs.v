(* b64decode (b64encode bs) = bs for every byte list. *)
From Coq Require Import NArith ZArith List Bool Lia.
From Coq.Strings Require Import Byte.
From TQ Require Import Base64.
Import ListNotations.
Open Scope N_scope.

Ltac Zify.zify_post_hook ::= Z.to_euclidean_division_equations.

Lemma bN_bound : forall b, bN b < 256.
Proof. intro b. unfold bN. pose proof (Byte.to_N_bounded b). lia. Qed.

Lemma byte_of_bN : forall b, byte_of_N (bN b) = b.
Proof.
  intro b. unfold byte_of_N, bN.
  rewrite N.mod_small by (pose proof (Byte.to_N_bounded b); lia).
  now rewrite Byte.of_to_N.
Qed.

Lemma dec6_enc6 : forall n, n < 64 -> dec6 (enc6 n) = Some n.
Proof.
  intros n H. unfold enc6.
  destruct (n <? 26) eqn:E1; [unfold dec6|].
  - replace ((65 <=? 65 + n) && (65 + n <=? 90)) with true by (symmetry; apply andb_true_iff; split; apply N.leb_le; apply N.ltb_lt in E1; lia).
    f_equal. lia.
  - destruct (n <? 52) eqn:E2; [unfold dec6|].
    + apply N.ltb_ge in E1. apply N.ltb_lt in E2.
      replace ((65 <=? 97 + (n - 26)) && (97 + (n - 26) <=? 90)) with false
        by (symmetry; apply andb_false_iff; right; apply N.leb_gt; lia).
      replace ((97 <=? 97 + (n - 26)) && (97 + (n - 26) <=? 122)) with true
        by (symmetry; apply andb_true_iff; split; apply N.leb_le; lia).
      f_equal. lia.
    + destruct (n <? 62) eqn:E3; [unfold dec6|].
      * apply N.ltb_ge in E1, E2. apply N.ltb_lt in E3.
        replace ((65 <=? 48 + (n - 52)) && (48 + (n - 52) <=? 90)) with false
          by (symmetry; apply andb_false_iff; left; apply N.leb_gt; lia).
        replace ((97 <=? 48 + (n - 52)) && (48 + (n - 52) <=? 122)) with false
          by (symmetry; apply andb_false_iff; left; apply N.leb_gt; lia).
        replace ((48 <=? 48 + (n - 52)) && (48 + (n - 52) <=? 57)) with true
          by (symmetry; apply andb_true_iff; split; apply N.leb_le; lia).
        f_equal. lia.
      * apply N.ltb_ge in E1, E2, E3.
        destruct (n =? 62) eqn:E4.
        -- apply N.eqb_eq in E4. subst. reflexivity.
        -- apply N.eqb_neq in E4. assert (n = 63) by lia. subst. reflexivity.
Qed.

(* the arithmetic alphabet is the RFC 4648 table *)
Lemma enc6_table : forall n, n < 64 -> nth (N.to_nat n) alphabet 0 = enc6 n.
Proof.
  intros n H.
  assert (Hn : (N.to_nat n < 64)%nat) by lia.
  rewrite <- (N2Nat.id n) at 2. generalize dependent (N.to_nat n). clear.
  intros k Hk. do 64 (destruct k as [|k]; [reflexivity|]). lia.
Qed.

Lemma enc6_not_pad : forall n, n < 64 -> enc6 n =? PAD = false.
Proof.
  intros n H. unfold enc6, PAD.
  destruct (n <? 26) eqn:E1; [apply N.ltb_lt in E1; apply N.eqb_neq; lia|].
  destruct (n <? 52) eqn:E2; [apply N.ltb_lt in E2; apply N.eqb_neq; lia|].
  destruct (n <? 62) eqn:E3; [apply N.ltb_lt in E3; apply N.eqb_neq; lia|].
  destruct (n =? 62); reflexivity.
Qed.

Lemma list3_ind (A : Type) (P : list A -> Prop) :
  P [] -> (forall a, P [a]) -> (forall a b, P [a; b]) ->
  (forall a b c r, P r -> P (a :: b :: c :: r)) -> forall l, P l.
Proof.
  intros H0 H1 H2 H3.
  assert (H : forall l, P l /\ (forall a, P (a :: l)) /\ (forall a b, P (a :: b :: l))).
  { induction l as [|x l [IH0 [IH1 IH2]]].
    - repeat split; auto.
    - repeat split; auto. }
  intro l. apply H.
Qed.

Lemma group3 : forall a b c, a < 256 -> b < 256 -> c < 256 ->
  let n := a * 65536 + b * 256 + c in
  let s1 := n / 262144 in let s2 := (n / 4096) mod 64 in let s3 := (n / 64) mod 64 in let s4 := n mod 64 in
  s1 < 64 /\ s2 < 64 /\ s3 < 64 /\ s4 < 64 /\ s1 * 262144 + s2 * 4096 + s3 * 64 + s4 = n
  /\ n / 65536 = a /\ (n / 256) mod 256 = b /\ n mod 256 = c.
Proof. intros. cbv zeta. repeat split; lia. Qed.

Lemma group2 : forall a b, a < 256 -> b < 256 ->
  let n := a * 256 + b in
  let s1 := n / 1024 in let s2 := (n / 16) mod 64 in let s3 := (n mod 16) * 4 in
  s1 < 64 /\ s2 < 64 /\ s3 < 64 /\
  let m := s1 * 1024 + s2 * 16 + s3 / 4 in m / 256 = a /\ m mod 256 = b.
Proof. intros. cbv zeta. repeat split; lia. Qed.

Lemma group1 : forall a, a < 256 ->
  let s1 := a / 4 in let s2 := (a mod 4) * 16 in
  s1 < 64 /\ s2 < 64 /\ s1 * 4 + s2 / 16 = a.
Proof. intros. cbv zeta. repeat split; lia. Qed.

Theorem b64_roundtrip : forall bs, b64decode (b64encode bs) = Some bs.
Proof.
  induction bs as [|a|a b|a b c r IH] using list3_ind.
  - reflexivity.
  - pose proof (group1 (bN a) (bN_bound a)) as [G1 [G2 G3]].
    cbn [b64encode b64decode]. rewrite !N.eqb_refl.
    unfold grp1. rewrite !dec6_enc6 by assumption. rewrite G3, byte_of_bN. reflexivity.
  - pose proof (group2 (bN a) (bN b) (bN_bound a) (bN_bound b)) as [G1 [G2 [G3 [G4 G5]]]].
    cbn [b64encode b64decode]. rewrite N.eqb_refl. rewrite enc6_not_pad by assumption.
    unfold grp2. rewrite !dec6_enc6 by assumption. cbv zeta. rewrite G4, G5, !byte_of_bN. reflexivity.
  - pose proof (group3 (bN a) (bN b) (bN c) (bN_bound a) (bN_bound b) (bN_bound c))
      as [G1 [G2 [G3 [G4 [G5 [G6 [G7 G8]]]]]]].
    cbn [b64encode]. cbv zeta. cbn [b64decode]. rewrite enc6_not_pad by assumption.
    rewrite !dec6_enc6 by assumption. rewrite IH. cbv zeta. rewrite G5, G6, G7, G8, !byte_of_bN. reflexivity.
Qed.

(* the encoded text consists of alphabet characters and '=' only (so .decode() to str and JSON transport
   never meet a non-ASCII character) *)
Lemma enc6_ascii : forall n, n < 64 -> enc6 n < 128.
Proof.
  intros n H. unfold enc6.
  destruct (n <? 26) eqn:E1; [apply N.ltb_lt in E1; lia|].
  destruct (n <? 52) eqn:E2; [apply N.ltb_lt in E2; lia|].
  destruct (n <? 62) eqn:E3; [apply N.ltb_lt in E3; lia|].
  destruct (n =? 62); lia.
Qed.
