(* C08 - the Boolean form evaluated on implementation observations (C08_check) says what the statement says. *)
From Coq Require Import List Bool Arith Lia.
From TQ Require Import Params ParamsProofs.
Import ListNotations.

Section CheckSound.
  Variable value : Type.
  Variable is_none : value -> bool.
  Variable ty : Type.
  Variable is_any : ty -> bool.
  Variable conv : ty -> value -> cres value.
  Variable veqb : value -> value -> bool.
  Hypothesis veqb_eq : forall a b, veqb a b = true -> a = b.

  Definition plain (r : rcv value) : Prop := match r with RStar _ | RStarStar _ => False | _ => True end.
  Definition oplain (r : orcv value) : Prop := match r with OStar _ | OStarStar _ => False | _ => True end.

  Lemma all_kw_pos_then_kw : forall ps, all_kw value ps = true -> pos_then_kw value ps = true.
  Proof. induction ps as [|p ps IH]; simpl; auto. destruct (pkind p); auto; discriminate. Qed.

  Lemma fill_kw_plain : forall p K r, fill_kw value p K = Some r -> plain r.
  Proof.
    intros p K r. unfold fill_kw. destruct (dget K (pname p)).
    - intros E; inversion E; exact I.
    - destruct (pdefault p); intros E; inversion E; exact I.
  Qed.

  Lemma bind_params_plain : forall whole ps args K b, pos_then_kw value ps = true ->
    bind_params value whole ps args K = Some b -> Forall plain b.
  Proof.
    intros whole. induction ps as [|p ps IH]; intros args K b Hw Hb; simpl in *.
    - destruct args; inversion Hb; constructor.
    - destruct (pkind p) eqn:Ek; try discriminate.
      + destruct args as [|v args].
        * destruct (fill_kw value p K) as [r|] eqn:Ef; [|discriminate].
          apply ocons_some in Hb as [b' [Hb' ->]]. constructor; eauto using fill_kw_plain.
        * destruct (dmem K (pname p)); [discriminate|].
          apply ocons_some in Hb as [b' [Hb' ->]]. constructor; [exact I|eauto].
      + destruct (fill_kw value p K) as [r|] eqn:Ef; [|discriminate].
        apply ocons_some in Hb as [b' [Hb' ->]]. constructor; eauto using fill_kw_plain, all_kw_pos_then_kw.
  Qed.

  Lemma expected_plain : forall h kw p r, plain r -> plain (expected_rcv value is_none ty is_any conv h kw p r).
  Proof. intros h kw p [v|v| | |] H; simpl in *; auto. destruct (dmem kw (pname p)); exact I. Qed.

  Lemma map2_plain : forall h kw ps b, Forall plain b ->
    Forall plain (map2 (expected_rcv value is_none ty is_any conv h kw) ps b).
  Proof.
    intros h kw ps b Hb. unfold map2. revert ps. induction Hb as [|r b Hr Hb IH]; intros [|p ps]; simpl; constructor.
    - now apply expected_plain.
    - apply IH.
  Qed.

  Lemma erase_plain : forall b, Forall plain b -> Forall oplain (map (erase_rcv value) b).
  Proof. induction 1 as [|r b Hr Hb IH]; simpl; constructor; auto. destruct r; simpl in *; auto. Qed.

  Lemma orcv_eqb_sound : forall x y, oplain y -> orcv_eqb value veqb x y = true -> x = y.
  Proof.
    intros [a| | |] [b| | |] Hy H; simpl in *; try discriminate; try contradiction; auto.
    f_equal. now apply veqb_eq.
  Qed.

  Lemma olist_eqb_sound : forall l2 l1, Forall oplain l2 -> list_eqb (orcv_eqb value veqb) l1 l2 = true -> l1 = l2.
  Proof.
    induction l2 as [|y l2 IH]; intros [|x l1] Hp H; simpl in *; try discriminate; auto.
    apply andb_true_iff in H as [Hx Hl]. inversion Hp; subst. f_equal.
    - now apply orcv_eqb_sound.
    - now apply IH.
  Qed.

  Lemma obs_eqb_invoked_sound : forall o l, Forall oplain l -> obs_eqb value veqb o (OInvoked l) = true -> o = OInvoked l.
  Proof. intros [l'| |] l Hp H; simpl in *; try discriminate. f_equal. now apply olist_eqb_sound. Qed.

  (* C08_check o = true means: in scope, for a call CPython accepts, (with no foreign exception) the observation IS
     "invoked, each parameter received expected(p)" / with parsing off "invoked with what was sent" *)
  Theorem check_sound : forall validate sg h args kw o b,
    C08_check value is_none ty is_any conv veqb validate sg h args kw o = true ->
    in_scope value sg kw = true ->
    pycall value sg args (dupdate (dep_kwargs value sg) kw) = Some b ->
    (validate = true -> conv_raises value ty conv h (args ++ map snd kw) = false ->
       o = OInvoked (map (erase_rcv value) (map2 (expected_rcv value is_none ty is_any conv h kw) sg b))) /\
    (validate = false -> o = OInvoked (map (erase_rcv value) b)).
  Proof.
    intros validate sg h args kw o b Hc Hs Hb. unfold C08_check in Hc. rewrite Hs, Hb in Hc. simpl in Hc.
    assert (Hw : pos_then_kw value sg = true).
    { unfold in_scope in Hs. apply andb_true_iff in Hs as [Hs _]. now apply andb_true_iff in Hs as [Hs _]. }
    assert (Hp : Forall plain b).
    { unfold pycall in Hb. destruct (_ || _) in Hb; [|discriminate]. eapply bind_params_plain; eauto. }
    split; intros Hv; subst validate.
    - intros Hr. rewrite Hr in Hc. apply obs_eqb_invoked_sound; auto. apply erase_plain. now apply map2_plain.
    - apply obs_eqb_invoked_sound; auto. now apply erase_plain.
  Qed.
End CheckSound.
