(* C11: the retry middleware re-sends a bounded number of times. *)
From Coq Require Import ZArith NArith List Bool Lia PeanoNat.
From TQ Require Import Base64 Labels LabelsCodecProofs LabelsProofs Retry.
Import ListNotations.
Open Scope nat_scope.

Section Retry.
  Variable sof : Z -> pstr.
  Variable fos : pstr -> option Z.
  Hypothesis float_roundtrip : forall f, fos (sof f) = Some f.
  Variable c : cfg.
  Variable outs : nat -> outcome.
  Variables id args : N.
  Variable M : Z.                       (* the effective max_retries *)

  (* a received message the middleware can work with *)
  Record wf (L : dict lval) (r : Z) : Prop := {
    wf_nodup : NoDup (keys L);
    wf_recv : received L;
    wf_cnt : counter K_RETRIES L = Some r;
    wf_max : max_retries c L = Some M
  }.

  Definition stored_resent : option bool := if no_result_on_retry c then None else Some true.
  Definition stored_final (o : outcome) : option bool :=
    match o with OSuccess => Some false | ONoResult => None | OFail => Some true end.

  (* everything the statement says about the executions [es] that start at stream index i with labels L and
     B re-sends left *)
  Definition Good (B i : nat) (L : dict lval) (es : list exec) : Prop :=
    1 <= length es <= S B /\
    forall j e, nth_error es j = Some e ->
      e_id e = id /\ e_args e = args /\ user_view (e_labels e) = user_view L /\ e_out e = outs (i + j)
      /\ e_raised e = false
      /\ (S j < length es -> outs (i + j) = OFail /\ e_resent e = true /\ e_stored e = stored_resent)
      /\ (S j = length es -> e_resent e = false /\ e_stored e = stored_final (outs (i + j))
                             /\ (outs (i + j) = OFail -> length es = S B)).

  Lemma good_single : forall B i L e,
    e_id e = id -> e_args e = args -> e_labels e = L -> e_out e = outs i -> e_raised e = false ->
    e_resent e = false -> e_stored e = stored_final (outs i) -> (outs i = OFail -> B = 0) ->
    Good B i L [e].
  Proof.
    intros B i L e H1 H2 H3 H4 H5 H6 H7 H8. split; [cbn; lia|].
    intros j e' Hn. destruct j; [|destruct j; discriminate]. cbn in Hn. inversion Hn; subst e'.
    rewrite Nat.add_0_r. repeat split; auto; try (cbn; lia).
    all: try (now rewrite H3).
    all: cbn; intros; try lia.
    all: try (exfalso; cbn in *; lia).
    all: try (match goal with o : outs _ = OFail |- _ => rewrite (H8 o) end; reflexivity).
  Qed.

  Lemma enabled_dset : forall L v, retry_enabled c (dset K_RETRIES v L) = retry_enabled c L.
  Proof. intros. unfold retry_enabled. now rewrite dget_dset_other by discriminate. Qed.

  Lemma max_dset : forall L v, max_retries c (dset K_RETRIES v L) = max_retries c L.
  Proof. intros. unfold max_retries. now rewrite dget_dset_other by discriminate. Qed.

  Lemma attempts_good : forall B fuel i L r,
    B = budget M r -> B < fuel -> wf L r -> retry_enabled c L = true ->
    exists es, attempts sof fos c outs fuel i (mkMsg id args L) = Some es /\ Good B i L es.
  Proof.
    induction B as [|b IH]; intros fuel i L r HB Hf W En; destruct fuel as [|f]; try lia;
      cbn [attempts m_labels m_id m_args]; destruct (outs i) eqn:Eo.
    1,3,4,6: eexists; split; [reflexivity|]; apply good_single; cbn; rewrite ?Eo; auto; discriminate.
    - (* B = 0, fail: exhausted *)
      unfold decide. rewrite En, (wf_cnt _ _ W), (wf_max _ _ W). cbn [negb].
      assert (Hlt : (r + 1 <? M)%Z = false) by (apply Z.ltb_ge; unfold budget in HB; lia).
      rewrite Hlt. eexists; split; [reflexivity|]. apply good_single; cbn; rewrite ?Eo; auto.
    - (* B = S b, fail: re-send *)
      unfold decide. rewrite En, (wf_cnt _ _ W), (wf_max _ _ W). cbn [negb].
      assert (Hlt : (r + 1 <? M)%Z = true) by (apply Z.ltb_lt; unfold budget in HB; lia).
      rewrite Hlt. unfold retry_resend, dmerge. cbn [fold_left fst snd].
      set (L' := dset K_RETRIES (LInt (r + 1)) L).
      assert (ND' : NoDup (keys L')) by (apply NoDup_dset, (wf_nodup _ _ W)).
      assert (RC' : received L') by (apply received_dset; [exact I|apply (wf_recv _ _ W)]).
      rewrite (labels_roundtrip sof fos float_roundtrip L' ND'), (norm_dict_received L' RC').
      assert (W' : wf L' (r + 1)).
      { constructor; auto.
        - unfold L'. now rewrite counter_dset_same.
        - unfold L'. rewrite max_dset. apply (wf_max _ _ W). }
      destruct (IH f (S i) L' (r + 1)%Z) as (es & Hes & [Hlen Hall]); auto.
      + unfold budget in *. lia.
      + lia.
      + unfold L'. now rewrite enabled_dset.
      + rewrite Hes. cbn [option_map]. eexists; split; [reflexivity|].
        split; [cbn [length]; lia|].
        intros j e Hn. destruct j as [|j].
        * cbn in Hn. inversion Hn; subst e. cbn [e_id e_args e_labels e_out e_stored e_resent e_raised length].
          rewrite Nat.add_0_r. repeat split; auto; try lia.
        * cbn [nth_error] in Hn. destruct (Hall j e Hn) as (G1 & G2 & G3 & G4 & G5 & G6 & G7).
          replace (i + S j) with (S i + j) by lia. cbn [length].
          repeat split; auto.
          -- rewrite G3. unfold L'. now apply user_view_dset.
          -- apply G6. lia.
          -- apply G6. lia.
          -- apply G6. lia.
          -- apply G7. lia.
          -- apply G7. lia.
          -- intro o. f_equal. apply G7; [lia|exact o].
  Qed.

  (* ---- the first delivery of a message sent with labels d (no LOther values, distinct keys) *)
  Theorem retry_good : forall d r fuel,
    NoDup (keys d) -> received d -> counter K_RETRIES d = Some r -> max_retries c d = Some M ->
    retry_enabled c d = true -> budget M r < fuel ->
    exists es, run_retry sof fos c outs fuel id args d = Some es /\ Good (budget M r) 0 d es.
  Proof.
    intros d r fuel ND RC Hc Hm En Hf. unfold run_retry.
    rewrite (labels_roundtrip sof fos float_roundtrip d ND), (norm_dict_received d RC).
    apply (attempts_good (budget M r) fuel 0 d r); auto. constructor; auto.
  Qed.

  (* retry disabled: one execution, nothing re-sent, its outcome stored *)
  Theorem retry_disabled : forall d fuel,
    NoDup (keys d) -> received d -> retry_enabled c d = false -> 0 < fuel ->
    exists e, run_retry sof fos c outs fuel id args d = Some [e]
      /\ e_resent e = false /\ e_stored e = stored_final (outs 0) /\ e_out e = outs 0
      /\ e_id e = id /\ e_args e = args /\ e_labels e = d.
  Proof.
    intros d fuel ND RC En Hf. unfold run_retry.
    rewrite (labels_roundtrip sof fos float_roundtrip d ND), (norm_dict_received d RC).
    destruct fuel as [|f]; [lia|]. cbn [attempts m_labels m_id m_args].
    destruct (outs 0) eqn:Eo; try (eexists; split; [reflexivity|]; cbn; rewrite ?Eo; auto 10).
    unfold decide. rewrite En. cbn [negb]. eexists; split; [reflexivity|]; cbn; rewrite ?Eo; auto 10.
  Qed.

  (* the task signals no-result on its first execution: never re-sent, nothing stored (whatever the labels) *)
  Theorem retry_noresult : forall d fuel,
    NoDup (keys d) -> received d -> outs 0 = ONoResult -> 0 < fuel ->
    exists e, run_retry sof fos c outs fuel id args d = Some [e] /\ e_resent e = false /\ e_stored e = None.
  Proof.
    intros d fuel ND RC Eo Hf. unfold run_retry.
    rewrite (labels_roundtrip sof fos float_roundtrip d ND), (norm_dict_received d RC).
    destruct fuel as [|f]; [lia|]. cbn [attempts]. rewrite Eo. eexists; split; [reflexivity|]. auto.
  Qed.
End Retry.

(* ---------------------------------------------------------------- the statement, clause by clause *)
Lemma budget_max : forall M r, S (budget M r) = Z.to_nat (Z.max 1 (M - r)).
Proof. intros. unfold budget. lia. Qed.

Lemma nth_error_ex {A} : forall (l : list A) j, j < length l -> exists e, nth_error l j = Some e.
Proof. intros l j H. destruct (nth_error l j) eqn:E; [eauto|]. apply nth_error_None in E. lia. Qed.

Section Clauses.
  Variable sof : Z -> pstr.
  Variable fos : pstr -> option Z.
  Hypothesis float_roundtrip : forall f, fos (sof f) = Some f.

  Theorem bound : forall c outs id args d M r fuel,
    NoDup (keys d) -> received d -> counter K_RETRIES d = Some r -> max_retries c d = Some M ->
    retry_enabled c d = true -> budget M r < fuel ->
    exists es, run_retry sof fos c outs fuel id args d = Some es /\
      let n := length es in
      1 <= n <= Z.to_nat (Z.max 1 (M - r))
      /\ (forall j, S j < n -> outs j = OFail)
      /\ (n < Z.to_nat (Z.max 1 (M - r)) -> outs (n - 1) <> OFail)
      /\ (forall j e, nth_error es j = Some e ->
            e_id e = id /\ e_args e = args /\ user_view (e_labels e) = user_view d /\ e_out e = outs j
            /\ e_raised e = false).
  Proof.
    intros c outs id args d M r fuel ND RC Hc Hm En Hf.
    destruct (retry_good sof fos float_roundtrip c outs id args M d r fuel ND RC Hc Hm En Hf) as (es & Hr & [Hlen Hall]).
    exists es. split; [exact Hr|]. cbv zeta. rewrite <- budget_max. repeat split; try lia.
    - intros j Hj. destruct (nth_error_ex es j ltac:(lia)) as [e He].
      destruct (Hall j e He) as (_ & _ & _ & _ & _ & G6 & _). now apply G6.
    - intros Hn Ho. destruct (nth_error_ex es (length es - 1) ltac:(lia)) as [e He].
      destruct (Hall _ e He) as (_ & _ & _ & _ & _ & _ & G7).
      destruct G7 as (_ & _ & G); [lia|]. cbn in G. specialize (G Ho). lia.
    - now destruct (Hall j e H) as (G1 & _).
    - now destruct (Hall j e H) as (_ & G2 & _).
    - now destruct (Hall j e H) as (_ & _ & G3 & _).
    - now destruct (Hall j e H) as (_ & _ & _ & G4 & _).
    - now destruct (Hall j e H) as (_ & _ & _ & _ & G5 & _).
  Qed.

  Theorem results : forall c outs id args d M r fuel,
    NoDup (keys d) -> received d -> counter K_RETRIES d = Some r -> max_retries c d = Some M ->
    retry_enabled c d = true -> budget M r < fuel ->
    exists es, run_retry sof fos c outs fuel id args d = Some es /\
      forall j e, nth_error es j = Some e ->
        (S j < length es -> e_resent e = true /\ e_stored e = if no_result_on_retry c then None else Some true)
        /\ (S j = length es -> e_resent e = false /\
              e_stored e = match outs j with OSuccess => Some false | ONoResult => None | OFail => Some true end).
  Proof.
    intros c outs id args d M r fuel ND RC Hc Hm En Hf.
    destruct (retry_good sof fos float_roundtrip c outs id args M d r fuel ND RC Hc Hm En Hf) as (es & Hr & [Hlen Hall]).
    exists es. split; [exact Hr|]. intros j e He.
    destruct (Hall j e He) as (_ & _ & _ & _ & _ & G6 & G7). cbn in G6, G7. split; intro H.
    - destruct (G6 H) as (_ & A & B). auto.
    - destruct (G7 H) as (A & B & _). auto.
  Qed.
End Clauses.
