(* Property-level theorems of the receiver LTS (C01, C03, C05), from the invariants of RecvLTSProofs / RecvLTSFlow. *)
From Coq Require Import List Arith Bool Lia Permutation.
Import ListNotations.
From TQ Require Import RecvLTS RecvLTSProofs RecvLTSFlow.

Record Inv (c : cfg) (s : st) : Prop := mkInv {
  i_slots : InvSlots c s; i_q : InvQ c s; i_flow : InvFlow s; i_live : InvLive s; i_pc : InvPc c s;
  i_shape : InvShape s; i_stop : InvStop s; i_n : InvN c s; i_ret : InvRet c s }.

Lemma init_inv c : Inv c (init c).
Proof.
  constructor.
  - apply init_slots.
  - apply init_q.
  - unfold InvFlow, init; simpl. repeat split; auto. constructor.
  - unfold InvLive, init; simpl. split; [constructor | apply incl_refl].
  - unfold InvPc, init; simpl. split; [exact I | discriminate].
  - unfold InvShape, init; simpl. reflexivity.
  - unfold InvStop, init; simpl. reflexivity.
  - unfold InvN, init; simpl. split; [destruct (cN c) as [[|n]|]; auto; split; [lia | discriminate] | split; discriminate].
  - unfold InvRet, init; simpl. split; discriminate.
Qed.

Lemma gstep_inv d c s e s' : Inv c s -> gstep d c s e = Some s' -> Inv c s'.
Proof.
  intros [] Hs. constructor;
    eauto using gstep_slots, gstep_q, gstep_flow, gstep_live, gstep_pc, gstep_shape, gstep_stop, gstep_n, gstep_ret.
Qed.

Lemma reach_inv d c tr s : grun d c (init c) tr = Some s -> Inv c s.
Proof. apply (grun_inv d c (Inv c)); [apply gstep_inv | apply init_inv]. Qed.

Lemma reach_fix c tr s : run c (init c) tr = Some s -> InvFix c s.
Proof.
  intros H. cut (Inv c s /\ InvFix c s); [tauto|]. revert H.
  apply (grun_inv false c (fun s => Inv c s /\ InvFix c s)).
  - intros s0 e s1 [Hi Hf] Hs. split; [eapply gstep_inv; eauto | eapply step_fix; eauto using i_pc].
  - split; [apply init_inv|]. unfold InvFix, init; simpl. repeat split; auto.
    unfold reachedN. destruct (cN c) as [n|]; [|discriminate]. destruct n; simpl; discriminate.
Qed.

(* ================================================================== C03 *)
Lemma limit_of_slots c a s : cA c = Some a -> 0 < a -> InvSlots c s -> busy s <= a.
Proof.
  intros Ha Hp H. specialize (H (limited_pos _ _ Ha Hp)). unfold slots in H. rewrite Ha in H. lia.
Qed.

Lemma rev_prefix_flow s : InvFlow s -> exists rest, rev (taken s) = rev (started s) ++ rest.
Proof. intros (F1 & _). eexists. exact F1. Qed.

Lemma NoDup_rev_iff (l : list nat) : NoDup (rev l) <-> NoDup l.
Proof.
  split; intros H.
  - rewrite <- (rev_involutive l). apply NoDup_rev. exact H.
  - apply NoDup_rev. exact H.
Qed.

Lemma nodup_app_l (l m : list nat) : NoDup (l ++ m) -> NoDup l.
Proof.
  induction l as [|x t IH]; simpl; intros H; [constructor|]. inversion H; subst. constructor.
  - intro Hx. apply H2. apply in_or_app. left. exact Hx.
  - apply IH. exact H3.
Qed.

Lemma started_nodup s : InvFlow s -> NoDup (started s) /\ incl (started s) (taken s).
Proof.
  intros (F1 & F2 & _). split.
  - apply NoDup_rev_iff in F2. rewrite F1 in F2. apply nodup_app_l in F2. apply NoDup_rev_iff. exact F2.
  - intros x Hx. apply in_rev. rewrite F1. apply in_or_app. left. apply in_rev in Hx. exact Hx.
Qed.

(* A = 1: a message is started only when no other callback task exists, and every earlier one has finished *)
Lemma serial_start c s id s' :
  cA c = Some 1 -> Inv c s -> step c s (ERnGet (IMsg id)) = Some s' ->
  busy s = 0 /\ Permutation (started s) (finished s).
Proof.
  intros Ha Hi Hs. pose proof (i_slots _ _ Hi (limited_pos _ _ Ha ltac:(lia))) as H. unfold slots in H. rewrite Ha in H.
  unfold step, gstep in Hs. destruct (rn s) eqn:Er; try discriminate. cbn [holds_slot] in H.
  assert (Hb : busy s = 0) by lia. split; [exact Hb|].
  destruct (i_live _ _ Hi) as [L _]. unfold busy in Hb. destruct (live s); [exact L | simpl in Hb; lia].
Qed.

(* ---- enabledness: in every reachable state some prefetcher / runner step is enabled, or the system waits
        for the environment in one of three ways *)
Definition blocked (c : cfg) (s : st) : Prop :=
  (rn s = RNAcq /\ limited c = true /\ sem s = 0 /\ busy s = slots c /\ (pf s = PFDone \/ (pf s = PFAcq /\ semp s = 0)))
  \/ (pf s = PFDone /\ rn s = RNWait /\ live s <> [])
  \/ (pf s = PFDone /\ rn s = RNDone).

Ltac enabled ev := left; exists ev; eexists; split; [reflexivity | unfold step, gstep].

Lemma enabled_or_blocked c s : Inv c s ->
  (exists e s', internal e = true /\ step c s e = Some s') \/ blocked c s.
Proof.
  intros Hi. pose proof (i_slots _ _ Hi) as HS. pose proof (i_q _ _ Hi) as HQ. pose proof (i_pc _ _ Hi) as [HP _].
  pose proof (i_shape _ _ Hi) as HSh. unfold InvSlots, InvQ, InvShape in *.
  assert (RA : rn s = RNAcq -> (exists e s', internal e = true /\ step c s e = Some s') \/
                               (limited c = true /\ sem s = 0 /\ busy s = slots c)).
  { intros Er. destruct (limited c) eqn:L.
    - destruct (sem s) eqn:Es.
      + right. specialize (HS eq_refl). rewrite Er in HS. simpl in HS. repeat split; auto; lia.
      + enabled ERnAcquire. rewrite Er, L, Es. reflexivity.
    - enabled ERnAcquire. rewrite Er, L. reflexivity. }
  destruct (pf s) eqn:Ep.
  - destruct (fin s) eqn:Ef; [enabled (EPfCheck true) | enabled (EPfCheck false)]; rewrite Ep, Ef; reflexivity.
  - destruct (semp s) eqn:Esp.
    + destruct (rn s) eqn:Er; try tauto.
      * destruct (RA eq_refl) as [H|(H1 & H2 & H3)]; [left; exact H|].
        right. left. repeat split; auto.
      * cbn [holds_permit holds_slot] in HQ. destruct (queue s) as [|[id|] q] eqn:Eq.
        -- unfold nmsgs in HQ. simpl in HQ. lia.
        -- enabled (ERnGet (IMsg id)). rewrite Er, Eq, Nat.eqb_refl. reflexivity.
        -- simpl in HSh. discriminate.
    + destruct (reachedN c (fetched s)) eqn:Ern; enabled EPfAcquire; rewrite Ep, Esp, Ern; reflexivity.
  - destruct (look s) eqn:El; try tauto.
    + enabled EPfTimeout. rewrite Ep, El. reflexivity.
    + enabled (EPfGot id (negb (reachedN c (S (fetched s))))). rewrite Ep, El, Nat.eqb_refl. cbn [orb andb].
      rewrite eqb_reflx. reflexivity.
    + enabled EPfExhausted. rewrite Ep, El. reflexivity.
  - enabled EPfExit. rewrite Ep. reflexivity.
  - destruct (rn s) eqn:Er.
    + destruct (RA eq_refl) as [H|(H1 & H2 & H3)]; [left; exact H|]. right. left. repeat split; auto.
    + destruct (queue s) as [|[id|] q] eqn:Eq.
      * simpl in HSh. discriminate.
      * enabled (ERnGet (IMsg id)). rewrite Er, Eq, Nat.eqb_refl. reflexivity.
      * enabled (ERnGet IDone). rewrite Er, Eq. reflexivity.
    + destruct (live s) eqn:El.
      * enabled (ERnWaited AllDone). rewrite Er, El. reflexivity.
      * right. right. left. repeat split; auto. rewrite El. discriminate.
    + right. right. right. split; assumption.
Qed.

Lemma C03_check_spec c a s : cA c = Some a -> 0 < a ->
  (C03_check c s = true <-> busy s <= a /\ sem s + busy s + holds_slot (rn s) = a).
Proof.
  unfold C03_check. intros -> Hp. destruct a; [lia|]. rewrite andb_true_iff, Nat.leb_le, Nat.eqb_eq. reflexivity.
Qed.

Lemma C03_scan_true c tr : run c (init c) tr <> None -> scan c (C03_check c) (init c) tr = true.
Proof.
  intros Hr. apply (scan_all c (C03_check c) (InvSlots c)); auto.
  - intros s H. unfold C03_check. destruct (cA c) as [[|a]|] eqn:Ha; auto.
    specialize (H (limited_pos _ _ Ha ltac:(lia))). unfold slots in H. rewrite Ha in H.
    apply andb_true_iff. split; [apply Nat.leb_le | apply Nat.eqb_eq]; lia.
  - intros. eapply gstep_slots; eauto.
  - apply init_slots.
Qed.

(* ================================================================== C01 *)
Lemma la_done s c : InvPc c s -> pf s = PFDone -> la_ids (look s) = [].
Proof. intros [P _] Ep. rewrite Ep in P. destruct (look s); try tauto; reflexivity. Qed.

Lemma rev_inj (l m : list nat) : rev l = rev m -> l = m.
Proof. intros H. rewrite <- (rev_involutive l), <- (rev_involutive m), H. reflexivity. Qed.

(* both returned, nothing lost: every taken message was started *)
Lemma all_started c s : Inv c s -> lost s = [] -> pf s = PFDone -> rn s = RNDone -> taken s = started s.
Proof.
  intros Hi Hl Ep Er. destruct (i_flow _ _ Hi) as (F1 & _). pose proof (i_shape _ _ Hi) as Sh. unfold InvShape in Sh.
  rewrite Ep, Er in Sh. rewrite Sh, (la_done _ _ (i_pc _ _ Hi) Ep), Hl in F1. simpl in F1. rewrite app_nil_r in F1.
  apply rev_inj. exact F1.
Qed.

Lemma all_run_at_return c s : Inv c s -> lost s = [] -> pf s = PFDone -> rn s = RNDone -> live s = [] ->
  Permutation (taken s) (finished s).
Proof.
  intros Hi Hl Ep Er Hlive. rewrite (all_started c s Hi Hl Ep Er). destruct (i_live _ _ Hi) as [L _].
  rewrite Hlive in L. exact L.
Qed.

Lemma nodupb_spec l : NoDup l -> nodupb l = true.
Proof.
  induction 1 as [|x t Hx Hn IH]; simpl; [reflexivity|]. rewrite IH, andb_true_r. apply negb_true_iff.
  destruct (mem x t) eqn:E; [apply mem_In in E; contradiction | reflexivity].
Qed.
Lemma inclb_spec l m : incl l m -> inclb l m = true.
Proof.
  induction l as [|x t IH]; simpl; intros H; [reflexivity|]. apply andb_true_iff. split.
  - apply mem_In. apply H. left. reflexivity.
  - apply IH. intros y Hy. apply H. right. exact Hy.
Qed.

Lemma C01_scan_true c tr : run c (init c) tr <> None -> scan c (C01_check c) (init c) tr = true.
Proof.
  intros Hr. apply (scan_all c (C01_check c) (fun s => Inv c s /\ InvFix c s)); auto.
  - intros s [Hi (X1 & _)]. unfold C01_check. destruct (started_nodup s (i_flow _ _ Hi)) as [N1 N2].
    rewrite (nodupb_spec _ N1), (inclb_spec _ _ N2), X1. cbn [isnil andb].
    destruct (ret s) eqn:Et; [|reflexivity]. destruct (live s) eqn:El; [|reflexivity]. cbn [isnil andb].
    destruct (i_ret _ _ Hi) as [_ R2]. destruct (R2 Et) as [Ep Er].
    pose proof (all_run_at_return c s Hi X1 Ep Er El) as Pm.
    rewrite (inclb_spec _ _ (fun x Hx => Permutation_in x Pm Hx)), (Permutation_length Pm), Nat.eqb_refl. reflexivity.
  - intros s e s' [Hi Hf] Hs. split; [eapply gstep_inv; eauto | eapply step_fix; eauto using i_pc].
  - split; [apply init_inv|]. unfold InvFix, init; simpl. repeat split; auto.
    unfold reachedN. destruct (cN c) as [n|]; [|discriminate]. destruct n; simpl; discriminate.
Qed.

(* ================================================================== C05 *)
Lemma one_more s : InvStop s -> tas s <= 1.
Proof. unfold InvStop. destruct (fin s); lia. Qed.

(* once the stop was requested, a freshly created look-ahead can never take anything *)
Definition NoNewLa (s : st) : Prop :=
  fin s = true /\ (look s = LANew \/ look s = LACancelled) /\ (look s = LANew -> pf s = PFTop \/ pf s = PFExit).

Lemma step_nonewla c s e s' : NoNewLa s -> step c s e = Some s' -> NoNewLa s' /\ taken s' = taken s.
Proof.
  unfold NoNewLa. intros (Hf & Hl & Hp) Hs.
  stepcases Hs; rw_fields; try (split; [repeat split; auto | reflexivity]).
  all: try (destruct Hl; congruence).
  all: try (destruct Hl as [Hl|Hl]; [destruct (Hp Hl); congruence | congruence]).
  all: try (destruct b; cbn [eqb] in *; congruence).
  all: try (rewrite Hf in *; discriminate).
  all: try (split; [repeat split; auto; try (intros; discriminate) | reflexivity]).
  all: try (left; reflexivity); try (right; reflexivity); try (intros _; right; reflexivity); try (intros _; left; reflexivity).
Qed.

Lemma run_nonewla c : forall tr s s', NoNewLa s -> run c s tr = Some s' -> taken s' = taken s.
Proof.
  unfold run. induction tr as [|e t IH]; simpl; intros s s' H Hr.
  - inversion Hr. reflexivity.
  - destruct (gstep false c s e) eqn:Hs; [|discriminate]. destruct (step_nonewla c s e s0 H Hs) as [H' Ht].
    rewrite <- Ht. eapply IH; eauto.
Qed.

Lemma waits c s : InvRet c s -> rn s = RNDone -> live s <> [] -> timedout s = true /\ cW c = true.
Proof. intros [R _] Er Hl. destruct (R Er); [contradiction | assumption]. Qed.

Lemma budget_exact c s n : Inv c s -> InvFix c s -> cN c = Some n -> 0 < n -> why s = Some CBudget ->
  fetched s = n /\ (pf s = PFDone -> length (taken s) = n).
Proof.
  intros Hi (X1 & X2 & _) En Hp Hw. destruct (i_n _ _ Hi) as [N1 N2]. rewrite Hw in N2. destruct N2 as [_ Hr].
  rewrite En in N1. destruct n; [lia|]. destruct N1 as [N1 _].
  assert (Hf : fetched s = S n).
  { unfold reachedN in Hr. rewrite En in Hr. apply andb_prop in Hr as [_ Hr]. apply Nat.leb_le in Hr. lia. }
  split; [exact Hf|]. intros Ep. destruct (i_flow _ _ Hi) as (F1 & _ & _ & F4).
  apply (f_equal (@length nat)) in F1. rewrite !app_length, !rev_length, X1, (la_done _ _ (i_pc _ _ Hi) Ep) in F1.
  unfold nmsgs in F4. simpl in F1. lia.
Qed.

Lemma budget_bound c s n : Inv c s -> InvFix c s -> cN c = Some (S n) -> length (taken s) <= S n.
Proof.
  intros Hi (X1 & X2 & _) En. destruct (i_n _ _ Hi) as [N1 _]. rewrite En in N1. destruct N1 as [N1 _].
  destruct (i_flow _ _ Hi) as (F1 & _ & _ & F4).
  apply (f_equal (@length nat)) in F1. rewrite !app_length, !rev_length, X1 in F1. unfold nmsgs in F4. simpl in F1.
  destruct (look s) eqn:El; cbn [la_ids length] in F1; try lia.
  (* look-ahead holds a message: the budget is not yet reached *)
  destruct (reachedN c (fetched s)) eqn:Er; [specialize (X2 eq_refl); congruence|].
  pose proof (reachedN_false _ _ _ En Er). lia.
Qed.

(* the variant: prefetcher pc, queue length, runner pc *)
Lemma mu_internal c s e s' : fin s = true -> internal e = true -> step c s e = Some s' -> mu s' < mu s.
Proof.
  unfold mu. intros Hf Hi Hs.
  stepcases Hs; try discriminate; rw_fields; rewrite ?app_length; cbn [pfw rnw length] in *; try lia.
  all: try (rewrite Hf in *; discriminate).
Qed.
Lemma mu_env c s e s' : internal e = false -> step c s e = Some s' -> mu s' = mu s /\ (fin s = true -> fin s' = true).
Proof.
  unfold mu. intros Hi Hs.
  stepcases Hs; try discriminate; rw_fields; cbn [pfw rnw] in *; split; auto; try (intros; discriminate).
Qed.
Lemma fin_stable c s e s' : fin s = true -> step c s e = Some s' -> fin s' = true.
Proof. intros Hf Hs. stepcases Hs; auto. Qed.

(* number of internal events of a trace *)
Fixpoint n_internal (tr : list ev) : nat :=
  match tr with [] => 0 | e :: t => (if internal e then 1 else 0) + n_internal t end.

Lemma terminates c : forall tr s s', fin s = true -> run c s tr = Some s' -> n_internal tr + mu s' <= mu s.
Proof.
  unfold run. induction tr as [|e t IH]; simpl; intros s s' Hf Hr.
  - inversion Hr. lia.
  - destruct (gstep false c s e) eqn:Hs; [|discriminate].
    pose proof (fin_stable c s e s0 Hf Hs) as Hf'. specialize (IH s0 s' Hf' Hr).
    destruct (internal e) eqn:Hi.
    + pose proof (mu_internal c s e s0 Hf Hi Hs). lia.
    + destruct (mu_env c s e s0 Hi Hs) as [Hm _]. lia.
Qed.

Lemma progress_when_idle c s : Inv c s -> live s = [] -> ending s = [] ->
  (pf s = PFDone /\ rn s = RNDone) \/ exists e s', internal e = true /\ step c s e = Some s'.
Proof.
  intros Hi Hl He. destruct (enabled_or_blocked c s Hi) as [H|[H|[H|H]]]; auto.
  - destruct H as (Er & L & Hs & Hb & _). pose proof (i_slots _ _ Hi L) as HS. unfold busy in *. rewrite Hl, He in *.
    simpl in *. destruct (limited_some c L) as [a Ha]. unfold slots in *. rewrite Ha in *. lia.
  - destruct H as (_ & _ & Hx). contradiction.
Qed.

Lemma C05_scan_true c tr : run c (init c) tr <> None -> scan c (C05_check c) (init c) tr = true.
Proof.
  intros Hr. apply (scan_all c (C05_check c) (fun s => Inv c s /\ InvFix c s)); auto.
  - intros s [Hi Hf]. unfold C05_check. apply andb_true_iff. split; [apply andb_true_iff; split|].
    + apply Nat.leb_le. apply one_more. apply (i_stop _ _ Hi).
    + destruct (cN c) as [[|n]|] eqn:En; auto. apply Nat.leb_le. eapply budget_bound; eauto.
    + destruct (ret s) eqn:Et; [|reflexivity]. destruct (i_ret _ _ Hi) as [R1 R2]. destruct (R2 Et) as [_ Er].
      destruct (R1 Er) as [H|[H1 H2]]; [rewrite H; reflexivity | rewrite H1, H2; apply orb_true_r].
  - intros s e s' [Hi Hf] Hs. split; [eapply gstep_inv; eauto | eapply step_fix; eauto using i_pc].
  - split; [apply init_inv|]. unfold InvFix, init; simpl. repeat split; auto.
    unfold reachedN. destruct (cN c) as [n|]; [|discriminate]. destruct n; simpl; discriminate.
Qed.
